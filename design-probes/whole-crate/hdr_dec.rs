use crate::vprelude::*;
use crate::common::{label_of, reg_of, regp_of, nonempty_bytes, lemma_label_obeys_cmp, axiom_derived_clone_label};

pub open spec fn crit_ok(v: Value) -> bool {
    v matches Value::Array(a) && a@.len() > 0
    && (forall |j: int| 0 <= j < a@.len() ==> (#[trigger] reg_of::<iana::HeaderParameter>(a@[j])) is Some)
}
pub open spec fn ct_text_ok(t: Seq<char>) -> bool { t.len() > 0 && trimmed(t) == t && count_char(t, '/') == 1 }
pub open spec fn ct_ok(v: Value) -> bool {
    reg_of::<iana::CoapContentFormat>(v) matches Some(c) && (c matches RegisteredLabel::Text(t) ==> ct_text_ok(t@))
}
pub open spec fn csig_ok(v: Value) -> bool {
    v matches Value::Array(a) && a@.len() > 0 && (
        (a@[0] is Bytes && crate::vstubs::sig_accepts(v))
        || (a@[0] is Array && forall |j: int| 0 <= j < a@.len() ==> crate::vstubs::sig_accepts(#[trigger] a@[j])))
}
pub open spec fn hdr_pair_ok(k: Value, v: Value) -> bool {
    label_of(k) matches Some(l) && (
        if l == Label::Int(1) { regp_of::<iana::Algorithm>(v) is Some }
        else if l == Label::Int(2) { crit_ok(v) }
        else if l == Label::Int(3) { ct_ok(v) }
        else if l == Label::Int(4) || l == Label::Int(5) || l == Label::Int(6) { nonempty_bytes(v) }
        else if l == Label::Int(7) { csig_ok(v) }
        else { true })
}
pub open spec fn hdr_labels_distinct(m: Seq<(Value, Value)>) -> bool {
    forall |i: int, j: int| 0 <= i < j < m.len() ==> #[trigger] label_of(m[i].0) != #[trigger] label_of(m[j].0)
}
pub open spec fn has_label(m: Seq<(Value, Value)>, n: int, l: Label) -> bool {
    exists |i: int| 0 <= i < n && #[trigger] label_of(m[i].0) == Some(l)
}
pub open spec fn hdr_wf(m: Seq<(Value, Value)>) -> bool {
    (forall |i: int| 0 <= i < m.len() ==> #[trigger] hdr_pair_ok(m[i].0, m[i].1))
    && hdr_labels_distinct(m)
    && !(has_label(m, m.len() as int, Label::Int(5)) && has_label(m, m.len() as int, Label::Int(6)))
}
pub open spec fn is_typed_hdr_label(l: Label) -> bool {
    l == Label::Int(1) || l == Label::Int(2) || l == Label::Int(3) || l == Label::Int(4) || l == Label::Int(5) || l == Label::Int(6) || l == Label::Int(7)
}
pub open spec fn rest_of(m: Seq<(Value, Value)>) -> Seq<(Label, Value)>
    decreases m.len()
{
    if m.len() == 0 { Seq::empty() } else {
        let p = rest_of(m.drop_last());
        match label_of(m.last().0) {
            Some(l) => if is_typed_hdr_label(l) { p } else { p.push((l, m.last().1)) },
            None => p,
        }
    }
}
pub assume_specification [ <Header as Default>::default ] () -> (h: Header)
    ensures h.alg is None && h.crit@.len() == 0 && h.content_type is None && h.key_id@.len() == 0 && h.iv@.len() == 0
        && h.partial_iv@.len() == 0 && h.counter_signatures@.len() == 0 && h.rest@.len() == 0;

impl AsCborValue for Header {
    open spec fn dec_rel(value: Value, r: Result<Self>) -> bool {
        (!(value is Map) ==> r is Err)
        && (value matches Value::Map(mv) ==> (r is Ok <==> hdr_wf(mv@)))
        && (value matches Value::Map(mv) ==> (r matches Ok(h) ==> h.rest@ == rest_of(mv@)))
    }
    #[verifier::loop_isolation(false)]
    fn from_cbor_value(value: Value) -> Result<Self> {
        broadcast use axiom_question_mark_uses_from;
        broadcast use vstd::std_specs::btree::group_btree_axioms;
        broadcast use axiom_derived_clone_label;
        proof { lemma_label_obeys_cmp(); }
        let m = value.try_as_map()?;
        let ghost ms = m@;
        let mut headers = Self::default();
        let mut seen = BTreeSet::new();
        for (l, value) in it: m.into_iter()
            invariant
                0 <= it.index@ <= ms.len(),
                forall |i: int| 0 <= i < it.index@ ==> #[trigger] hdr_pair_ok(ms[i].0, ms[i].1),
                hdr_labels_distinct(ms.subrange(0, it.index@)),
                forall |x: Label| seen@.contains(x) <==> exists |i: int| 0 <= i < it.index@ && #[trigger] label_of(ms[i].0) == Some(x),
                headers.rest@ == rest_of(ms.subrange(0, it.index@)),
                headers.iv@.len() > 0 <==> has_label(ms, it.index@, Label::Int(5)),
                headers.partial_iv@.len() > 0 <==> has_label(ms, it.index@, Label::Int(6)),
                !(headers.iv@.len() > 0 && headers.partial_iv@.len() > 0),
        {
            let ghost n = it.index@;
            let ghost v0 = value;
            let ghost hp = headers;
            proof {
                assert(l == ms[n].0 && value == ms[n].1);
                assert(hdr_wf(ms) ==> hdr_pair_ok(ms[n].0, ms[n].1));
            }
            // The `ciborium` CBOR library does not police duplicate map keys.
            // RFC 8152 section 14 requires that COSE does police duplicates, so do it here.
            let label = Label::from_cbor_value(l)?;
            proof { assert(label_of(ms[n].0) == Some(label)); }
            if seen.contains(&label) {
                proof {
                    let i0 = choose |i: int| 0 <= i < n && #[trigger] label_of(ms[i].0) == Some(label);
                    assert(label_of(ms[i0].0) == label_of(ms[n].0));
                    assert(!hdr_labels_distinct(ms));
                }
                return Err(CoseError::DuplicateMapKey);
            }
            seen.insert(label.clone());
            match label {
                ALG => headers.alg = Some(Algorithm::from_cbor_value(value)?),

                CRIT => match value {
                    Value::Array(a) => {
                        if a.is_empty() {
                            return Err(CoseError::UnexpectedItem(
                                "empty array",
                                "non-empty array",
                            ));
                        }
                        let ghost aa = a@;
                        for v in it2: a
                            invariant
                                0 <= it2.index@ <= aa.len(),
                                forall |j: int| 0 <= j < it2.index@ ==> (#[trigger] reg_of::<iana::HeaderParameter>(aa[j])) is Some,
                                headers.rest == hp.rest, headers.iv == hp.iv, headers.partial_iv == hp.partial_iv,
                        {
                            proof {
                                assert(v == aa[it2.index@]);
                                assert(crit_ok(v0) ==> reg_of::<iana::HeaderParameter>(aa[it2.index@]) is Some);
                            }
                            headers.crit.push(
                                RegisteredLabel::<iana::HeaderParameter>::from_cbor_value(v)?,
                            );
                        }
                        proof { assert(crit_ok(v0)); }
                    }
                    v => return cbor_type_error(&v, "array value"),
                },

                CONTENT_TYPE => {
                    headers.content_type = Some(ContentType::from_cbor_value(value)?);
                    if let Some(ContentType::Text(text)) = &headers.content_type {
                        if text.is_empty() {
                            return Err(CoseError::UnexpectedItem("empty tstr", "non-empty tstr"));
                        }
                        if crate::vprelude::str_ne_string(text.trim(), text) {
                            return Err(CoseError::UnexpectedItem(
                                "leading/trailing whitespace",
                                "no leading/trailing whitespace",
                            ));
                        }
                        // Basic check that the content type is of form type/subtype.
                        // We don't check the precise definition though (RFC 6838 s4.2)
                        if crate::vprelude::str_count_matches(&text, '/') != 1 {
                            return Err(CoseError::UnexpectedItem(
                                "arbitrary text",
                                "text of form type/subtype",
                            ));
                        }
                    }
                    proof { assert(ct_ok(v0)); }
                }

                KID => {
                    headers.key_id = value.try_as_nonempty_bytes()?;
                }

                IV => {
                    headers.iv = value.try_as_nonempty_bytes()?;
                }

                PARTIAL_IV => {
                    headers.partial_iv = value.try_as_nonempty_bytes()?;
                }
                COUNTER_SIG => {
                    let sig_or_sigs = value.try_as_array()?;
                    if sig_or_sigs.is_empty() {
                        return Err(CoseError::UnexpectedItem(
                            "empty sig array",
                            "non-empty sig array",
                        ));
                    }
                    let ghost sa = sig_or_sigs@;
                    // The encoding of counter signature[s] is pesky:
                    // - a single counter signature is encoded as `COSE_Signature` (a 3-tuple)
                    // - multiple counter signatures are encoded as `[+ COSE_Signature]`
                    //
                    // Determine which is which by looking at the first entry of the array:
                    // - If it's a bstr, sig_or_sigs is a single signature.
                    // - If it's an array, sig_or_sigs is an array of signatures
                    match &sig_or_sigs[0] {
                        Value::Bytes(_) => headers
                            .counter_signatures
                            .push(crate::vstubs::sig_from_cbor_value__stub(Value::Array(sig_or_sigs))?),
                        Value::Array(_) => {
                            for sig in it3: sig_or_sigs.into_iter()
                                invariant
                                    0 <= it3.index@ <= sa.len(),
                                    forall |j: int| 0 <= j < it3.index@ ==> crate::vstubs::sig_accepts(#[trigger] sa[j]),
                                    headers.rest == hp.rest, headers.iv == hp.iv, headers.partial_iv == hp.partial_iv,
                            {
                                proof {
                                    assert(sig == sa[it3.index@]);
                                    assert(csig_ok(v0) ==> crate::vstubs::sig_accepts(sa[it3.index@]));
                                }
                                headers
                                    .counter_signatures
                                    .push(crate::vstubs::sig_from_cbor_value__stub(sig)?);
                            }
                        }
                        v => return cbor_type_error(v, "array or bstr value"),
                    }
                    proof { assert(csig_ok(v0)); }
                }

                label => headers.rest.push((label, value)),
            }
            proof {
                assert(hdr_pair_ok(ms[n].0, ms[n].1));
                let s1 = ms.subrange(0, n + 1);
                assert(s1.drop_last() =~= ms.subrange(0, n));
                assert(s1.last() == ms[n]);
                assert forall |i: int, j: int| 0 <= i < j < s1.len() implies #[trigger] label_of(s1[i].0) != #[trigger] label_of(s1[j].0) by {
                    if j < n { assert(label_of(ms.subrange(0, n)[i].0) != label_of(ms.subrange(0, n)[j].0)); }
                    else { if label_of(ms[i].0) == Some(label) { assert(false); } }
                }
                assert(has_label(ms, n + 1, Label::Int(5)) <==> (has_label(ms, n, Label::Int(5)) || label == Label::Int(5)));
                assert(has_label(ms, n + 1, Label::Int(6)) <==> (has_label(ms, n, Label::Int(6)) || label == Label::Int(6)));
            }
            // RFC 8152 section 3.1: "The 'Initialization Vector' and 'Partial Initialization
            // Vector' parameters MUST NOT both be present in the same security layer."
            if !headers.iv.is_empty() && !headers.partial_iv.is_empty() {
                proof {
                    assert(has_label(ms, n + 1, Label::Int(5)) && has_label(ms, n + 1, Label::Int(6)));
                    let i5 = choose |i: int| 0 <= i < n + 1 && #[trigger] label_of(ms[i].0) == Some(Label::Int(5));
                    let i6 = choose |i: int| 0 <= i < n + 1 && #[trigger] label_of(ms[i].0) == Some(Label::Int(6));
                    assert(has_label(ms, ms.len() as int, Label::Int(5)));
                    assert(has_label(ms, ms.len() as int, Label::Int(6)));
                }
                return Err(CoseError::UnexpectedItem(
                    "IV and partial-IV specified",
                    "only one of IV and partial IV",
                ));
            }
        }
        proof { assert(ms.subrange(0, ms.len() as int) =~= ms); }
        Ok(headers)
    }
