// C06: what a message's verification / decryption helper hands to the caller's function after the wire hop is what the creating
// helper was handed before it.  Creation contracts say: the caller's function gets `X_tbs(message-as-built, aad)` and its output is
// stored.  Verification contracts say: the caller's function gets the stored value and `X_tbs(message-as-decoded, aad)`.  These
// lemmas close the gap: if `v1` is any Value whose data-model view is what the built message encodes to, every decoding of `v1`
// has the same to-be-signed / MACed / additional-data bytes and the same stored signature / tag / ciphertext.
mod vwirehop {
use vstd::prelude::*;
use crate::*;
use crate::vprelude::*;
use crate::header::*;
use crate::vroundtrip::{lemma_vv_array_shape, lemma_vv_bytes};
use ciborium::value::Value;
verus!{
/// the protected slot survives: whatever the built message contributes as its protected byte string is what the decoded one retains
proof fn lemma_slot_survives(w: Value, d: nat, p: ProtectedHeader, p1: ProtectedHeader)
    requires vv(w) == CV::Bytes(prot_slot(p)), prot_res(w, d, p1),
    ensures prot_slot(p1) == prot_slot(p),
{ lemma_vv_bytes(w, prot_slot(p)); reveal_with_fuel(prot_slot, 1); }
proof fn lemma_opt_bytes_survive(w: Value, pl: Option<Vec<u8>>, pl1: Option<Vec<u8>>)
    requires vv(w) == opt_bytes_cv(pl), payload_res(w, pl1),
    ensures (pl1 is Some <==> pl is Some), pl is Some ==> pl1->0@ == pl->0@,
{ match pl { Some(b) => { lemma_vv_bytes(w, b@); } None => { reveal_with_fuel(vv, 1); } } }
pub proof fn lemma_sign1_wire_hop(x: CoseSign1, v1: Value, x1: CoseSign1, aad: Seq<u8>)
    requires vv(v1) == crate::sign::sign1_cv(x), crate::sign::sign1_res(v1, x1),
    ensures crate::sign::sign1_tbs(x1, aad) == crate::sign::sign1_tbs(x, aad), x1.signature@ == x.signature@,
            forall |pl: Seq<u8>| crate::sign::sign1_tbs_detached(x1, pl, aad) == crate::sign::sign1_tbs_detached(x, pl, aad),
            x1.payload is None <==> x.payload is None,
{
    lemma_vv_array_shape(v1, crate::sign::sign1_cv(x)->Array_0);
    let a1 = arr_of(v1);
    lemma_slot_survives(a1[0], 0, x.protected, x1.protected);
    lemma_opt_bytes_survive(a1[2], x.payload, x1.payload);
    lemma_vv_bytes(a1[3], x.signature@);
    assert(crate::sign::opt_bytes(x1.payload) =~= crate::sign::opt_bytes(x.payload));
}
pub proof fn lemma_sign_wire_hop(x: CoseSign, v1: Value, x1: CoseSign, aad: Seq<u8>, i: int)
    requires vv(v1) == crate::sign::sign_cv(x), crate::sign::sign_res(v1, x1), 0 <= i < x.signatures@.len(),
    ensures
        x1.signatures@.len() == x.signatures@.len(),
        crate::sign::sign_tbs(x1, aad, x1.signatures@[i]) == crate::sign::sign_tbs(x, aad, x.signatures@[i]),
        forall |pl: Seq<u8>| crate::sign::sign_tbs_detached(x1, pl, aad, x1.signatures@[i]) == crate::sign::sign_tbs_detached(x, pl, aad, x.signatures@[i]),
        x1.signatures@[i].signature@ == x.signatures@[i].signature@,
        x1.payload is None <==> x.payload is None,
{
    lemma_vv_array_shape(v1, crate::sign::sign_cv(x)->Array_0);
    let a1 = arr_of(v1);
    lemma_slot_survives(a1[0], 0, x.protected, x1.protected);
    lemma_opt_bytes_survive(a1[2], x.payload, x1.payload);
    lemma_vv_array_shape(a1[3], crate::sign::sigs_cv(x.signatures@)->Array_0);
    let s = arr_of(a1[3])[i];
    assert(vv(s) == sig_cv(x.signatures@[i]));
    lemma_vv_array_shape(s, sig_cv(x.signatures@[i])->Array_0);
    assert(sig_res(s, 0, x1.signatures@[i]));
    lemma_slot_survives(arr_of(s)[0], 0, x.signatures@[i].protected, x1.signatures@[i].protected);
    lemma_vv_bytes(arr_of(s)[2], x.signatures@[i].signature@);
    assert(crate::sign::opt_bytes(x1.payload) =~= crate::sign::opt_bytes(x.payload));
}
pub proof fn lemma_mac0_wire_hop(x: CoseMac0, v1: Value, x1: CoseMac0, aad: Seq<u8>)
    requires vv(v1) == crate::mac::mac0_cv(x), crate::mac::mac0_res(v1, x1),
    ensures x1.tbm_spec(aad) == x.tbm_spec(aad), x1.tag@ == x.tag@, x1.payload is Some <==> x.payload is Some,
{
    lemma_vv_array_shape(v1, crate::mac::mac0_cv(x)->Array_0);
    let a1 = arr_of(v1);
    lemma_slot_survives(a1[0], 0, x.protected, x1.protected);
    lemma_opt_bytes_survive(a1[2], x.payload, x1.payload);
    lemma_vv_bytes(a1[3], x.tag@);
    assert(crate::sign::opt_bytes(x1.payload) =~= crate::sign::opt_bytes(x.payload));
}
pub proof fn lemma_mac_wire_hop(x: CoseMac, v1: Value, x1: CoseMac, aad: Seq<u8>)
    requires vv(v1) == crate::mac::mac_cv(x), crate::mac::mac_res(v1, x1),
    ensures x1.tbm_spec(aad) == x.tbm_spec(aad), x1.tag@ == x.tag@, x1.payload is Some <==> x.payload is Some,
{
    lemma_vv_array_shape(v1, crate::mac::mac_cv(x)->Array_0);
    let a1 = arr_of(v1);
    lemma_slot_survives(a1[0], 0, x.protected, x1.protected);
    lemma_opt_bytes_survive(a1[2], x.payload, x1.payload);
    lemma_vv_bytes(a1[3], x.tag@);
    assert(crate::sign::opt_bytes(x1.payload) =~= crate::sign::opt_bytes(x.payload));
}
pub proof fn lemma_encrypt0_wire_hop(x: CoseEncrypt0, v1: Value, x1: CoseEncrypt0, aad: Seq<u8>)
    requires vv(v1) == crate::encrypt::encrypt0_cv(x), crate::encrypt::encrypt0_res(v1, x1),
    ensures
        crate::encrypt::enc_aad(EncryptionContext::CoseEncrypt0, x1.protected, aad) == crate::encrypt::enc_aad(EncryptionContext::CoseEncrypt0, x.protected, aad),
        (x1.ciphertext is Some <==> x.ciphertext is Some), x.ciphertext is Some ==> x1.ciphertext->0@ == x.ciphertext->0@,
{
    lemma_vv_array_shape(v1, crate::encrypt::encrypt0_cv(x)->Array_0);
    let a1 = arr_of(v1);
    lemma_slot_survives(a1[0], 0, x.protected, x1.protected);
    lemma_opt_bytes_survive(a1[2], x.ciphertext, x1.ciphertext);
}
pub proof fn lemma_encrypt_wire_hop(x: CoseEncrypt, v1: Value, x1: CoseEncrypt, aad: Seq<u8>)
    requires vv(v1) == crate::encrypt::encrypt_cv(x), crate::encrypt::encrypt_res(v1, x1),
    ensures
        crate::encrypt::enc_aad(EncryptionContext::CoseEncrypt, x1.protected, aad) == crate::encrypt::enc_aad(EncryptionContext::CoseEncrypt, x.protected, aad),
        (x1.ciphertext is Some <==> x.ciphertext is Some), x.ciphertext is Some ==> x1.ciphertext->0@ == x.ciphertext->0@,
{
    lemma_vv_array_shape(v1, crate::encrypt::encrypt_cv(x)->Array_0);
    let a1 = arr_of(v1);
    lemma_slot_survives(a1[0], 0, x.protected, x1.protected);
    lemma_opt_bytes_survive(a1[2], x.ciphertext, x1.ciphertext);
}
}
}
