def patch(EDITS):
    def add(m,old,new): EDITS.append((m,old,new))
    # ---- ser shim contract is in prelude (enc uninterp). to_vec generic default method
    add('common',"""    fn to_vec(self) -> Result<Vec<u8>> {
        let mut data = Vec::new();""","""    fn to_vec(self) -> (r: Result<Vec<u8>>)
        ensures
            forall |v: Value| self.enc_rel(Ok::<Value, CoseError>(v)) ==> true,
            r matches Ok(d) ==> exists |v: Value| #[trigger] self.enc_rel(Ok::<Value, CoseError>(v)) && d@ == crate::vprelude::enc(vv(v)),
    {
        broadcast use axiom_question_mark_uses_from;
        let mut data = Vec::new();""")
    # ---- Header::is_empty, ProtectedHeader::{is_empty, cbor_bstr}
    add('header',"""    pub fn is_empty(&self) -> bool {
        self.alg.is_none()""","""    pub fn is_empty(&self) -> (r: bool)
        ensures r == hdr_is_empty(*self)
    {
        self.alg.is_none()""")
    add('header',"""impl crate::CborSerializable for Header {}""","""impl crate::CborSerializable for Header {}
pub open spec fn hdr_is_empty(h: Header) -> bool {
    h.alg is None && h.crit@.len() == 0 && h.content_type is None && h.key_id@.len() == 0 && h.iv@.len() == 0
    && h.partial_iv@.len() == 0 && h.counter_signatures@.len() == 0 && h.rest@.len() == 0
}
/// the byte string a protected header contributes (None: not serialisable)
pub open spec fn slot_ok(p: ProtectedHeader, d: Seq<u8>) -> bool {
    match p.original_data {
        Some(o) => d == o@,
        None => if hdr_is_empty(p.header) { d.len() == 0 } else { exists |v: Value| #[trigger] p.enc_rel(Ok::<Value, CoseError>(v)) && d == crate::vprelude::enc(vv(v)) },
    }
}""")
    add('header',"""    pub fn cbor_bstr(self) -> Result<Value> {
        Ok(Value::Bytes(""","""    pub fn cbor_bstr(self) -> (r: Result<Value>)
        ensures r matches Ok(v) ==> (v matches Value::Bytes(d) && slot_ok(self, d@)),
                self.original_data is Some ==> r is Ok,
    {
        broadcast use crate::vprelude::axiom_question_mark_uses_from;
        Ok(Value::Bytes(""")
    add('header',"""    pub fn is_empty(&self) -> bool {
        self.header.is_empty()""","""    pub fn is_empty(&self) -> (r: bool)
        ensures r == hdr_is_empty(self.header)
    {
        self.header.is_empty()""")
    # ---- sign: context text, sig_structure_data, tbs_data, verify, create
    add('sign',"""    fn text(&self) -> &'static str {
        match self {
            SignatureContext::CoseSignature => "Signature",""","""    fn text(&self) -> (r: &'static str)
        ensures r@ == sig_ctx_text(*self)
    {
        match self {
            SignatureContext::CoseSignature => "Signature",""")
    add('sign',"""/// Possible signature contexts.""","""use crate::vprelude::*;
pub open spec fn sig_ctx_text(c: SignatureContext) -> Seq<char> {
    match c { SignatureContext::CoseSignature => "Signature"@, SignatureContext::CoseSign1 => "Signature1"@, SignatureContext::CounterSignature => "CounterSignature"@ }
}
pub open spec fn sig_structure(context: SignatureContext, body: Seq<u8>, sign: Option<Seq<u8>>, aad: Seq<u8>, payload: Seq<u8>) -> CV {
    match sign {
        None => CV::Array(seq![CV::Text(sig_ctx_text(context)), CV::Bytes(body), CV::Bytes(aad), CV::Bytes(payload)]),
        Some(s) => CV::Array(seq![CV::Text(sig_ctx_text(context)), CV::Bytes(body), CV::Bytes(s), CV::Bytes(aad), CV::Bytes(payload)]),
    }
}
pub open spec fn serialisable(p: ProtectedHeader) -> bool { p.original_data is Some }
pub open spec fn slot_of(p: ProtectedHeader) -> Seq<u8> { p.original_data->0@ }
pub assume_specification [ <ProtectedHeader as Clone>::clone ] (a: &ProtectedHeader) -> (b: ProtectedHeader)
    ensures b == *a;
/// Possible signature contexts.""")
    add('sign',""") -> Vec<u8> {
    let mut arr = vec![
        Value::Text(context.text().to_owned()),
        body.cbor_bstr().expect("failed to serialize header"), // safe: always serializable
    ];""",""") -> (r: Vec<u8>)
    requires serialisable(body), sign matches Some(s) ==> serialisable(s),
    ensures r@ == crate::vprelude::enc(sig_structure(context, slot_of(body), match sign { Some(s) => Some(slot_of(s)), None => None }, aad@, payload@)),
{
    let ghost body0 = body; let ghost sign0 = sign;
    let mut arr = vec![
        Value::Text(context.text().to_owned()),
        body.cbor_bstr().expect("failed to serialize header"), // safe: always serializable
    ];""")
    add('sign',"""    let mut data = Vec::new();
    crate::vprelude::into_writer_vec(&Value::Array(arr), &mut data).unwrap(); // safe: always serializable
    data
}""","""    let ghost arr0 = arr;
    proof {
        reveal_with_fuel(vv, 3);
        let want = sig_structure(context, slot_of(body0), match sign0 { Some(s) => Some(slot_of(s)), None => None }, aad@, payload@);
        let n = arr0@.len() as int;
        assert(arr0@[n-1] matches Value::Bytes(b) && b@ =~= payload@);
        assert(arr0@[n-2] matches Value::Bytes(b) && b@ =~= aad@);
        assert(vv(Value::Array(arr0))->Array_0 =~= want->Array_0);
    }
    let mut data = Vec::new();
    crate::vprelude::into_writer_vec(&Value::Array(arr), &mut data).unwrap(); // safe: always serializable
    data
}""")
    # CoseSign1::tbs_data
    add('sign',"""    pub fn tbs_data(&self, aad: &[u8]) -> Vec<u8> {
        sig_structure_data(
            SignatureContext::CoseSign1,""","""    pub fn tbs_data(&self, aad: &[u8]) -> (r: Vec<u8>)
        requires serialisable(self.protected),
        ensures r@ == sign1_tbs(*self, aad@),
    {
        sig_structure_data(
            SignatureContext::CoseSign1,""")
    add('sign',"""impl CoseSign1 {
    /// Verify the signature value, using `verifier` on the signature value and serialized data (in
    /// that order).
    pub fn verify_signature<F, E>(&self, aad: &[u8], verifier: F) -> Result<(), E>
    where
        F: FnOnce(&[u8], &[u8]) -> Result<(), E>,
    {""","""pub open spec fn sign1_tbs(m: CoseSign1, aad: Seq<u8>) -> Seq<u8> {
    crate::vprelude::enc(sig_structure(SignatureContext::CoseSign1, slot_of(m.protected), None, aad, match m.payload { Some(p) => p@, None => Seq::<u8>::empty() }))
}
impl CoseSign1 {
    /// Verify the signature value, using `verifier` on the signature value and serialized data (in
    /// that order).
    pub fn verify_signature<F, E>(&self, aad: &[u8], verifier: F) -> (r: Result<(), E>)
    where
        F: FnOnce(&[u8], &[u8]) -> Result<(), E>,
        requires serialisable(self.protected), forall |a: &[u8], b: &[u8]| call_requires(verifier, (a, b)),
        ensures exists |s: &[u8], d: &[u8]| s@ == self.signature@ && d@ == sign1_tbs(*self, aad@) && call_ensures(verifier, (s, d), r),
    {""")
