#![allow(unused_imports, dead_code)]
extern crate alloc;
use vstd::prelude::*;
use alloc::{string::String, vec, vec::Vec};
verus! {
pub struct CoseMac0 { pub payload: Option<Vec<u8>>, pub tag: Vec<u8>, pub n: u8 }
pub struct CoseMac0Builder(CoseMac0);
impl CoseMac0Builder {
    pub closed spec fn inner(self) -> CoseMac0 { self.0 }
    pub fn build(self) -> (r: CoseMac0) ensures r == self.inner() { self.0 }
        /// Set the associated field.
        #[must_use]
        pub fn payload(self, payload: Vec<u8>) -> (r: Self)
            ensures r.inner() == (CoseMac0 { payload: Some(payload), ..self.inner() })
        { let mut self_ = self;
            self_.0.payload = Some(payload);
            self_
        }
}
impl CoseMac0 {
    fn tbm(&self) -> (r: usize)
        requires self.payload is Some
        ensures r == self.payload->0@.len()
    {
        self.payload.as_ref().expect("payload missing").len() // safe: documented
    }
    // necessity copy: precondition removed, must fail at expect
    fn tbm__necessity(&self) -> (r: usize)
    {
        self.payload.as_ref().expect("payload missing").len() // safe: documented
    }
}
}
fn main(){}
