// C03 / C04 / C05: the structure bytes are exactly the deterministic encoding, and structures that differ in any
// component never share bytes (domain separation).  Lemmas over the contracts of *_structure_data.
mod vstructs {
use vstd::prelude::*;
use crate::*;
use crate::vprelude::*;
use crate::vcbor::*;
use crate::sign::{sig_structure, sig_ctx_text, SignatureContext};
use crate::mac::{mac_structure, mac_ctx_text, MacContext};
use crate::encrypt::{enc_structure, enc_ctx_text, EncryptionContext};
verus!{
pub open spec fn bstrs(s: Seq<Seq<u8>>) -> Seq<CV> { Seq::new(s.len(), |i: int| CV::Bytes(s[i])) }
/// encoding of [ tstr, bstr * ] written out
pub open spec fn enc_ctx_bstrs(ctx: Seq<char>, s: Seq<Seq<u8>>, n: int) -> Seq<u8>
    decreases n
{ if n <= 0 || n > s.len() { enc_str(3, utf8(ctx)) } else { enc_ctx_bstrs(ctx, s, n - 1) + enc_str(2, s[n - 1]) } }
pub open spec fn all_small(s: Seq<Seq<u8>>) -> bool { forall |i: int| 0 <= i < s.len() ==> small(#[trigger] s[i]) }
proof fn lemma_det_seq(ctx: Seq<char>, s: Seq<Seq<u8>>, n: int)
    requires 0 <= n <= s.len(),
    ensures det_enc_seq(seq![CV::Text(ctx)] + bstrs(s), n + 1) == enc_ctx_bstrs(ctx, s, n),
    decreases n
{
    let a = seq![CV::Text(ctx)] + bstrs(s);
    reveal_with_fuel(det_enc_seq, 2);
    if n == 0 {
        assert(det_enc_seq(a, 0) =~= Seq::<u8>::empty());
        assert(a[0] == CV::Text(ctx));
        assert(det_enc_seq(a, 1) =~= det_enc(a[0]));
    } else {
        lemma_det_seq(ctx, s, n - 1);
        assert(a[n] == CV::Bytes(s[n - 1]));
    }
}
/// the to-be-signed / MACed / AAD bytes of [ctx, b1, .., bk] are head(4, k+1) ++ tstr(ctx) ++ bstr(b1) ++ ... (definite lengths, shortest heads)
pub proof fn lemma_structure_bytes(ctx: Seq<char>, s: Seq<Seq<u8>>)
    requires small(utf8(ctx)), all_small(s), s.len() < 16,
    ensures enc(CV::Array(seq![CV::Text(ctx)] + bstrs(s))) == head(4, (s.len() + 1) as nat) + enc_ctx_bstrs(ctx, s, s.len() as int),
{
    let a = seq![CV::Text(ctx)] + bstrs(s);
    assert forall |i: int| 0 <= i < a.len() implies det_domain(#[trigger] a[i]) by { if i > 0 { assert(a[i] == CV::Bytes(s[i - 1])); } }
    assert(det_domain(CV::Array(a)));
    axiom_enc_is_det(CV::Array(a));
    lemma_det_seq(ctx, s, s.len() as int);
}
/// injectivity: equal bytes ==> equal context text and equal byte strings
pub proof fn lemma_ctx_bstrs_inj(c1: Seq<char>, s1: Seq<Seq<u8>>, c2: Seq<char>, s2: Seq<Seq<u8>>, n: int, r1: Seq<u8>, r2: Seq<u8>)
    requires small(utf8(c1)), small(utf8(c2)), all_small(s1), all_small(s2), 0 <= n <= s1.len(), n <= s2.len(),
        enc_ctx_bstrs(c1, s1, n) + r1 == enc_ctx_bstrs(c2, s2, n) + r2,
    ensures c1 == c2, forall |i: int| 0 <= i < n ==> s1[i] == s2[i], r1 == r2,
    decreases n
{
    broadcast use axiom_utf8_injective;
    if n == 0 {
        lemma_str_pfree(3, utf8(c1), r1, 3, utf8(c2), r2);
    } else {
        let p1 = enc_ctx_bstrs(c1, s1, n - 1); let p2 = enc_ctx_bstrs(c2, s2, n - 1);
        assert(enc_ctx_bstrs(c1, s1, n) + r1 =~= p1 + (enc_str(2, s1[n - 1]) + r1));
        assert(enc_ctx_bstrs(c2, s2, n) + r2 =~= p2 + (enc_str(2, s2[n - 1]) + r2));
        lemma_ctx_bstrs_inj(c1, s1, c2, s2, n - 1, enc_str(2, s1[n - 1]) + r1, enc_str(2, s2[n - 1]) + r2);
        lemma_str_pfree(2, s1[n - 1], r1, 2, s2[n - 1], r2);
    }
}
pub proof fn lemma_structure_inj(c1: Seq<char>, s1: Seq<Seq<u8>>, c2: Seq<char>, s2: Seq<Seq<u8>>)
    requires small(utf8(c1)), small(utf8(c2)), all_small(s1), all_small(s2), s1.len() < 16, s2.len() < 16,
        enc(CV::Array(seq![CV::Text(c1)] + bstrs(s1))) == enc(CV::Array(seq![CV::Text(c2)] + bstrs(s2))),
    ensures c1 == c2, s1 == s2,
{
    lemma_structure_bytes(c1, s1); lemma_structure_bytes(c2, s2);
    let e = Seq::<u8>::empty();
    lemma_head_pfree(4, (s1.len() + 1) as nat, enc_ctx_bstrs(c1, s1, s1.len() as int), 4, (s2.len() + 1) as nat, enc_ctx_bstrs(c2, s2, s2.len() as int));
    assert(s1.len() == s2.len());
    assert(enc_ctx_bstrs(c1, s1, s1.len() as int) + e =~= enc_ctx_bstrs(c1, s1, s1.len() as int));
    assert(enc_ctx_bstrs(c2, s2, s2.len() as int) + e =~= enc_ctx_bstrs(c2, s2, s2.len() as int));
    lemma_ctx_bstrs_inj(c1, s1, c2, s2, s1.len() as int, e, e);
    assert(s1 =~= s2);
}
// ---- the three RFC structures as instances
pub open spec fn sig_slots(body: Seq<u8>, sign: Option<Seq<u8>>, aad: Seq<u8>, payload: Seq<u8>) -> Seq<Seq<u8>> {
    match sign { None => seq![body, aad, payload], Some(s) => seq![body, s, aad, payload] }
}
pub proof fn lemma_sig_structure_shape(c: SignatureContext, body: Seq<u8>, sign: Option<Seq<u8>>, aad: Seq<u8>, payload: Seq<u8>)
    ensures sig_structure(c, body, sign, aad, payload) == CV::Array(seq![CV::Text(sig_ctx_text(c))] + bstrs(sig_slots(body, sign, aad, payload))),
{
    let s = sig_slots(body, sign, aad, payload);
    assert(sig_structure(c, body, sign, aad, payload)->Array_0 =~= seq![CV::Text(sig_ctx_text(c))] + bstrs(s));
}
pub proof fn lemma_ctx_texts_distinct()
    ensures
        sig_ctx_text(SignatureContext::CoseSignature) != sig_ctx_text(SignatureContext::CoseSign1),
        sig_ctx_text(SignatureContext::CoseSignature) != sig_ctx_text(SignatureContext::CounterSignature),
        sig_ctx_text(SignatureContext::CoseSign1) != sig_ctx_text(SignatureContext::CounterSignature),
        mac_ctx_text(MacContext::CoseMac) != mac_ctx_text(MacContext::CoseMac0),
        forall |a: EncryptionContext, b: EncryptionContext| enc_ctx_text(a) == enc_ctx_text(b) ==> a == b,
{
    reveal_strlit("Signature"); reveal_strlit("Signature1"); reveal_strlit("CounterSignature");
    reveal_strlit("MAC"); reveal_strlit("MAC0");
    reveal_strlit("Encrypt"); reveal_strlit("Encrypt0"); reveal_strlit("Enc_Recipient"); reveal_strlit("Mac_Recipient"); reveal_strlit("Rec_Recipient");
    assert("Signature"@.len() == 9 && "Signature1"@.len() == 10 && "CounterSignature"@.len() == 16);
    assert("MAC"@.len() == 3 && "MAC0"@.len() == 4);
    assert("Encrypt"@.len() == 7 && "Encrypt0"@.len() == 8 && "Enc_Recipient"@.len() == 13 && "Mac_Recipient"@.len() == 13 && "Rec_Recipient"@.len() == 13);
    assert("Enc_Recipient"@[0] != "Mac_Recipient"@[0]);
    assert("Enc_Recipient"@[0] != "Rec_Recipient"@[0]);
    assert("Mac_Recipient"@[0] != "Rec_Recipient"@[0]);
}
/// C03: Sig_structures that share their to-be-signed bytes agree in context, both protected slots, AAD and payload
pub proof fn lemma_sig_domain_separation(c1: SignatureContext, b1: Seq<u8>, s1: Option<Seq<u8>>, a1: Seq<u8>, p1: Seq<u8>,
                                         c2: SignatureContext, b2: Seq<u8>, s2: Option<Seq<u8>>, a2: Seq<u8>, p2: Seq<u8>)
    requires small(b1), small(a1), small(p1), small(b2), small(a2), small(p2), s1 matches Some(x) ==> small(x), s2 matches Some(x) ==> small(x),
        small(utf8(sig_ctx_text(c1))), small(utf8(sig_ctx_text(c2))),
        enc(sig_structure(c1, b1, s1, a1, p1)) == enc(sig_structure(c2, b2, s2, a2, p2)),
    ensures c1 == c2, b1 == b2, s1 == s2, a1 == a2, p1 == p2,
{
    lemma_sig_structure_shape(c1, b1, s1, a1, p1); lemma_sig_structure_shape(c2, b2, s2, a2, p2);
    let t1 = sig_slots(b1, s1, a1, p1); let t2 = sig_slots(b2, s2, a2, p2);
    lemma_structure_inj(sig_ctx_text(c1), t1, sig_ctx_text(c2), t2);
    lemma_ctx_texts_distinct();
    assert(t1.len() == t2.len());
    assert(t1[0] == t2[0] && t1[1] == t2[1] && t1[2] == t2[2]);
    if s1 is Some { assert(t1[3] == t2[3]); }
}
/// C04
pub proof fn lemma_mac_domain_separation(c1: MacContext, b1: Seq<u8>, a1: Seq<u8>, p1: Seq<u8>, c2: MacContext, b2: Seq<u8>, a2: Seq<u8>, p2: Seq<u8>)
    requires small(b1), small(a1), small(p1), small(b2), small(a2), small(p2), small(utf8(mac_ctx_text(c1))), small(utf8(mac_ctx_text(c2))),
        enc(mac_structure(c1, b1, a1, p1)) == enc(mac_structure(c2, b2, a2, p2)),
    ensures c1 == c2, b1 == b2, a1 == a2, p1 == p2,
{
    let t1 = seq![b1, a1, p1]; let t2 = seq![b2, a2, p2];
    assert(mac_structure(c1, b1, a1, p1)->Array_0 =~= seq![CV::Text(mac_ctx_text(c1))] + bstrs(t1));
    assert(mac_structure(c2, b2, a2, p2)->Array_0 =~= seq![CV::Text(mac_ctx_text(c2))] + bstrs(t2));
    lemma_structure_inj(mac_ctx_text(c1), t1, mac_ctx_text(c2), t2);
    lemma_ctx_texts_distinct();
    assert(t1[0] == t2[0] && t1[1] == t2[1] && t1[2] == t2[2]);
}
/// C05
pub proof fn lemma_enc_domain_separation(c1: EncryptionContext, b1: Seq<u8>, a1: Seq<u8>, c2: EncryptionContext, b2: Seq<u8>, a2: Seq<u8>)
    requires small(b1), small(a1), small(b2), small(a2), small(utf8(enc_ctx_text(c1))), small(utf8(enc_ctx_text(c2))),
        enc(enc_structure(c1, b1, a1)) == enc(enc_structure(c2, b2, a2)),
    ensures c1 == c2, b1 == b2, a1 == a2,
{
    let t1 = seq![b1, a1]; let t2 = seq![b2, a2];
    assert(enc_structure(c1, b1, a1)->Array_0 =~= seq![CV::Text(enc_ctx_text(c1))] + bstrs(t1));
    assert(enc_structure(c2, b2, a2)->Array_0 =~= seq![CV::Text(enc_ctx_text(c2))] + bstrs(t2));
    lemma_structure_inj(enc_ctx_text(c1), t1, enc_ctx_text(c2), t2);
    lemma_ctx_texts_distinct();
    assert(t1[0] == t2[0] && t1[1] == t2[1]);
}
}
}
