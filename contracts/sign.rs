// Copyright 2021 Google LLC
//
// Licensed under the Apache License, Version 2.0 (the "License");
// you may not use this file except in compliance with the License.
// You may obtain a copy of the License at
//
//      http://www.apache.org/licenses/LICENSE-2.0
//
// Unless required by applicable law or agreed to in writing, software
// distributed under the License is distributed on an "AS IS" BASIS,
// WITHOUT WARRANTIES OR CONDITIONS OF ANY KIND, either express or implied.
// See the License for the specific language governing permissions and
// limitations under the License.
//
////////////////////////////////////////////////////////////////////////////////



use crate::{
    cbor,
    cbor::value::Value,
    common::AsCborValue,
    iana,
    util::{cbor_type_error, to_cbor_array, ValueTryAs},
    CoseError, Header, ProtectedHeader, Result,
};
use alloc::{borrow::ToOwned, vec, vec::Vec};


/// Structure representing a cryptographic signature.
///
/// ```cddl
///  COSE_Signature =  [
///       Headers,
///       signature : bstr
///  ]
///  ```
#[verifier::external_derive(Clone)]
#[derive(Clone, Debug, Default, PartialEq)]
pub struct CoseSignature {
    pub protected: ProtectedHeader,
    pub unprotected: Header,
    pub signature: Vec<u8>,
}

impl crate::CborSerializable for CoseSignature {}

impl CoseSignature {
    /// Convert a [`Value`] into a signature that sits `depth` protected headers deep.
    pub(crate) fn from_cbor_value_nested(value: Value, depth: usize) ->« (r:» Result<Self>«)
        ensures
            r is Ok <==> crate::header::sig_ok(value, depth as nat),
            r matches Ok(s) ==> crate::header::sig_res(value, depth as nat, s),
        decreases crate::header::max_nest() - depth, value, 5nat» {«
        broadcast use crate::vprelude::axiom_question_mark_uses_from;»
        let mut a = value.try_as_array()?;
        if a.len() != 3 {
            return Err(CoseError::UnexpectedItem("array", "array with 3 items"));
        }

        // Remove array elements in reverse order to avoid shifts.
        Ok(Self {
            signature: a.remove(2).try_as_bytes()?,
            unprotected: Header::from_cbor_value_nested(a.remove(1), depth)?,
            protected: ProtectedHeader::from_cbor_bstr_nested(a.remove(0), depth)?,
        })
    }
}

impl AsCborValue for CoseSignature {«
    open spec fn dec_rel(value: Value, r: Result<Self>) -> bool {
        (r is Ok <==> sig_ok(value, 0)) && (r matches Ok(s) ==> sig_res(value, 0, s))
    }
    open spec fn enc_rel(self, r: Result<Value>) -> bool {
        (r is Ok <==> sig_encodable(self)) && (r matches Ok(v) ==> vv(v) == sig_cv(self))
    }»
    fn from_cbor_value(value: Value) -> Result<Self> {
        Self::from_cbor_value_nested(value, 0)
    }

    fn to_cbor_value(self) -> Result<Value> {«
        broadcast use crate::vprelude::axiom_question_mark_uses_from;»
        «let r = »Ok(Value::Array(vec![
            self.protected.cbor_bstr()?,
            self.unprotected.to_cbor_value()?,
            Value::Bytes(self.signature),
        ]))«;
        proof { let v = r->Ok_0; lemma_vv_value_array(v); assert(vv_seq(arr_of(v)) =~= sig_cv(self)->Array_0); }
        r»
    }
}

/// Builder for [`CoseSignature`] objects.
#[derive(Debug, Default)]
pub struct CoseSignatureBuilder(CoseSignature);

impl CoseSignatureBuilder {
    
        /// Constructor for builder.
        pub fn new() -> Self {
            Self(<CoseSignature>::default())
        }
        /// Build the completed object.
        pub fn build(self) -> CoseSignature {
            self.0
        }
    
    
        /// Set the associated field.
        #[must_use]
        pub fn protected(self, hdr: crate::Header) -> Self { let mut self_ = self;
            self_.0.protected = crate::ProtectedHeader {
                original_data: None,
                header: hdr,
            };
            self_
        }
    
    
        /// Set the associated field.
        #[must_use]
        pub fn unprotected(self, unprotected: Header) -> Self { let mut self_ = self;
            self_.0.unprotected = unprotected;
            self_
        }
    
    
        /// Set the associated field.
        #[must_use]
        pub fn signature(self, signature: Vec<u8>) -> Self { let mut self_ = self;
            self_.0.signature = signature;
            self_
        }
    
}

/// Signed payload with signatures.
///
/// ```cdl
///   COSE_Sign = [
///       Headers,
///       payload : bstr / nil,
///       signatures : [+ COSE_Signature]
///   ]
/// ```
#[verifier::external_derive(Clone)]
#[derive(Clone, Debug, Default, PartialEq)]
pub struct CoseSign {
    pub protected: ProtectedHeader,
    pub unprotected: Header,
    pub payload: Option<Vec<u8>>,
    pub signatures: Vec<CoseSignature>,
}

impl crate::CborSerializable for CoseSign {}
impl crate::TaggedCborSerializable for CoseSign {
    #[verifier::external_body] const TAG: u64 = iana::CborTag::CoseSign as u64;
}«pub open spec fn sigs_ok(v: Value) -> bool { v is Array && forall |j: int| 0 <= j < arr_of(v).len() ==> sig_ok(#[trigger] arr_of(v)[j], 0) }
pub open spec fn sigs_res(v: Value, s: Seq<CoseSignature>) -> bool { arr_of(v).len() == s.len() && forall |j: int| 0 <= j < s.len() ==> sig_res(#[trigger] arr_of(v)[j], 0, s[j]) }
pub open spec fn sigs_cv(s: Seq<CoseSignature>) -> CV { CV::Array(Seq::new(s.len(), |j: int| sig_cv(s[j]))) }
pub open spec fn sigs_encodable(s: Seq<CoseSignature>) -> bool { forall |j: int| 0 <= j < s.len() ==> sig_encodable(#[trigger] s[j]) }
pub open spec fn sign_ok(v: Value) -> bool {
    v is Array && arr_of(v).len() == 4 && prot_ok(arr_of(v)[0], 0) && hdr_ok(arr_of(v)[1], 0) && is_bytes_or_null(arr_of(v)[2]) && sigs_ok(arr_of(v)[3])
}
pub open spec fn sign_res(v: Value, x: CoseSign) -> bool {
    prot_res(arr_of(v)[0], 0, x.protected) && hdr_res(arr_of(v)[1], 0, x.unprotected) && payload_res(arr_of(v)[2], x.payload) && sigs_res(arr_of(v)[3], x.signatures@)
}
pub open spec fn sign_cv(x: CoseSign) -> CV {
    CV::Array(seq![CV::Bytes(prot_slot(x.protected)), hdr_cv(x.unprotected), opt_bytes_cv(x.payload), sigs_cv(x.signatures@)])
}
pub open spec fn sign_encodable(x: CoseSign) -> bool { prot_encodable(x.protected) && hdr_encodable(x.unprotected) && sigs_encodable(x.signatures@) }
»

impl AsCborValue for CoseSign {«
    open spec fn dec_rel(value: Value, r: Result<Self>) -> bool { (r is Ok <==> sign_ok(value)) && (r matches Ok(x) ==> sign_res(value, x)) }
    open spec fn enc_rel(self, r: Result<Value>) -> bool { (r is Ok <==> sign_encodable(self)) && (r matches Ok(v) ==> vv(v) == sign_cv(self)) }»
    fn from_cbor_value(value: Value) -> Result<Self> {«
        broadcast use crate::vprelude::axiom_question_mark_uses_from;»
        let mut a = value.try_as_array()?;
        if a.len() != 4 {
            return Err(CoseError::UnexpectedItem("array", "array with 4 items"));
        }

        // Remove array elements in reverse order to avoid shifts.
        let signatures = a.remove(3).try_as_array_then_convert(|v«: Value»|« -> (r: Result<CoseSignature>)
            ensures (r is Ok <==> sig_ok(v, 0)) && (r matches Ok(s) ==> sig_res(v, 0, s))» {
            CoseSignature::from_cbor_value(v)
                .map_err(|_e| CoseError::UnexpectedItem("non-signature", "map for COSE_Signature"))
        })?;

        Ok(Self {
            signatures,
            payload: match a.remove(2) {
                Value::Bytes(b) => Some(b),
                Value::Null => None,
                v => return cbor_type_error(&v, "bstr or nil"),
            },
            unprotected: Header::from_cbor_value(a.remove(1))?,
            protected: ProtectedHeader::from_cbor_bstr(a.remove(0))?,
        })
    }

    fn to_cbor_value(self) -> Result<Value> {«
        broadcast use crate::vprelude::axiom_question_mark_uses_from;
        broadcast use crate::util::axiom_iter_enc_ok_vec;
        broadcast use crate::util::axiom_iter_enc_err_vec;»
        «let r = »Ok(Value::Array(vec![
            self.protected.cbor_bstr()?,
            self.unprotected.to_cbor_value()?,
            match self.payload {
                Some(b) => Value::Bytes(b),
                None => Value::Null,
            },
            to_cbor_array(self.signatures)?,
        ]))«;
        proof {
            let v = r->Ok_0; lemma_vv_value_array(v);
            let sv = arr_of(v)[3]; lemma_vv_value_array(sv);
            assert(vv_seq(arr_of(sv)) =~= sigs_cv(self.signatures@)->Array_0);
            assert(vv_seq(arr_of(v)) =~= sign_cv(self)->Array_0);
        }
        r»
    }
}

impl CoseSign {
    /// Verify the indicated signature value, using `verifier` on the signature value and serialized
    /// data (in that order).
    ///
    /// # Panics
    ///
    /// This method will panic if `which` is >= `self.signatures.len()`.
    pub fn verify_signature<F, E>(&self, which: usize, aad: &[u8], verifier: F) ->« (r:» Result<(), E>«)»
    where
        F: FnOnce(&[u8], &[u8]) -> Result<(), E>,«
        requires which < self.signatures@.len(), prot_encodable(self.protected), prot_encodable(self.signatures@[which as int].protected),
            forall |a: &[u8], b: &[u8]| call_requires(verifier, (a, b)),
        ensures exists |s: &[u8], d: &[u8]| s@ == self.signatures@[which as int].signature@ && d@ == sign_tbs(*self, aad@, self.signatures@[which as int]) && call_ensures(verifier, (s, d), r),»
    {
        let sig = &self.signatures[which];
        let tbs_data = self.tbs_data(aad, sig);
        verifier(&sig.signature, &tbs_data)
    }

    /// Verify the indicated signature value for a detached payload, using `verifier` on the
    /// signature value and serialized data (in that order).
    ///
    /// # Panics
    ///
    /// This method will panic if `which` is >= `self.signatures.len()`.
    ///
    /// This method will panic if `self.payload.is_some()`.
    pub fn verify_detached_signature<F, E>(
        &self,
        which: usize,
        payload: &[u8],
        aad: &[u8],
        verifier: F,
    ) ->« (r:» Result<(), E>«)»
    where
        F: FnOnce(&[u8], &[u8]) -> Result<(), E>,«
        requires which < self.signatures@.len(), self.payload is None, prot_encodable(self.protected), prot_encodable(self.signatures@[which as int].protected),
            forall |a: &[u8], b: &[u8]| call_requires(verifier, (a, b)),
        ensures exists |s: &[u8], d: &[u8]| s@ == self.signatures@[which as int].signature@ && d@ == sign_tbs_detached(*self, payload@, aad@, self.signatures@[which as int]) && call_ensures(verifier, (s, d), r),»
    {
        let sig = &self.signatures[which];
        let tbs_data = self.tbs_detached_data(payload, aad, sig);
        verifier(&sig.signature, &tbs_data)
    }

    /// Construct the to-be-signed data for this object.
    pub fn tbs_data(&self, aad: &[u8], sig: &CoseSignature) ->« (r:» Vec<u8>«)
        requires prot_encodable(self.protected), prot_encodable(sig.protected),
        ensures r@ == sign_tbs(*self, aad@, *sig),» {
        sig_structure_data(
            SignatureContext::CoseSignature,
            self.protected.clone(),
            Some(sig.protected.clone()),
            aad,
            self.payload.as_ref().unwrap_or(&vec![]),
        )
    }

    /// Construct the to-be-signed data for this object, using a detached payload.
    ///
    /// # Panics
    ///
    /// This method will panic if `self.payload.is_some()`.
    pub fn tbs_detached_data(&self, payload: &[u8], aad: &[u8], sig: &CoseSignature) ->« (r:» Vec<u8>«)
        requires prot_encodable(self.protected), prot_encodable(sig.protected), self.payload is None,
        ensures r@ == sign_tbs_detached(*self, payload@, aad@, *sig),» {
        assert!(self.payload.is_none());
        sig_structure_data(
            SignatureContext::CoseSignature,
            self.protected.clone(),
            Some(sig.protected.clone()),
            aad,
            payload,
        )
    }
}

/// Builder for [`CoseSign`] objects.
#[derive(Debug, Default)]
pub struct CoseSignBuilder(CoseSign);

impl CoseSignBuilder {
    
        /// Constructor for builder.
        pub fn new() -> Self {
            Self(<CoseSign>::default())
        }
        /// Build the completed object.
        pub fn build(self) -> CoseSign {
            self.0
        }
    
    
        /// Set the associated field.
        #[must_use]
        pub fn protected(self, hdr: crate::Header) -> Self { let mut self_ = self;
            self_.0.protected = crate::ProtectedHeader {
                original_data: None,
                header: hdr,
            };
            self_
        }
    
    
        /// Set the associated field.
        #[must_use]
        pub fn unprotected(self, unprotected: Header) -> Self { let mut self_ = self;
            self_.0.unprotected = unprotected;
            self_
        }
    
    
        /// Set the associated field.
        #[must_use]
        pub fn payload(self, payload: Vec<u8>) -> Self { let mut self_ = self;
            self_.0.payload = Some(payload);
            self_
        }
    

    /// Add a signature value.
    #[must_use]
    pub fn add_signature(self, sig: CoseSignature) ->« (r:» Self«)
        ensures r.inner() == (CoseSign { signatures: r.inner().signatures, ..self.inner() }), r.inner().signatures@ == self.inner().signatures@.push(sig),» { let mut self_ = self;
        self_.0.signatures.push(sig);
        self_
    }

    /// Calculate the signature value, using `signer` to generate the signature bytes that will be
    /// used to complete `sig`.  Any protected header values should be set before using this
    /// method.
    #[must_use]
    pub fn add_created_signature<F>(self, mut sig: CoseSignature, aad: &[u8], signer: F) ->« (r:» Self«)»
    where
        F: FnOnce(&[u8]) -> Vec<u8>,«
        requires prot_encodable(self.inner().protected), prot_encodable(sig.protected), forall |a: &[u8]| call_requires(signer, (a,)),
        ensures exists |d: &[u8], out: Vec<u8>| d@ == sign_tbs(self.inner(), aad@, sig) && call_ensures(signer, (d,), out)
            && r.inner() == (CoseSign { signatures: r.inner().signatures, ..self.inner() })
            && r.inner().signatures@ == self.inner().signatures@.push(CoseSignature { signature: out, ..sig }),»
    {
        let tbs_data = self.0.tbs_data(aad, &sig);
        sig.signature = signer(&tbs_data);
        self.add_signature(sig)
    }

    /// Calculate the signature value for a detached payload, using `signer` to generate the
    /// signature bytes that will be used to complete `sig`.  Any protected header values should
    /// be set before using this method.
    ///
    /// # Panics
    ///
    /// This method will panic if `self.payload.is_some()`.
    #[must_use]
    pub fn add_detached_signature<F>(
        self,
        mut sig: CoseSignature,
        payload: &[u8],
        aad: &[u8],
        signer: F,
    ) ->« (r:» Self«)»
    where
        F: FnOnce(&[u8]) -> Vec<u8>,«
        requires self.inner().payload is None, prot_encodable(self.inner().protected), prot_encodable(sig.protected), forall |a: &[u8]| call_requires(signer, (a,)),
        ensures exists |d: &[u8], out: Vec<u8>| d@ == sign_tbs_detached(self.inner(), payload@, aad@, sig) && call_ensures(signer, (d,), out)
            && r.inner() == (CoseSign { signatures: r.inner().signatures, ..self.inner() })
            && r.inner().signatures@ == self.inner().signatures@.push(CoseSignature { signature: out, ..sig }),»
    {
        let tbs_data = self.0.tbs_detached_data(payload, aad, &sig);
        sig.signature = signer(&tbs_data);
        self.add_signature(sig)
    }

    /// Calculate the signature value, using `signer` to generate the signature bytes that will be
    /// used to complete `sig`.  Any protected header values should be set before using this
    /// method.
    pub fn try_add_created_signature<F, E>(
        self,
        mut sig: CoseSignature,
        aad: &[u8],
        signer: F,
    ) ->« (r:» Result<Self, E>«)»
    where
        F: FnOnce(&[u8]) -> Result<Vec<u8>, E>,«
        requires prot_encodable(self.inner().protected), prot_encodable(sig.protected), forall |a: &[u8]| call_requires(signer, (a,)),
        ensures exists |d: &[u8], out: Result<Vec<u8>, E>| d@ == sign_tbs(self.inner(), aad@, sig) && call_ensures(signer, (d,), out)
            && match out {
                Ok(o) => r matches Ok(b) && b.inner() == (CoseSign { signatures: b.inner().signatures, ..self.inner() })
                    && b.inner().signatures@ == self.inner().signatures@.push(CoseSignature { signature: o, ..sig }),
                Err(e) => r matches Err(e2) && e2 == e,
            },»
    {«
        broadcast use crate::vprelude::axiom_question_mark_uses_from;»
        let tbs_data = self.0.tbs_data(aad, &sig);
        sig.signature = signer(&tbs_data)?;
        Ok(self.add_signature(sig))
    }

    /// Calculate the signature value for a detached payload, using `signer` to generate the
    /// signature bytes that will be used to complete `sig`.  Any protected header values should
    /// be set before using this method.
    ///
    /// # Panics
    ///
    /// This method will panic if `self.payload.is_some()`.
    pub fn try_add_detached_signature<F, E>(
        self,
        mut sig: CoseSignature,
        payload: &[u8],
        aad: &[u8],
        signer: F,
    ) ->« (r:» Result<Self, E>«)»
    where
        F: FnOnce(&[u8]) -> Result<Vec<u8>, E>,«
        requires self.inner().payload is None, prot_encodable(self.inner().protected), prot_encodable(sig.protected), forall |a: &[u8]| call_requires(signer, (a,)),
        ensures exists |d: &[u8], out: Result<Vec<u8>, E>| d@ == sign_tbs_detached(self.inner(), payload@, aad@, sig) && call_ensures(signer, (d,), out)
            && match out {
                Ok(o) => r matches Ok(b) && b.inner() == (CoseSign { signatures: b.inner().signatures, ..self.inner() })
                    && b.inner().signatures@ == self.inner().signatures@.push(CoseSignature { signature: o, ..sig }),
                Err(e) => r matches Err(e2) && e2 == e,
            },»
    {«
        broadcast use crate::vprelude::axiom_question_mark_uses_from;»
        let tbs_data = self.0.tbs_detached_data(payload, aad, &sig);
        sig.signature = signer(&tbs_data)?;
        Ok(self.add_signature(sig))
    }
}

/// Signed payload with a single signature.
///
/// ```cddl
///   COSE_Sign1 = [
///       Headers,
///       payload : bstr / nil,
///       signature : bstr
///   ]
/// ```
#[verifier::external_derive(Clone)]
#[derive(Clone, Debug, Default, PartialEq)]
pub struct CoseSign1 {
    pub protected: ProtectedHeader,
    pub unprotected: Header,
    pub payload: Option<Vec<u8>>,
    pub signature: Vec<u8>,
}

impl crate::CborSerializable for CoseSign1 {}
impl crate::TaggedCborSerializable for CoseSign1 {
    #[verifier::external_body] const TAG: u64 = iana::CborTag::CoseSign1 as u64;
}«
pub open spec fn sign1_ok(v: Value) -> bool {
    v is Array && arr_of(v).len() == 4 && prot_ok(arr_of(v)[0], 0) && hdr_ok(arr_of(v)[1], 0) && is_bytes_or_null(arr_of(v)[2]) && arr_of(v)[3] is Bytes
}
pub open spec fn sign1_res(v: Value, x: CoseSign1) -> bool {
    prot_res(arr_of(v)[0], 0, x.protected) && hdr_res(arr_of(v)[1], 0, x.unprotected) && payload_res(arr_of(v)[2], x.payload) && arr_of(v)[3] == Value::Bytes(x.signature)
}
pub open spec fn sign1_cv(x: CoseSign1) -> CV {
    CV::Array(seq![CV::Bytes(prot_slot(x.protected)), hdr_cv(x.unprotected), opt_bytes_cv(x.payload), CV::Bytes(x.signature@)])
}
pub open spec fn sign1_encodable(x: CoseSign1) -> bool { prot_encodable(x.protected) && hdr_encodable(x.unprotected) }»

impl AsCborValue for CoseSign1 {«
    open spec fn dec_rel(value: Value, r: Result<Self>) -> bool { (r is Ok <==> sign1_ok(value)) && (r matches Ok(x) ==> sign1_res(value, x)) }
    open spec fn enc_rel(self, r: Result<Value>) -> bool { (r is Ok <==> sign1_encodable(self)) && (r matches Ok(v) ==> vv(v) == sign1_cv(self)) }»
    fn from_cbor_value(value: Value) -> Result<Self> {«
        broadcast use crate::vprelude::axiom_question_mark_uses_from;»
        let mut a = value.try_as_array()?;
        if a.len() != 4 {
            return Err(CoseError::UnexpectedItem("array", "array with 4 items"));
        }

        // Remove array elements in reverse order to avoid shifts.
        Ok(Self {
            signature: a.remove(3).try_as_bytes()?,
            payload: match a.remove(2) {
                Value::Bytes(b) => Some(b),
                Value::Null => None,
                v => return cbor_type_error(&v, "bstr or nil"),
            },
            unprotected: Header::from_cbor_value(a.remove(1))?,
            protected: ProtectedHeader::from_cbor_bstr(a.remove(0))?,
        })
    }

    fn to_cbor_value(self) -> Result<Value> {«
        broadcast use crate::vprelude::axiom_question_mark_uses_from;»
        «let r = »Ok(Value::Array(vec![
            self.protected.cbor_bstr()?,
            self.unprotected.to_cbor_value()?,
            match self.payload {
                Some(b) => Value::Bytes(b),
                None => Value::Null,
            },
            Value::Bytes(self.signature),
        ]))«;
        proof { let v = r->Ok_0; lemma_vv_value_array(v); assert(vv_seq(arr_of(v)) =~= sign1_cv(self)->Array_0); }
        r»
    }
}«

pub open spec fn sign1_tbs(m: CoseSign1, aad: Seq<u8>) -> Seq<u8> { sig_tbs(SignatureContext::CoseSign1, m.protected, None, aad, opt_bytes(m.payload)) }
pub open spec fn sign1_tbs_detached(m: CoseSign1, payload: Seq<u8>, aad: Seq<u8>) -> Seq<u8> { sig_tbs(SignatureContext::CoseSign1, m.protected, None, aad, payload) }
pub open spec fn sign_tbs(m: CoseSign, aad: Seq<u8>, sig: CoseSignature) -> Seq<u8> { sig_tbs(SignatureContext::CoseSignature, m.protected, Some(sig.protected), aad, opt_bytes(m.payload)) }
pub open spec fn sign_tbs_detached(m: CoseSign, payload: Seq<u8>, aad: Seq<u8>, sig: CoseSignature) -> Seq<u8> { sig_tbs(SignatureContext::CoseSignature, m.protected, Some(sig.protected), aad, payload) }»

impl CoseSign1 {
    /// Verify the signature value, using `verifier` on the signature value and serialized data (in
    /// that order).
    pub fn verify_signature<F, E>(&self, aad: &[u8], verifier: F) ->« (r:» Result<(), E>«)»
    where
        F: FnOnce(&[u8], &[u8]) -> Result<(), E>,«
        requires prot_encodable(self.protected), forall |a: &[u8], b: &[u8]| call_requires(verifier, (a, b)),
        ensures exists |s: &[u8], d: &[u8]| s@ == self.signature@ && d@ == sign1_tbs(*self, aad@) && call_ensures(verifier, (s, d), r),»
    {
        let tbs_data = self.tbs_data(aad);
        verifier(&self.signature, &tbs_data)
    }

    /// Verify the indicated signature value for a detached payload, using `verifier` on the
    /// signature value and serialized data (in that order).
    ///
    /// # Panics
    ///
    /// This method will panic if `self.payload.is_some()`.
    pub fn verify_detached_signature<F, E>(
        &self,
        payload: &[u8],
        aad: &[u8],
        verifier: F,
    ) ->« (r:» Result<(), E>«)»
    where
        F: FnOnce(&[u8], &[u8]) -> Result<(), E>,«
        requires prot_encodable(self.protected), self.payload is None, forall |a: &[u8], b: &[u8]| call_requires(verifier, (a, b)),
        ensures exists |s: &[u8], d: &[u8]| s@ == self.signature@ && d@ == sign1_tbs_detached(*self, payload@, aad@) && call_ensures(verifier, (s, d), r),»
    {
        let tbs_data = self.tbs_detached_data(payload, aad);
        verifier(&self.signature, &tbs_data)
    }

    /// Construct the to-be-signed data for this object.
    pub fn tbs_data(&self, aad: &[u8]) ->« (r:» Vec<u8>«)
        requires prot_encodable(self.protected),
        ensures r@ == sign1_tbs(*self, aad@),» {
        sig_structure_data(
            SignatureContext::CoseSign1,
            self.protected.clone(),
            None,
            aad,
            self.payload.as_ref().unwrap_or(&vec![]),
        )
    }

    /// Construct the to-be-signed data for this object, using a detached payload.
    ///
    /// # Panics
    ///
    /// This method will panic if `self.payload.is_some()`.
    pub fn tbs_detached_data(&self, payload: &[u8], aad: &[u8]) ->« (r:» Vec<u8>«)
        requires prot_encodable(self.protected), self.payload is None,
        ensures r@ == sign1_tbs_detached(*self, payload@, aad@),» {
        assert!(self.payload.is_none());
        sig_structure_data(
            SignatureContext::CoseSign1,
            self.protected.clone(),
            None,
            aad,
            payload,
        )
    }
}

/// Builder for [`CoseSign1`] objects.
#[derive(Debug, Default)]
pub struct CoseSign1Builder(CoseSign1);

impl CoseSign1Builder {
    
        /// Constructor for builder.
        pub fn new() -> Self {
            Self(<CoseSign1>::default())
        }
        /// Build the completed object.
        pub fn build(self) -> CoseSign1 {
            self.0
        }
    
    
        /// Set the associated field.
        #[must_use]
        pub fn protected(self, hdr: crate::Header) -> Self { let mut self_ = self;
            self_.0.protected = crate::ProtectedHeader {
                original_data: None,
                header: hdr,
            };
            self_
        }
    
    
        /// Set the associated field.
        #[must_use]
        pub fn unprotected(self, unprotected: Header) -> Self { let mut self_ = self;
            self_.0.unprotected = unprotected;
            self_
        }
    
    
        /// Set the associated field.
        #[must_use]
        pub fn signature(self, signature: Vec<u8>) -> Self { let mut self_ = self;
            self_.0.signature = signature;
            self_
        }
    
    
        /// Set the associated field.
        #[must_use]
        pub fn payload(self, payload: Vec<u8>) -> Self { let mut self_ = self;
            self_.0.payload = Some(payload);
            self_
        }
    

    /// Calculate the signature value, using `signer` to generate the signature bytes.  Any
    /// protected header values should be set before using this method.
    #[must_use]
    pub fn create_signature<F>(self, aad: &[u8], signer: F) ->« (r:» Self«)»
    where
        F: FnOnce(&[u8]) -> Vec<u8>,«
        requires prot_encodable(self.inner().protected), forall |a: &[u8]| call_requires(signer, (a,)),
        ensures exists |d: &[u8], out: Vec<u8>| d@ == sign1_tbs(self.inner(), aad@) && call_ensures(signer, (d,), out)
            && r.inner() == (CoseSign1 { signature: out, ..self.inner() }),»
    {
        let sig_data = signer(&self.0.tbs_data(aad));
        self.signature(sig_data)
    }

    /// Calculate the signature value for a detached payload, using `signer` to generate the
    /// signature bytes.  Any protected header values should be set before using this method.
    ///
    /// # Panics
    ///
    /// This method will panic if `self.payload.is_some()`.
    #[must_use]
    pub fn create_detached_signature<F>(self, payload: &[u8], aad: &[u8], signer: F) ->« (r:» Self«)»
    where
        F: FnOnce(&[u8]) -> Vec<u8>,«
        requires self.inner().payload is None, prot_encodable(self.inner().protected), forall |a: &[u8]| call_requires(signer, (a,)),
        ensures exists |d: &[u8], out: Vec<u8>| d@ == sign1_tbs_detached(self.inner(), payload@, aad@) && call_ensures(signer, (d,), out)
            && r.inner() == (CoseSign1 { signature: out, ..self.inner() }),»
    {
        let sig_data = signer(&self.0.tbs_detached_data(payload, aad));
        self.signature(sig_data)
    }

    /// Calculate the signature value, using `signer` to generate the signature bytes.  Any
    /// protected header values should be set before using this method.
    pub fn try_create_signature<F, E>(self, aad: &[u8], signer: F) ->« (r:» Result<Self, E>«)»
    where
        F: FnOnce(&[u8]) -> Result<Vec<u8>, E>,«
        requires prot_encodable(self.inner().protected), forall |a: &[u8]| call_requires(signer, (a,)),
        ensures exists |d: &[u8], out: Result<Vec<u8>, E>| d@ == sign1_tbs(self.inner(), aad@) && call_ensures(signer, (d,), out)
            && match out {
                Ok(o) => r matches Ok(b) && b.inner() == (CoseSign1 { signature: o, ..self.inner() }),
                Err(e) => r matches Err(e2) && e2 == e,
            },»
    {«
        broadcast use crate::vprelude::axiom_question_mark_uses_from;»
        let sig_data = signer(&self.0.tbs_data(aad))?;
        Ok(self.signature(sig_data))
    }

    /// Calculate the signature value for a detached payload, using `signer` to generate the
    /// signature bytes.  Any protected header values should be set before using this method.
    ///
    /// # Panics
    ///
    /// This method will panic if `self.payload.is_some()`.
    pub fn try_create_detached_signature<F, E>(
        self,
        payload: &[u8],
        aad: &[u8],
        signer: F,
    ) ->« (r:» Result<Self, E>«)»
    where
        F: FnOnce(&[u8]) -> Result<Vec<u8>, E>,«
        requires self.inner().payload is None, prot_encodable(self.inner().protected), forall |a: &[u8]| call_requires(signer, (a,)),
        ensures exists |d: &[u8], out: Result<Vec<u8>, E>| d@ == sign1_tbs_detached(self.inner(), payload@, aad@) && call_ensures(signer, (d,), out)
            && match out {
                Ok(o) => r matches Ok(b) && b.inner() == (CoseSign1 { signature: o, ..self.inner() }),
                Err(e) => r matches Err(e2) && e2 == e,
            },»
    {«
        broadcast use crate::vprelude::axiom_question_mark_uses_from;»
        let sig_data = signer(&self.0.tbs_detached_data(payload, aad))?;
        Ok(self.signature(sig_data))
    }
}«

use crate::vprelude::*;
broadcast use crate::vprelude::lemma_empty_array_view;
use crate::header::{prot_slot, prot_encodable, prot_ok, prot_res, hdr_ok, hdr_res, hdr_cv, hdr_encodable, sig_ok, sig_res, sig_cv, sig_encodable};
pub open spec fn sig_ctx_text(c: SignatureContext) -> Seq<char> {
    match c { SignatureContext::CoseSignature => "Signature"@, SignatureContext::CoseSign1 => "Signature1"@, SignatureContext::CounterSignature => "CounterSignature"@ }
}
pub open spec fn sig_structure(context: SignatureContext, body: Seq<u8>, sign: Option<Seq<u8>>, aad: Seq<u8>, payload: Seq<u8>) -> CV {
    match sign {
        None => CV::Array(seq![CV::Text(sig_ctx_text(context)), CV::Bytes(body), CV::Bytes(aad), CV::Bytes(payload)]),
        Some(s) => CV::Array(seq![CV::Text(sig_ctx_text(context)), CV::Bytes(body), CV::Bytes(s), CV::Bytes(aad), CV::Bytes(payload)]),
    }
}
pub open spec fn opt_slot(p: Option<ProtectedHeader>) -> Option<Seq<u8>> { match p { Some(s) => Some(prot_slot(s)), None => None } }
/// RFC 8152 section 4.4 to-be-signed bytes
pub open spec fn sig_tbs(context: SignatureContext, body: ProtectedHeader, sign: Option<ProtectedHeader>, aad: Seq<u8>, payload: Seq<u8>) -> Seq<u8> {
    crate::vprelude::enc(sig_structure(context, prot_slot(body), opt_slot(sign), aad, payload))
}
pub open spec fn opt_bytes(p: Option<Vec<u8>>) -> Seq<u8> { match p { Some(b) => b@, None => Seq::<u8>::empty() } }
pub assume_specification [ <ProtectedHeader as Clone>::clone ] (a: &ProtectedHeader) -> (b: ProtectedHeader)
    ensures b == *a;»

/// Possible signature contexts.
#[derive(Clone, Copy)]
pub enum SignatureContext {
    CoseSignature,
    CoseSign1,
    CounterSignature,
}

impl SignatureContext {
    /// Return the context string as per RFC 8152 section 4.4.
    fn text(&self) ->« (r:» &'static str«)
        ensures r@ == sig_ctx_text(*self)» {
        match self {
            SignatureContext::CoseSignature => "Signature",
            SignatureContext::CoseSign1 => "Signature1",
            SignatureContext::CounterSignature => "CounterSignature",
        }
    }
}

/// Create a binary blob that will be signed.
///
/// ```cddl
///   Sig_structure = [
///       context : "Signature" / "Signature1" / "CounterSignature",
///       body_protected : empty_or_serialized_map,
///       ? sign_protected : empty_or_serialized_map,
///       external_aad : bstr,
///       payload : bstr
///   ]
/// ```
pub fn sig_structure_data(
    context: SignatureContext,
    body: ProtectedHeader,
    sign: Option<ProtectedHeader>,
    aad: &[u8],
    payload: &[u8],
) ->« (r:» Vec<u8>«)
    requires prot_encodable(body), sign matches Some(s) ==> prot_encodable(s),
    ensures r@ == sig_tbs(context, body, sign, aad@, payload@),» {«
    let ghost body0 = body; let ghost sign0 = sign;»
    let mut arr = vec![
        Value::Text(context.text().to_owned()),
        body.cbor_bstr().expect("failed to serialize header"), // safe: always serializable
    ];
    if let Some(sign) = sign {
        arr.push(sign.cbor_bstr().expect("failed to serialize header")); // safe: always
                                                                         // serializable
    }
    arr.push(Value::Bytes(aad.to_vec()));
    arr.push(Value::Bytes(payload.to_vec()));«
    let ghost arr0 = arr;
    proof {
        reveal_with_fuel(vv, 3);
        let want = sig_structure(context, prot_slot(body0), opt_slot(sign0), aad@, payload@);
        let n = arr0@.len() as int;
        assert(arr0@[n-1] matches Value::Bytes(b) && b@ =~= payload@);
        assert(arr0@[n-2] matches Value::Bytes(b) && b@ =~= aad@);
        assert(vv(Value::Array(arr0))->Array_0 =~= want->Array_0);
    }»
    let mut data = Vec::new();
    crate::vprelude::into_writer_vec(&Value::Array(arr), &mut data).unwrap(); // safe: always serializable
    data
}
