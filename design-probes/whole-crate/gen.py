import re,sys
mods=['util','cwt','iana','common','context','encrypt','header','key','mac','sign']
out=[]
out.append('''#![allow(unused_imports, dead_code, unused_macros, unreachable_patterns, unused_variables, unused_mut, non_camel_case_types)]
extern crate alloc;
use vstd::prelude::*;
pub use ciborium as cbor;
''')
out.append(open('prelude.rs').read())
def match_brace(s,i,o='{',c='}'):
    d=0; j=i
    while True:
        ch=s[j]
        if ch==o: d+=1
        elif ch==c:
            d-=1
            if d==0: return j
        j+=1
def rw_mut_self(src):
    res=[];pos=0
    for m in re.finditer(r'\(mut self\b',src):
        if m.start()<pos: continue
        res.append(src[pos:m.start()]); res.append('(self')
        i=src.index('{',m.end())
        j=match_brace(src,i)
        res.append(src[m.end():i+1])
        body=src[i+1:j]
        body=re.sub(r'\bself\b','self_',body)
        res.append(' let mut self_ = self;'+body)
        pos=j
    res.append(src[pos:])
    return ''.join(res)
# macro expansion by substitution
util=open('/repo/src/util/mod.rs').read()
def macro_def(src,name):
    i=src.index('macro_rules! '+name+' {')
    b=src.index('{',i); e=match_brace(src,b)
    body=src[b+1:e]
    # single arm: ( pattern ) => { expansion };
    p0=body.index('('); p1=match_brace(body,p0,'(',')')
    x0=body.index('{',p1); x1=match_brace(body,x0)
    return body[p0+1:p1].strip(), body[x0+1:x1], (i,e+1)
def expand_builders(src):
    for name in ['builder_set_protected','builder_set_optional','builder_set','builder']:
        pat,exp,_=macro_def(util,name)
        def rep(m):
            arg=m.group(1).strip()
            t=exp
            if name=='builder':
                t=t.replace('$otype',arg)
            elif name=='builder_set_protected':
                t=t.replace('$name',arg).replace('$crate','crate')
            else:
                n,ty=arg.split(':',1)
                t=t.replace('$name',n.strip()).replace('$ftype',ty.strip())
            return t
        src=re.sub(r'\b'+name+r'!\s*\{([^}]*)\}',rep,src)
    return src
def strip_macros(src):
    while 'macro_rules!' in src:
        i=src.index('macro_rules!')
        # include preceding doc comment lines? leave
        b=src.index('{',i); e=match_brace(src,b)
        pre=src[:i]
        pre=re.sub(r'(\s*///[^\n]*\n)+\s*$','\n',pre)
        src=pre+src[e+1:]
    return src
def expand_iana(src):
    pat,exp,(mi,me)=macro_def(src,'iana_registry')
    src2=src[:mi]+src[me:]
    res=[];pos=0
    for m in re.finditer(r'iana_registry!\s*\{',src2):
        b=m.end()-1; e=match_brace(src2,b)
        inner=src2[b+1:e]
        # attrs then Name { entries }
        nb=inner.rindex('{',0,inner.rindex('}')); 
        # find enum name: last identifier before the entries brace
        k=inner.index('{', inner.index(re.search(r'\n\s*([A-Za-z0-9_]+)\s*\{',inner).group(1)))
        head=inner[:k]; entries=inner[k+1:inner.rindex('}')]
        mm=re.search(r'([A-Za-z0-9_]+)\s*$',head)
        ename=mm.group(1); attrs=head[:mm.start()]
        ents=[]
        cur_attrs=[]
        for line in entries.split('\n'):
            ls=line.strip()
            if not ls: continue
            if ls.startswith('//'):
                cur_attrs.append(line); continue
            em=re.match(r'([A-Za-z0-9_]+)\s*:\s*(-?[0-9]+)\s*,',ls)
            ents.append((cur_attrs,em.group(1),em.group(2))); cur_attrs=[]
        enum='\n'.join(''.join(a+'\n' for a in at)+f'            {n} = {v},' for at,n,v in ents)
        arms='\n'.join(f'                    x if x == Self::{n} as i64 => Some(Self::{n}),' for at,n,v in ents)
        sfrom=' else '.join(f'if i == {v}i64 {{ Some(Self::{n}) }}' for at,n,v in ents)+' else { None }'
        sto='\n'.join(f'                    Self::{n} => {v}i64,' for at,n,v in ents)
        t=f'''#[allow(non_camel_case_types)]
{attrs}
        #[non_exhaustive]
        #[derive(Clone, Copy, Debug, Eq, Ord, PartialEq, PartialOrd)]
        pub enum {ename} {{
{enum}
        }}
        impl EnumI64 for {ename} {{
            open spec fn spec_from_i64(i: i64) -> Option<Self> {{ {sfrom} }}
            open spec fn spec_to_i64(&self) -> i64 {{ match self {{
{sto}
            }} }}
            proof fn lemma_enum_laws() {{}}
            fn from_i64(i: i64) -> Option<Self> {{
                match i {{
{arms}
                    _ => None,
                }}
            }}
            #[inline]
            fn to_i64(&self) -> i64 {{
                *self as i64
            }}
        }}
'''
        res.append(src2[pos:m.start()]); res.append(t); pos=e+1
    res.append(src2[pos:])
    return ''.join(res)
def strip(src,m):
    src=src.replace('#[cfg(test)]\nmod tests;\n','')
    src=re.sub(r"^//!.*$","",src,flags=re.M)
    if m=='iana': src=expand_iana(src)
    src=expand_builders(src)
    src=strip_macros(src)
    src=rw_mut_self(src)
    n=[0]
    def r(mm):
        n[0]+=1
        return f'{mm.group(1)}_p{n[0]}:'
    src=re.sub(r'([(,]\s*)_:',r,src)
    src=src.replace('cbor::ser::into_writer(','crate::vprelude::into_writer_vec(')
    src=src.replace('cbor::de::from_reader(','crate::vprelude::from_reader_slice(')
    src=src.replace("text.trim() != text","crate::vprelude::str_ne_string(text.trim(), text)")
    src=re.sub(r"(\w+)\.matches\('/'\)\.count\(\)",r"crate::vprelude::str_count_matches(&\1, '/')",src)
    vals={'Alg':1,'Crit':2,'ContentType':3,'Kid':4,'Iv':5,'PartialIv':6,'CounterSignature':7}
    kvals={'Kty':1,'Kid':2,'Alg':3,'KeyOps':4,'BaseIv':5}
    def cr(mm):
        tab = vals if 'HeaderParameter' in mm.group(2) else kvals
        v=tab[mm.group(3)]
        return f'exec const {mm.group(1)}: Label ensures {mm.group(1)} == Label::Int({v}) {{ Label::Int({mm.group(2)}::{mm.group(3)} as i64) }}'
    src=re.sub(r'const (\w+): Label = Label::Int\((iana::\w+)::(\w+) as i64\);',cr,src)
    src=re.sub(r'(\n\s*)const TAG: u64 = ',r'\1#[verifier::external_body] const TAG: u64 = ',src)
    src=re.sub(r'(#\[derive\(Clone, Debug, Default, PartialEq\)\])',r'#[verifier::external_derive(Clone)]\n\1',src)
    if m=='header':
        src=src.replace("CoseSignature::from_cbor_value(","crate::vstubs::sig_from_cbor_value__stub(")
        src=src.replace("self_.counter_signatures.remove(0).to_cbor_value()?","crate::vstubs::sig_to_cbor_value__stub(self_.counter_signatures.remove(0))?")
        src=src.replace("to_cbor_array(self_.counter_signatures)?","crate::vstubs::sigs_to_cbor_array__stub(self_.counter_signatures)?")
    if m=='encrypt':
        i=src.index("impl AsCborValue for CoseRecipient {"); j=src.index("impl CoseRecipient {")
        blk=src[i:j]
        blk=blk.replace(".try_as_array_then_convert(CoseRecipient::from_cbor_value)?",".try_as_array_then_convert(crate::vstubs::recipient_from_cbor_value__stub)?")
        blk=blk.replace("to_cbor_array(self.recipients)?","crate::vstubs::recipients_to_cbor_array__stub(self.recipients)?")
        src=src[:i]+blk+src[j:]
    # drop cfg(test) fn expect_err
    if m=='util':
        i=src.index('/// Check for an expected error.')
        j=src.index('// Macros to reduce boilerplate')
        src=src[:i]+src[j:]
    if m=='common':
        src=src.replace("    fn from(e: cbor::de::Error<T>) -> Self {","    #[verifier::external_body]\n    fn from(e: cbor::de::Error<T>) -> Self {")
        src=src.replace("    fn fmt_msg(&self","    #[verifier::external]\n    fn fmt_msg(&self")
        src=src.replace("impl core::fmt::Debug for CoseError {","#[verifier::external]\nimpl core::fmt::Debug for CoseError {")
        src=src.replace("impl core::fmt::Display for CoseError {","#[verifier::external]\nimpl core::fmt::Display for CoseError {")
        src=src.replace('#[cfg(feature = "std")]\nimpl std::error::Error for CoseError {}\n','')
    return src
import edits, edits_more, chain_edits, sign_edits
edits_more.patch(edits.EDITS)
chain_edits.patch(edits.EDITS)
sign_edits.patch(edits.EDITS)
for m in mods:
    src=strip(open(f'/repo/src/{m}/mod.rs').read(),m)
    for (mm,old,new) in edits.EDITS:
        if mm==m:
            assert src.count(old)==1, (m, old[:60], src.count(old))
            src=src.replace(old,new)
    def addrel(mm):
        blk_start=mm.end()
        # look ahead: if the impl already defines dec_rel, skip
        nxt=src.find('impl', blk_start)
        seg=src[blk_start: nxt if nxt>0 else len(src)]
        return mm.group(0)
    parts=re.split(r'(impl(?:<[^>]*>)? AsCborValue for [^{]+\{)',src)
    out2=[parts[0]]
    for k in range(1,len(parts),2):
        hdr=parts[k]; body=parts[k+1]
        nxt=body.find('\nimpl')
        seg=body[:nxt] if nxt>0 else body
        ins=''
        if 'spec fn dec_rel' not in seg: ins+='\n    open spec fn dec_rel(value: Value, r: crate::Result<Self>) -> bool { true }'
        if 'spec fn enc_rel' not in seg: ins+='\n    open spec fn enc_rel(self, r: crate::Result<Value>) -> bool { true }'
        out2.append(hdr+ins+body)
    src=''.join(out2)
    vis={'util':'pub(crate) mod','cwt':'pub mod','iana':'pub mod'}.get(m,'mod')
    out.append(f'{vis} {m} {{\nuse vstd::prelude::*;\nverus! {{\n{src}\n}} // verus!\n}}\n')
    if m not in ('util','cwt','iana'):
        out.append(f'pub use {m}::*;\n')
out.append('''mod vstubs {
use vstd::prelude::*;
use crate::*;
use ciborium::value::Value;
verus!{
pub uninterp spec fn sig_accepts(v: Value) -> bool;
#[verifier::external_body] pub fn sig_from_cbor_value__stub(v: Value) -> (r: Result<CoseSignature>) ensures r is Ok <==> sig_accepts(v) { CoseSignature::from_cbor_value(v) }
#[verifier::external_body] pub fn sig_to_cbor_value__stub(s: CoseSignature) -> Result<Value> { s.to_cbor_value() }
#[verifier::external_body] pub fn sigs_to_cbor_array__stub(s: alloc::vec::Vec<CoseSignature>) -> Result<Value> { crate::util::to_cbor_array(s) }
#[verifier::external_body] pub fn recipient_from_cbor_value__stub(v: Value) -> Result<CoseRecipient> { CoseRecipient::from_cbor_value(v) }
#[verifier::external_body] pub fn recipients_to_cbor_array__stub(s: alloc::vec::Vec<CoseRecipient>) -> Result<Value> { crate::util::to_cbor_array(s) }
}
}
''')
out.append('fn main(){}\n')
open('all.rs','w').write(''.join(out))
