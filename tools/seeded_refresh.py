#!/usr/bin/env python3
"""Refresh /verif/seeded/<id>/meta.json and seeded/README.md from the eval.json files that tools/seeded_eval.py wrote
(usage: seeded_refresh.py <dir holding <id>/eval.json>)."""
import json, os, re, sys
VERIF = os.path.dirname(os.path.dirname(os.path.abspath(__file__)))
src = sys.argv[1]
rows = []
for name in sorted(os.listdir(os.path.join(VERIF, 'seeded'))):
    d = os.path.join(VERIF, 'seeded', name)
    ev = os.path.join(src, name, 'eval.json')
    if not os.path.isdir(d) or not os.path.exists(ev):
        continue
    e = json.load(open(ev))
    meta = json.load(open(os.path.join(d, 'meta.json')))
    pid = meta['property']
    c = e['checks'][pid]
    failed = [re.search(r'obligation=(\S+)', l).group(1) for l in c['lines'] if l.startswith('FAILED-OBLIGATION')]
    vio = [l for l in c['lines'] if l.startswith('VIOLATION')]
    fin = [l for l in c['lines'] if l.startswith('FAILING-INPUT')]
    if failed:
        by = 'verus/kani obligation' + (' (no failing input found)' if vio and vio[0].endswith('no-failing-input-found') else ' + failing input replayed on the real crate')
    elif vio and 'measure' in vio[0]:
        by = 'bounded measurement on the real crate'
    elif vio and 'probe' in vio[0]:
        by = 'probe (failing input found after the verifier could not decide the changed tree)'
    elif c['rc'] == 2:
        by = 'NOT caught: undecided'
    else:
        by = 'NOT caught'
    meta['confirmed_by_me'] = {'scratch_worktree': '/tmp/wt-eval (removed)', 'tests_with_patch': e['tests'], 'demo_exit_unchanged': e['demo_unchanged_rc'],
                               'demo_exit_with_patch': e['demo_changed_rc'],
                               'ran': 'tools/seeded_eval.py: git worktree add; cargo test --offline with the patch; demo built against the worktree with and without the patch; then git -C /repo apply, python3 tools/check.py %s, git -C /repo checkout -- .' % pid}
    meta['check_result'] = {'exit': c['rc'], 'failed_obligations': failed, 'lines': c['lines'][:8], 'caught_by': by}
    json.dump(meta, open(os.path.join(d, 'meta.json'), 'w'), indent=1)
    rows.append((name, pid, meta.get('summary', ''), meta.get('needs', ''), c['rc'], by, ', '.join(failed[:3])))
out = ['# Seeded property-breaking changes', '',
       'Written by independent sub-agents that were given only the text of a property and a scratch git worktree of /repo (nothing from /verif).',
       'Each change compiles and keeps the 117 unit tests + doctest green; each `demo.rs` exits 0 on the unchanged crate and non-zero with the patch.',
       'I re-confirmed all of that in a scratch worktree (`tools/seeded_eval.py`), then applied each patch to /repo, ran the property\'s check and undid the patch.', '',
       '| id | property | change | needs | check exit | caught by | failed obligations |', '|---|---|---|---|---|---|---|']
for r in rows:
    out.append('| %s | %s | %s | %s | %d | %s | %s |' % (r[0], r[1], r[2].replace('|', '/'), r[3][:200].replace('|', '/'), r[4], r[5], r[6]))
out += ['', 'Reading the table: "verus/kani obligation" means a contracted function, lemma or harness that is discharged on the unchanged tree failed on the changed tree; where the probes',
        'of that property also found a concrete failing input it is attached to the replay file, else the VIOLATION line ends with no-failing-input-found.',
        '"probe" means the changed code left the reach of the verifier (a hand-rolled encoder using `to_be_bytes`, a closure the contracts do not annotate, ...), the verifier answered UNDECIDED,',
        'and the replay probes then found a concrete failing input on the real crate, which is reported as the violation with that input. Without a failing input such a tree stays UNDECIDED (exit 2), never an alarm.', '']
open(os.path.join(VERIF, 'seeded', 'README.md'), 'w').write('\n'.join(out))
print(len(rows), 'rows')
