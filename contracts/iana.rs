// Copyright 2021 Google LLC
//
// Licensed under the Apache License, Version 2.0 (the "License");
// you may not use this file except in compliance with the License.
// You may obtain a copy of the License at
//
//      http://www.apache.org/licenses/LICENSE-2.0
//
// Unless required by applicable law or agreed to in writing, software
// distributed under the License is distributed on an "AS IS" BASIS,
// WITHOUT WARRANTIES OR CONDITIONS OF ANY KIND, either express or implied.
// See the License for the specific language governing permissions and
// limitations under the License.
//
////////////////////////////////////////////////////////////////////////////////










/// Trait indicating an enum that can be constructed from `i64` values.
pub trait EnumI64: Sized + Eq {«
    spec»
    fn« spec_from_i64(i: i64) -> Option<Self>;
    spec fn spec_to_i64(&self) -> i64;
    proof fn lemma_enum_laws()
        ensures forall |i: i64| (#[trigger] Self::spec_from_i64(i)) matches Some(x) ==> x.spec_to_i64() == i,
                forall |x: Self| Self::spec_from_i64(#[trigger] x.spec_to_i64()) == Some(x);
    fn» from_i64(i: i64) ->« (r:» Option<Self>«) ensures r == Self::spec_from_i64(i)»;
    fn to_i64(&self) ->« (r:» i64«) ensures r == self.spec_to_i64()»;
}

/// Trait indicating an enum with a range of private values.
pub trait WithPrivateRange {«
    spec fn spec_is_private(i: i64) -> bool;»
    fn is_private(i: i64) ->« (r:» bool«) ensures r == Self::spec_is_private(i)»;
}

/// Generate an enum with associated values, plus a `from_i64` method.



        #[allow(non_camel_case_types)]
        
    /// IANA-registered COSE header parameters.
    ///
    /// From IANA registry <https://www.iana.org/assignments/cose/cose.xhtml#header-parameters>
    /// as of 2021-03-19.
    
        #[non_exhaustive]
        #[derive(Clone, Copy, Debug, Eq, Ord, PartialEq, PartialOrd)]
        pub enum HeaderParameter {
                    /// Reserved
 Reserved = 0,
        /// Cryptographic algorithm to use
        ///
        /// Associated value of type int / tstr
 Alg = 1,
        /// Critical headers to be understood
        ///
        /// Associated value of type [+ label]
 Crit = 2,
        /// Content type of the payload
        ///
        /// Associated value of type tstr / uint
 ContentType = 3,
        /// Key identifier
        ///
        /// Associated value of type bstr
 Kid = 4,
        /// Full Initialization Vector
        ///
        /// Associated value of type bstr
 Iv = 5,
        /// Partial Initialization Vector
        ///
        /// Associated value of type bstr
 PartialIv = 6,
        /// CBOR-encoded signature structure
        ///
        /// Associated value of type COSE_Signature / [+ COSE_Signature ]
 CounterSignature = 7,
        /// Counter signature with implied signer and headers
        ///
        /// Associated value of type bstr
 CounterSignature0 = 9,
        /// Identifies the context for the key identifier
        ///
        /// Associated value of type bstr
 KidContext = 10,
        /// An unordered bag of X.509 certificates
        ///
        /// Associated value of type COSE_X509
 X5Bag = 32,
        /// An ordered chain of X.509 certificates
        ///
        /// Associated value of type COSE_X509
 X5Chain = 33,
        /// Hash of an X.509 certificate
        ///
        /// Associated value of type COSE_CertHash
 X5T = 34,
        /// URI pointing to an X.509 certificate
        ///
        /// Associated value of type uri
 X5U = 35,
        /// Challenge Nonce
        ///
        /// Associated value of type bstr
 CuphNonce = 256,
        /// Public Key
        ///
        /// Associated value of type array
 CuphOwnerPubKey = 257,

        }
        impl EnumI64 for HeaderParameter {
            fn from_i64(i: i64) -> Option<Self> {
                match i {
                    x if x == Self::Reserved as i64 => Some(Self::Reserved),
x if x == Self::Alg as i64 => Some(Self::Alg),
x if x == Self::Crit as i64 => Some(Self::Crit),
x if x == Self::ContentType as i64 => Some(Self::ContentType),
x if x == Self::Kid as i64 => Some(Self::Kid),
x if x == Self::Iv as i64 => Some(Self::Iv),
x if x == Self::PartialIv as i64 => Some(Self::PartialIv),
x if x == Self::CounterSignature as i64 => Some(Self::CounterSignature),
x if x == Self::CounterSignature0 as i64 => Some(Self::CounterSignature0),
x if x == Self::KidContext as i64 => Some(Self::KidContext),
x if x == Self::X5Bag as i64 => Some(Self::X5Bag),
x if x == Self::X5Chain as i64 => Some(Self::X5Chain),
x if x == Self::X5T as i64 => Some(Self::X5T),
x if x == Self::X5U as i64 => Some(Self::X5U),
x if x == Self::CuphNonce as i64 => Some(Self::CuphNonce),
x if x == Self::CuphOwnerPubKey as i64 => Some(Self::CuphOwnerPubKey),

                    _ => None,
                }
            }
            #[inline]
            fn to_i64(&self) -> i64 {
                *self as i64
            }
        }
    

/// Integer values for COSE header parameters below this value are reserved for private use.
pub const HEADER_PARAMETER_PRIVATE_USE_MAX: i64 = -65536;

impl WithPrivateRange for HeaderParameter {«
    open spec fn spec_is_private(i: i64) -> bool { i < -65536 }»
    fn is_private(i: i64) -> bool {
        i < HEADER_PARAMETER_PRIVATE_USE_MAX
    }
}


        #[allow(non_camel_case_types)]
        
    /// IANA-registered COSE header algorithm parameters.
    ///
    /// From IANA registry <https://www.iana.org/assignments/cose/cose.xhtml#header-algorithm-parameters>
    /// as of 2021-03-19.
    
        #[non_exhaustive]
        #[derive(Clone, Copy, Debug, Eq, Ord, PartialEq, PartialOrd)]
        pub enum HeaderAlgorithmParameter {
                    /// Party V other provided information
        ///
        /// Associated value of type bstr
 PartyVOther = -26,
        /// Party V provided nonce
        ///
        /// Associated value of type bstr / int
 PartyVNonce = -25,
        /// Party V identity information
        ///
        /// Associated value of type bstr
 PartyVIdentity = -24,
        /// Party U other provided information
        ///
        /// Associated value of type bstr
 PartyUOther = -23,
        /// Party U provided nonce
        ///
        /// Associated value of type bstr / int
 PartyUNonce = -22,
        /// Party U identity information
        ///
        /// Associated value of type bstr
 PartyUIdentity = -21,
        /// Random salt
        ///
        /// Associated value of type bstr
 Salt = -20,
        /// Static public key identifier for the sender
        ///
        /// Associated value of type bstr
 StaticKeyId = -3,
        /// Static public key for the sender
        ///
        /// Associated value of type COSE_Key
 StaticKey = -2,
        /// Ephemeral public key for the sender
        ///
        /// Associated value of type COSE_Key
 EphemeralKey = -1,

        }
        impl EnumI64 for HeaderAlgorithmParameter {
            fn from_i64(i: i64) -> Option<Self> {
                match i {
                    x if x == Self::PartyVOther as i64 => Some(Self::PartyVOther),
x if x == Self::PartyVNonce as i64 => Some(Self::PartyVNonce),
x if x == Self::PartyVIdentity as i64 => Some(Self::PartyVIdentity),
x if x == Self::PartyUOther as i64 => Some(Self::PartyUOther),
x if x == Self::PartyUNonce as i64 => Some(Self::PartyUNonce),
x if x == Self::PartyUIdentity as i64 => Some(Self::PartyUIdentity),
x if x == Self::Salt as i64 => Some(Self::Salt),
x if x == Self::StaticKeyId as i64 => Some(Self::StaticKeyId),
x if x == Self::StaticKey as i64 => Some(Self::StaticKey),
x if x == Self::EphemeralKey as i64 => Some(Self::EphemeralKey),

                    _ => None,
                }
            }
            #[inline]
            fn to_i64(&self) -> i64 {
                *self as i64
            }
        }
    


        #[allow(non_camel_case_types)]
        
    /// IANA-registered COSE algorithms.
    ///
    /// From IANA registry <https://www.iana.org/assignments/cose/cose.xhtml#algorithms>
    /// as of 2021-03-19.
    
        #[non_exhaustive]
        #[derive(Clone, Copy, Debug, Eq, Ord, PartialEq, PartialOrd)]
        pub enum Algorithm {
                    /// RSASSA-PKCS1-v1_5 using SHA-1
 RS1 = -65535,
        /// WalnutDSA signature
 WalnutDSA = -260,
        /// RSASSA-PKCS1-v1_5 using SHA-512
 RS512 = -259,
        /// RSASSA-PKCS1-v1_5 using SHA-384
 RS384 = -258,
        /// RSASSA-PKCS1-v1_5 using SHA-256
 RS256 = -257,
        /// ECDSA using secp256k1 curve and SHA-256
 ES256K = -47,
        /// HSS/LMS hash-based digital signature
 HSS_LMS = -46,
        /// SHAKE-256 512-bit Hash Value
 SHAKE256 = -45,
        /// SHA-2 512-bit Hash
 SHA_512 = -44,
        /// SHA-2 384-bit Hash
 SHA_384 = -43,
        /// RSAES-OAEP w/ SHA-512
 RSAES_OAEP_SHA_512 = -42,
        /// RSAES-OAEP w/ SHA-256
 RSAES_OAEP_SHA_256 = -41,
        /// RSAES-OAEP w/ SHA-1
 RSAES_OAEP_RFC_8017_default = -40,
        /// RSASSA-PSS w/ SHA-512
 PS512 = -39,
        /// RSASSA-PSS_SHA-384
 PS384 = -38,
        /// RSASSA-PSS w/ SHA-256
 PS256 = -37,
        /// ECDSA w/ SHA-512
 ES512 = -36,
        /// ECDSA w/ SHA-384
 ES384 = -35,
        /// ECDH SS w/ Concat KDF and AES Key Wrap w/ 256-bit key
 ECDH_SS_A256KW = -34,
        /// ECDH SS w/ Concat KDF and AES Key Wrap w/ 192-bit key
 ECDH_SS_A192KW = -33,
        /// ECDH SS w/ Concat KDF and AES Key Wrap w/ 128-bit key
 ECDH_SS_A128KW = -32,
        /// ECDH ES w/ Concat KDF and AES Key Wrap w/ 256-bit key
 ECDH_ES_A256KW = -31,
        /// ECDH ES w/ Concat KDF and AES Key Wrap w/ 192-bit key
 ECDH_ES_A192KW = -30,
        /// ECDH ES w/ Concat KDF and AES Key Wrap w/ 128-bit key
 ECDH_ES_A128KW = -29,
        /// ECDH SS w/ HKDF - generate key directly
 ECDH_SS_HKDF_512 = -28,
        /// ECDH SS w/ HKDF - generate key directly
 ECDH_SS_HKDF_256 = -27,
        /// ECDH ES w/ HKDF - generate key directly
 ECDH_ES_HKDF_512 = -26,
        /// ECDH ES w/ HKDF - generate key directly
 ECDH_ES_HKDF_256 = -25,
        /// SHAKE-128 256-bit Hash Value
 SHAKE128 = -18,
        /// SHA-2 512-bit Hash truncated to 256-bits
 SHA_512_256 = -17,
        /// SHA-2 256-bit Hash
 SHA_256 = -16,
        /// SHA-2 256-bit Hash truncated to 64-bits
 SHA_256_64 = -15,
        /// SHA-1 Hash
 SHA_1 = -14,
        /// Shared secret w/ AES-MAC 256-bit key
 Direct_HKDF_AES_256 = -13,
        /// Shared secret w/ AES-MAC 128-bit key
 Direct_HKDF_AES_128 = -12,
        /// Shared secret w/ HKDF and SHA-512
 Direct_HKDF_SHA_512 = -11,
        /// Shared secret w/ HKDF and SHA-256
 Direct_HKDF_SHA_256 = -10,
        /// EdDSA
 EdDSA = -8,
        /// ECDSA w/ SHA-256
 ES256 = -7,
        /// Direct use of CEK
 Direct = -6,
        /// AES Key Wrap w/ 256-bit key
 A256KW = -5,
        /// AES Key Wrap w/ 192-bit key
 A192KW = -4,
        /// AES Key Wrap w/ 128-bit key
 A128KW = -3,
        /// Reserved
 Reserved = 0,
        /// AES-GCM mode w/ 128-bit key, 128-bit tag
 A128GCM = 1,
        /// AES-GCM mode w/ 192-bit key, 128-bit tag
 A192GCM = 2,
        /// AES-GCM mode w/ 256-bit key, 128-bit tag
 A256GCM = 3,
        /// HMAC w/ SHA-256 truncated to 64 bits
 HMAC_256_64 = 4,
        /// HMAC w/ SHA-256
 HMAC_256_256 = 5,
        /// HMAC w/ SHA-384
 HMAC_384_384 = 6,
        /// HMAC w/ SHA-512
 HMAC_512_512 = 7,
        /// AES-CCM mode 128-bit key, 64-bit tag, 13-byte nonce
 AES_CCM_16_64_128 = 10,
        /// AES-CCM mode 256-bit key, 64-bit tag, 13-byte nonce
 AES_CCM_16_64_256 = 11,
        /// AES-CCM mode 128-bit key, 64-bit tag, 7-byte nonce
 AES_CCM_64_64_128 = 12,
        /// AES-CCM mode 256-bit key, 64-bit tag, 7-byte nonce
 AES_CCM_64_64_256 = 13,
        /// AES-MAC 128-bit key, 64-bit tag
 AES_MAC_128_64 = 14,
        /// AES-MAC 256-bit key, 64-bit tag
 AES_MAC_256_64 = 15,
        /// ChaCha20/Poly1305 w/ 256-bit key, 128-bit tag
 ChaCha20Poly1305 = 24,
        /// AES-MAC 128-bit key, 128-bit tag
 AES_MAC_128_128 = 25,
        /// AES-MAC 256-bit key, 128-bit tag
 AES_MAC_256_128 = 26,
        /// AES-CCM mode 128-bit key, 128-bit tag, 13-byte nonce
 AES_CCM_16_128_128 = 30,
        /// AES-CCM mode 256-bit key, 128-bit tag, 13-byte nonce
 AES_CCM_16_128_256 = 31,
        /// AES-CCM mode 128-bit key, 128-bit tag, 7-byte nonce
 AES_CCM_64_128_128 = 32,
        /// AES-CCM mode 256-bit key, 128-bit tag, 7-byte nonce
 AES_CCM_64_128_256 = 33,
        /// For doing IV generation for symmetric algorithms.
 IV_GENERATION = 34,

        }
        impl EnumI64 for Algorithm {
            fn from_i64(i: i64) -> Option<Self> {
                match i {
                    x if x == Self::RS1 as i64 => Some(Self::RS1),
x if x == Self::WalnutDSA as i64 => Some(Self::WalnutDSA),
x if x == Self::RS512 as i64 => Some(Self::RS512),
x if x == Self::RS384 as i64 => Some(Self::RS384),
x if x == Self::RS256 as i64 => Some(Self::RS256),
x if x == Self::ES256K as i64 => Some(Self::ES256K),
x if x == Self::HSS_LMS as i64 => Some(Self::HSS_LMS),
x if x == Self::SHAKE256 as i64 => Some(Self::SHAKE256),
x if x == Self::SHA_512 as i64 => Some(Self::SHA_512),
x if x == Self::SHA_384 as i64 => Some(Self::SHA_384),
x if x == Self::RSAES_OAEP_SHA_512 as i64 => Some(Self::RSAES_OAEP_SHA_512),
x if x == Self::RSAES_OAEP_SHA_256 as i64 => Some(Self::RSAES_OAEP_SHA_256),
x if x == Self::RSAES_OAEP_RFC_8017_default as i64 => Some(Self::RSAES_OAEP_RFC_8017_default),
x if x == Self::PS512 as i64 => Some(Self::PS512),
x if x == Self::PS384 as i64 => Some(Self::PS384),
x if x == Self::PS256 as i64 => Some(Self::PS256),
x if x == Self::ES512 as i64 => Some(Self::ES512),
x if x == Self::ES384 as i64 => Some(Self::ES384),
x if x == Self::ECDH_SS_A256KW as i64 => Some(Self::ECDH_SS_A256KW),
x if x == Self::ECDH_SS_A192KW as i64 => Some(Self::ECDH_SS_A192KW),
x if x == Self::ECDH_SS_A128KW as i64 => Some(Self::ECDH_SS_A128KW),
x if x == Self::ECDH_ES_A256KW as i64 => Some(Self::ECDH_ES_A256KW),
x if x == Self::ECDH_ES_A192KW as i64 => Some(Self::ECDH_ES_A192KW),
x if x == Self::ECDH_ES_A128KW as i64 => Some(Self::ECDH_ES_A128KW),
x if x == Self::ECDH_SS_HKDF_512 as i64 => Some(Self::ECDH_SS_HKDF_512),
x if x == Self::ECDH_SS_HKDF_256 as i64 => Some(Self::ECDH_SS_HKDF_256),
x if x == Self::ECDH_ES_HKDF_512 as i64 => Some(Self::ECDH_ES_HKDF_512),
x if x == Self::ECDH_ES_HKDF_256 as i64 => Some(Self::ECDH_ES_HKDF_256),
x if x == Self::SHAKE128 as i64 => Some(Self::SHAKE128),
x if x == Self::SHA_512_256 as i64 => Some(Self::SHA_512_256),
x if x == Self::SHA_256 as i64 => Some(Self::SHA_256),
x if x == Self::SHA_256_64 as i64 => Some(Self::SHA_256_64),
x if x == Self::SHA_1 as i64 => Some(Self::SHA_1),
x if x == Self::Direct_HKDF_AES_256 as i64 => Some(Self::Direct_HKDF_AES_256),
x if x == Self::Direct_HKDF_AES_128 as i64 => Some(Self::Direct_HKDF_AES_128),
x if x == Self::Direct_HKDF_SHA_512 as i64 => Some(Self::Direct_HKDF_SHA_512),
x if x == Self::Direct_HKDF_SHA_256 as i64 => Some(Self::Direct_HKDF_SHA_256),
x if x == Self::EdDSA as i64 => Some(Self::EdDSA),
x if x == Self::ES256 as i64 => Some(Self::ES256),
x if x == Self::Direct as i64 => Some(Self::Direct),
x if x == Self::A256KW as i64 => Some(Self::A256KW),
x if x == Self::A192KW as i64 => Some(Self::A192KW),
x if x == Self::A128KW as i64 => Some(Self::A128KW),
x if x == Self::Reserved as i64 => Some(Self::Reserved),
x if x == Self::A128GCM as i64 => Some(Self::A128GCM),
x if x == Self::A192GCM as i64 => Some(Self::A192GCM),
x if x == Self::A256GCM as i64 => Some(Self::A256GCM),
x if x == Self::HMAC_256_64 as i64 => Some(Self::HMAC_256_64),
x if x == Self::HMAC_256_256 as i64 => Some(Self::HMAC_256_256),
x if x == Self::HMAC_384_384 as i64 => Some(Self::HMAC_384_384),
x if x == Self::HMAC_512_512 as i64 => Some(Self::HMAC_512_512),
x if x == Self::AES_CCM_16_64_128 as i64 => Some(Self::AES_CCM_16_64_128),
x if x == Self::AES_CCM_16_64_256 as i64 => Some(Self::AES_CCM_16_64_256),
x if x == Self::AES_CCM_64_64_128 as i64 => Some(Self::AES_CCM_64_64_128),
x if x == Self::AES_CCM_64_64_256 as i64 => Some(Self::AES_CCM_64_64_256),
x if x == Self::AES_MAC_128_64 as i64 => Some(Self::AES_MAC_128_64),
x if x == Self::AES_MAC_256_64 as i64 => Some(Self::AES_MAC_256_64),
x if x == Self::ChaCha20Poly1305 as i64 => Some(Self::ChaCha20Poly1305),
x if x == Self::AES_MAC_128_128 as i64 => Some(Self::AES_MAC_128_128),
x if x == Self::AES_MAC_256_128 as i64 => Some(Self::AES_MAC_256_128),
x if x == Self::AES_CCM_16_128_128 as i64 => Some(Self::AES_CCM_16_128_128),
x if x == Self::AES_CCM_16_128_256 as i64 => Some(Self::AES_CCM_16_128_256),
x if x == Self::AES_CCM_64_128_128 as i64 => Some(Self::AES_CCM_64_128_128),
x if x == Self::AES_CCM_64_128_256 as i64 => Some(Self::AES_CCM_64_128_256),
x if x == Self::IV_GENERATION as i64 => Some(Self::IV_GENERATION),

                    _ => None,
                }
            }
            #[inline]
            fn to_i64(&self) -> i64 {
                *self as i64
            }
        }
    

/// Integer values for COSE algorithms below this value are reserved for private use.
pub const ALGORITHM_PRIVATE_USE_MAX: i64 = -65536;

impl WithPrivateRange for Algorithm {«
    open spec fn spec_is_private(i: i64) -> bool { i < -65536 }»
    fn is_private(i: i64) -> bool {
        i < ALGORITHM_PRIVATE_USE_MAX
    }
}


        #[allow(non_camel_case_types)]
        
    /// IANA-registered COSE common key parameters.
    ///
    /// From IANA registry <https://www.iana.org/assignments/cose/cose.xhtml#key-common-parameters>
    /// as of 2021-03-19.
    
        #[non_exhaustive]
        #[derive(Clone, Copy, Debug, Eq, Ord, PartialEq, PartialOrd)]
        pub enum KeyParameter {
                    /// Reserved value.
 Reserved = 0,
        /// Identification of the key type
        ///
        /// Associated value of type tstr / int
 Kty = 1,
        /// Key identification value - match to kid in message
        ///
        /// Associated value of type bstr
 Kid = 2,
        /// Key usage restriction to this algorithm
        ///
        /// Associated value of type tstr / int
 Alg = 3,
        /// Restrict set of permissible operations
        ///
        /// Associated value of type [+ (tstr / int)]
 KeyOps = 4,
        /// Base IV to be XORed with Partial IVs
        ///
        /// Associated value of type bstr
 BaseIv = 5,

        }
        impl EnumI64 for KeyParameter {
            fn from_i64(i: i64) -> Option<Self> {
                match i {
                    x if x == Self::Reserved as i64 => Some(Self::Reserved),
x if x == Self::Kty as i64 => Some(Self::Kty),
x if x == Self::Kid as i64 => Some(Self::Kid),
x if x == Self::Alg as i64 => Some(Self::Alg),
x if x == Self::KeyOps as i64 => Some(Self::KeyOps),
x if x == Self::BaseIv as i64 => Some(Self::BaseIv),

                    _ => None,
                }
            }
            #[inline]
            fn to_i64(&self) -> i64 {
                *self as i64
            }
        }
    


        #[allow(non_camel_case_types)]
        
    /// IANA-registered COSE key parameters for keys of type [`KeyType::OKP`].
    ///
    /// From IANA registry <https://www.iana.org/assignments/cose/cose.xhtml#key-type-parameters>
    /// as of 2021-03-19.
    
        #[non_exhaustive]
        #[derive(Clone, Copy, Debug, Eq, Ord, PartialEq, PartialOrd)]
        pub enum OkpKeyParameter {
                    /// EC identifier - Taken from the "COSE Elliptic Curves" registry
        ///
        /// Associated value of type tstr / int
 Crv = -1,
        /// x-coordinate
        ///
        /// Associated value of type bstr
 X = -2,
        /// Private key
        ///
        /// Associated value of type bstr
 D = -4,

        }
        impl EnumI64 for OkpKeyParameter {
            fn from_i64(i: i64) -> Option<Self> {
                match i {
                    x if x == Self::Crv as i64 => Some(Self::Crv),
x if x == Self::X as i64 => Some(Self::X),
x if x == Self::D as i64 => Some(Self::D),

                    _ => None,
                }
            }
            #[inline]
            fn to_i64(&self) -> i64 {
                *self as i64
            }
        }
    


        #[allow(non_camel_case_types)]
        
    /// IANA-registered COSE key parameters for keys of type [`KeyType::EC2`].
    ///
    /// From IANA registry <https://www.iana.org/assignments/cose/cose.xhtml#key-type-parameters>
    /// as of 2021-03-19.
    
        #[non_exhaustive]
        #[derive(Clone, Copy, Debug, Eq, Ord, PartialEq, PartialOrd)]
        pub enum Ec2KeyParameter {
                    /// EC identifier - Taken from the "COSE Elliptic Curves" registry
        ///
        /// Associated value of type tstr / int
 Crv = -1,
        /// Public Key
        ///
        /// Associated value of type bstr
 X = -2,
        /// y-coordinate
        ///
        /// Associated value of type bstr / bool
 Y = -3,
        /// Private key
        ///
        /// Associated value of type bstr
 D = -4,

        }
        impl EnumI64 for Ec2KeyParameter {
            fn from_i64(i: i64) -> Option<Self> {
                match i {
                    x if x == Self::Crv as i64 => Some(Self::Crv),
x if x == Self::X as i64 => Some(Self::X),
x if x == Self::Y as i64 => Some(Self::Y),
x if x == Self::D as i64 => Some(Self::D),

                    _ => None,
                }
            }
            #[inline]
            fn to_i64(&self) -> i64 {
                *self as i64
            }
        }
    


        #[allow(non_camel_case_types)]
        
    /// IANA-registered COSE key parameters for keys of type [`KeyType::RSA`].
    ///
    /// From IANA registry <https://www.iana.org/assignments/cose/cose.xhtml#key-type-parameters>
    /// as of 2021-03-19.
    
        #[non_exhaustive]
        #[derive(Clone, Copy, Debug, Eq, Ord, PartialEq, PartialOrd)]
        pub enum RsaKeyParameter {
                    /// The RSA modulus n
        ///
        /// Associated value of type bstr
 N = -1,
        /// The RSA public exponent e
        ///
        /// Associated value of type bstr
 E = -2,
        /// The RSA private exponent d
        ///
        /// Associated value of type bstr
 D = -3,
        /// The prime factor p of n
        ///
        /// Associated value of type bstr
 P = -4,
        /// The prime factor q of n
        ///
        /// Associated value of type bstr
 Q = -5,
        /// dP is d mod (p - 1)
        ///
        /// Associated value of type bstr
 DP = -6,
        /// dQ is d mod (q - 1)
        ///
        /// Associated value of type bstr
 DQ = -7,
        /// qInv is the CRT coefficient q^(-1) mod p
        ///
        /// Associated value of type bstr
 QInv = -8,
        /// Other prime infos, an array
        ///
        /// Associated value of type array
 Other = -9,
        /// a prime factor r_i of n, where i >= 3
        ///
        /// Associated value of type bstr
 RI = -10,
        /// d_i = d mod (r_i - 1)
        ///
        /// Associated value of type bstr
 DI = -11,
        /// The CRT coefficient t_i = (r_1 * r_2 * ... * r_(i-1))^(-1) mod r_i
        ///
        /// Associated value of type bstr
 TI = -12,

        }
        impl EnumI64 for RsaKeyParameter {
            fn from_i64(i: i64) -> Option<Self> {
                match i {
                    x if x == Self::N as i64 => Some(Self::N),
x if x == Self::E as i64 => Some(Self::E),
x if x == Self::D as i64 => Some(Self::D),
x if x == Self::P as i64 => Some(Self::P),
x if x == Self::Q as i64 => Some(Self::Q),
x if x == Self::DP as i64 => Some(Self::DP),
x if x == Self::DQ as i64 => Some(Self::DQ),
x if x == Self::QInv as i64 => Some(Self::QInv),
x if x == Self::Other as i64 => Some(Self::Other),
x if x == Self::RI as i64 => Some(Self::RI),
x if x == Self::DI as i64 => Some(Self::DI),
x if x == Self::TI as i64 => Some(Self::TI),

                    _ => None,
                }
            }
            #[inline]
            fn to_i64(&self) -> i64 {
                *self as i64
            }
        }
    


        #[allow(non_camel_case_types)]
        
    /// IANA-registered COSE key parameters for keys of type [`KeyType::Symmetric`].
    ///
    /// From IANA registry <https://www.iana.org/assignments/cose/cose.xhtml#key-type-parameters>
    /// as of 2021-03-19.
    
        #[non_exhaustive]
        #[derive(Clone, Copy, Debug, Eq, Ord, PartialEq, PartialOrd)]
        pub enum SymmetricKeyParameter {
                    /// Key Value
        ///
        /// Associated value of type bstr
 K = -1,

        }
        impl EnumI64 for SymmetricKeyParameter {
            fn from_i64(i: i64) -> Option<Self> {
                match i {
                    x if x == Self::K as i64 => Some(Self::K),

                    _ => None,
                }
            }
            #[inline]
            fn to_i64(&self) -> i64 {
                *self as i64
            }
        }
    


        #[allow(non_camel_case_types)]
        
    /// IANA-registered COSE key parameters for keys of type [`KeyType::HSS_LMS`].
    ///
    /// From IANA registry <https://www.iana.org/assignments/cose/cose.xhtml#key-type-parameters>
    /// as of 2021-03-19.
    
        #[non_exhaustive]
        #[derive(Clone, Copy, Debug, Eq, Ord, PartialEq, PartialOrd)]
        pub enum HssLmsKeyParameter {
                    /// Public key for HSS/LMS hash-based digital signature
        ///
        /// Associated value of type bstr
 Pub = -1,

        }
        impl EnumI64 for HssLmsKeyParameter {
            fn from_i64(i: i64) -> Option<Self> {
                match i {
                    x if x == Self::Pub as i64 => Some(Self::Pub),

                    _ => None,
                }
            }
            #[inline]
            fn to_i64(&self) -> i64 {
                *self as i64
            }
        }
    


        #[allow(non_camel_case_types)]
        
    /// IANA-registered COSE key parameters for keys of type [`KeyType::WalnutDSA`].
    ///
    /// From IANA registry <https://www.iana.org/assignments/cose/cose.xhtml#key-type-parameters>
    /// as of 2021-03-19.
    
        #[non_exhaustive]
        #[derive(Clone, Copy, Debug, Eq, Ord, PartialEq, PartialOrd)]
        pub enum WalnutDsaKeyParameter {
                    /// Group and Matrix (NxN) size
        ///
        /// Associated value of type uint
 N = -1,
        /// Finite field F_q
        ///
        /// Associated value of type uint
 Q = -2,
        /// List of T-values, enties in F_q
        ///
        /// Associated value of type array of uint
 TValues = -3,
        /// NxN Matrix of enties in F_q in column-major form
        ///
        /// Associated value of type array of array of uint
 Matrix1 = -4,
        /// Permutation associated with matrix 1
        ///
        /// Associated value of type array of uint
 Permutation1 = -5,
        /// NxN Matrix of enties in F_q in column-major form
        ///
        /// Associated value of type array of array of uint
 Matrix2 = -6,

        }
        impl EnumI64 for WalnutDsaKeyParameter {
            fn from_i64(i: i64) -> Option<Self> {
                match i {
                    x if x == Self::N as i64 => Some(Self::N),
x if x == Self::Q as i64 => Some(Self::Q),
x if x == Self::TValues as i64 => Some(Self::TValues),
x if x == Self::Matrix1 as i64 => Some(Self::Matrix1),
x if x == Self::Permutation1 as i64 => Some(Self::Permutation1),
x if x == Self::Matrix2 as i64 => Some(Self::Matrix2),

                    _ => None,
                }
            }
            #[inline]
            fn to_i64(&self) -> i64 {
                *self as i64
            }
        }
    


        #[allow(non_camel_case_types)]
        
    /// IANA-registered COSE key types.
    ///
    /// From IANA registry <https://www.iana.org/assignments/cose/cose.xhtml#key-type>
    /// as of 2021-03-19.
    
        #[non_exhaustive]
        #[derive(Clone, Copy, Debug, Eq, Ord, PartialEq, PartialOrd)]
        pub enum KeyType {
                    /// This value is reserved
 Reserved = 0,
        /// Octet Key Pair
 OKP = 1,
        /// Elliptic Curve Keys w/ x- and y-coordinate pair
 EC2 = 2,
        /// RSA Key
 RSA = 3,
        /// Symmetric Keys
 Symmetric = 4,
        /// Public key for HSS/LMS hash-based digital signature
 HSS_LMS = 5,
        /// WalnutDSA public key
 WalnutDSA = 6,

        }
        impl EnumI64 for KeyType {
            fn from_i64(i: i64) -> Option<Self> {
                match i {
                    x if x == Self::Reserved as i64 => Some(Self::Reserved),
x if x == Self::OKP as i64 => Some(Self::OKP),
x if x == Self::EC2 as i64 => Some(Self::EC2),
x if x == Self::RSA as i64 => Some(Self::RSA),
x if x == Self::Symmetric as i64 => Some(Self::Symmetric),
x if x == Self::HSS_LMS as i64 => Some(Self::HSS_LMS),
x if x == Self::WalnutDSA as i64 => Some(Self::WalnutDSA),

                    _ => None,
                }
            }
            #[inline]
            fn to_i64(&self) -> i64 {
                *self as i64
            }
        }
    


        #[allow(non_camel_case_types)]
        
    /// IANA-registered COSE elliptic curves.
    ///
    /// From IANA registry <https://www.iana.org/assignments/cose/cose.xhtml#elliptic-curves>
    /// as of 2021-03-19.
    
        #[non_exhaustive]
        #[derive(Clone, Copy, Debug, Eq, Ord, PartialEq, PartialOrd)]
        pub enum EllipticCurve {
            
 Reserved = 0,
        /// EC2: NIST P-256 also known as secp256r1
 P_256 = 1,
        /// EC2: NIST P-384 also known as secp384r1
 P_384 = 2,
        /// EC2: NIST P-521 also known as secp521r1
 P_521 = 3,
        /// OKP: X25519 for use w/ ECDH only
 X25519 = 4,
        /// OKP: X448 for use w/ ECDH only
 X448 = 5,
        /// OKP: Ed25519 for use w/ EdDSA only
 Ed25519 = 6,
        /// OKP: Ed448 for use w/ EdDSA only
 Ed448 = 7,
        /// EC2: SECG secp256k1 curve
 Secp256k1 = 8,

        }
        impl EnumI64 for EllipticCurve {
            fn from_i64(i: i64) -> Option<Self> {
                match i {
                    x if x == Self::Reserved as i64 => Some(Self::Reserved),
x if x == Self::P_256 as i64 => Some(Self::P_256),
x if x == Self::P_384 as i64 => Some(Self::P_384),
x if x == Self::P_521 as i64 => Some(Self::P_521),
x if x == Self::X25519 as i64 => Some(Self::X25519),
x if x == Self::X448 as i64 => Some(Self::X448),
x if x == Self::Ed25519 as i64 => Some(Self::Ed25519),
x if x == Self::Ed448 as i64 => Some(Self::Ed448),
x if x == Self::Secp256k1 as i64 => Some(Self::Secp256k1),

                    _ => None,
                }
            }
            #[inline]
            fn to_i64(&self) -> i64 {
                *self as i64
            }
        }
    

/// Integer values for COSE elliptic curves below this value are reserved for private use.
pub const ELLIPTIC_CURVE_PRIVATE_USE_MAX: i64 = -65536;

impl WithPrivateRange for EllipticCurve {«
    open spec fn spec_is_private(i: i64) -> bool { i < -65536 }»
    fn is_private(i: i64) -> bool {
        i < ELLIPTIC_CURVE_PRIVATE_USE_MAX
    }
}


        #[allow(non_camel_case_types)]
        
    /// Key operation values.
    ///
    /// See RFC 8152 section 7.1 table 4.
    
        #[non_exhaustive]
        #[derive(Clone, Copy, Debug, Eq, Ord, PartialEq, PartialOrd)]
        pub enum KeyOperation {
                    /// Key is used to create signatures. Requires private key fields.
 Sign = 1,
        /// Key is used for verification of signatures.
 Verify = 2,
        /// Key is used for key transport encryption.
 Encrypt = 3,
        /// Key is used for key transport decryption. Requires private key fields.
 Decrypt = 4,
        /// Key is used for key wrap encryption.
 WrapKey = 5,
        /// Key is used for key wrap decryption.  Requires private key fields.
 UnwrapKey = 6,
        /// Key is used for deriving keys.  Requires private key fields.
 DeriveKey = 7,
        /// Key is used for deriving bits not to be used as a key.  Requires private key fields.
 DeriveBits = 8,
        /// Key is used for creating MACs.
 MacCreate = 9,
        /// Key is used for validating MACs.
 MacVerify = 10,

        }
        impl EnumI64 for KeyOperation {
            fn from_i64(i: i64) -> Option<Self> {
                match i {
                    x if x == Self::Sign as i64 => Some(Self::Sign),
x if x == Self::Verify as i64 => Some(Self::Verify),
x if x == Self::Encrypt as i64 => Some(Self::Encrypt),
x if x == Self::Decrypt as i64 => Some(Self::Decrypt),
x if x == Self::WrapKey as i64 => Some(Self::WrapKey),
x if x == Self::UnwrapKey as i64 => Some(Self::UnwrapKey),
x if x == Self::DeriveKey as i64 => Some(Self::DeriveKey),
x if x == Self::DeriveBits as i64 => Some(Self::DeriveBits),
x if x == Self::MacCreate as i64 => Some(Self::MacCreate),
x if x == Self::MacVerify as i64 => Some(Self::MacVerify),

                    _ => None,
                }
            }
            #[inline]
            fn to_i64(&self) -> i64 {
                *self as i64
            }
        }
    


        #[allow(non_camel_case_types)]
        
    /// CBOR tag values for COSE structures.
    ///
    /// From IANA registry <https://www.iana.org/assignments/cbor-tags/cbor-tags.xhtml>
    /// as of 2021-03-19.
    
        #[non_exhaustive]
        #[derive(Clone, Copy, Debug, Eq, Ord, PartialEq, PartialOrd)]
        pub enum CborTag {
                    /// COSE Single Recipient Encrypted Data Object
 CoseEncrypt0 = 16,
        /// COSE Mac w/o Recipients Object
 CoseMac0 = 17,
        /// COSE Single Signer Data Object
 CoseSign1 = 18,
        /// CBOR Web Token (CWT)
 Cwt = 61,
        /// COSE Encrypted Data Object
 CoseEncrypt = 96,
        /// COSE MACed Data Object
 CoseMac = 97,
        /// COSE Signed Data Object
 CoseSign = 98,

        }
        impl EnumI64 for CborTag {
            fn from_i64(i: i64) -> Option<Self> {
                match i {
                    x if x == Self::CoseEncrypt0 as i64 => Some(Self::CoseEncrypt0),
x if x == Self::CoseMac0 as i64 => Some(Self::CoseMac0),
x if x == Self::CoseSign1 as i64 => Some(Self::CoseSign1),
x if x == Self::Cwt as i64 => Some(Self::Cwt),
x if x == Self::CoseEncrypt as i64 => Some(Self::CoseEncrypt),
x if x == Self::CoseMac as i64 => Some(Self::CoseMac),
x if x == Self::CoseSign as i64 => Some(Self::CoseSign),

                    _ => None,
                }
            }
            #[inline]
            fn to_i64(&self) -> i64 {
                *self as i64
            }
        }
    


        #[allow(non_camel_case_types)]
        
    /// CoAP Content Formats
    ///
    /// From IANA registry <https://www.iana.org/assignments/core-parameters/core-parameters.xhtml#content-formats>
    /// as of 2021-03-19.
    
        #[non_exhaustive]
        #[derive(Clone, Copy, Debug, Eq, Ord, PartialEq, PartialOrd)]
        pub enum CoapContentFormat {
                    /// text/plain; charset=utf-8
 TextPlainUtf8 = 0,
        /// application/cose; cose-type="cose-encrypt0"
 CoseEncrypt0 = 16,
        /// application/cose; cose-type="cose-mac0"
 CoseMac0 = 17,
        /// application/cose; cose-type="cose-sign1"
 CoseSign1 = 18,
        /// application/link-format
 LinkFormat = 40,
        /// application/xml
 Xml = 41,
        /// application/octet-stream
 OctetStream = 42,
        /// application/exi
 Exi = 47,
        /// application/json
 Json = 50,
        /// application/json-patch+json
 JsonPatchJson = 51,
        /// application/merge-patch+json
 MergePatchJson = 52,
        /// application/cbor
 Cbor = 60,
        /// application/cwt
 Cwt = 61,
        /// application/multipart-core
 MultipartCore = 62,
        /// application/cbor-seq
 CborSeq = 63,
        /// application/cose; cose-type="cose-encrypt"
 CoseEncrypt = 96,
        /// application/cose; cose-type="cose-mac"
 CoseMac = 97,
        /// application/cose; cose-type="cose-sign"
 CoseSign = 98,
        /// application/cose-key
 CoseKey = 101,
        /// application/cose-key-set
 CoseKeySet = 102,
        /// application/senml+json
 SenmlJson = 110,
        /// application/sensml+json
 SensmlJson = 111,
        /// application/senml+cbor
 SenmlCbor = 112,
        /// application/sensml+cbor
 SensmlCbor = 113,
        /// application/senml-exi
 SenmlExi = 114,
        /// application/sensml-exi
 SensmlExi = 115,
        /// application/coap-group+json
 CoapGroupJson = 256,
        /// application/dots+cbor
 DotsCbor = 271,
        /// application/pkcs7-mime; smime-type=server-generated-key
 Pkcs7MimeSmimeTypeServerGeneratedKey = 280,
        /// application/pkcs7-mime; smime-type=certs-only
 Pkcs7MimeSmimeTypeCertsOnly = 281,
        /// application/pkcs7-mime; smime-type=CMC-Request
 Pkcs7MimeSmimeTypeCmcRequest = 282,
        /// application/pkcs7-mime; smime-type=CMC-Response
 Pkcs7MimeSmimeTypeCmcResponse = 283,
        /// application/pkcs8
 Pkcs8 = 284,
        /// application/csrattrs
 Csrattrs = 285,
        /// application/pkcs10
 Pkcs10 = 286,
        /// application/pkix-cert
 PkixCert = 287,
        /// application/senml+xml
 SenmlXml = 310,
        /// application/sensml+xml
 SensmlXml = 311,
        /// application/senml-etch+json
 SenmlEtchJson = 320,
        /// application/senml-etch+cbor
 SenmlEtchCbor = 322,
        /// application/td+json
 TdJson = 432,
        /// application/vnd.ocf+cbor
 VndOcfCbor = 10000,
        /// application/oscore
 Oscore = 10001,
        // application/json deflate
 JsonDeflate = 11050,
        // application/cbor deflate
 CborDeflate = 11060,
        /// application/vnd.oma.lwm2m+tlv
 VndOmaLwm2mTlv = 11542,
        /// application/vnd.oma.lwm2m+json
 VndOmaLwm2mJson = 11543,
        /// application/vnd.oma.lwm2m+cbor
 VndOmaLwm2mCbor = 11544,

        }
        impl EnumI64 for CoapContentFormat {
            fn from_i64(i: i64) -> Option<Self> {
                match i {
                    x if x == Self::TextPlainUtf8 as i64 => Some(Self::TextPlainUtf8),
x if x == Self::CoseEncrypt0 as i64 => Some(Self::CoseEncrypt0),
x if x == Self::CoseMac0 as i64 => Some(Self::CoseMac0),
x if x == Self::CoseSign1 as i64 => Some(Self::CoseSign1),
x if x == Self::LinkFormat as i64 => Some(Self::LinkFormat),
x if x == Self::Xml as i64 => Some(Self::Xml),
x if x == Self::OctetStream as i64 => Some(Self::OctetStream),
x if x == Self::Exi as i64 => Some(Self::Exi),
x if x == Self::Json as i64 => Some(Self::Json),
x if x == Self::JsonPatchJson as i64 => Some(Self::JsonPatchJson),
x if x == Self::MergePatchJson as i64 => Some(Self::MergePatchJson),
x if x == Self::Cbor as i64 => Some(Self::Cbor),
x if x == Self::Cwt as i64 => Some(Self::Cwt),
x if x == Self::MultipartCore as i64 => Some(Self::MultipartCore),
x if x == Self::CborSeq as i64 => Some(Self::CborSeq),
x if x == Self::CoseEncrypt as i64 => Some(Self::CoseEncrypt),
x if x == Self::CoseMac as i64 => Some(Self::CoseMac),
x if x == Self::CoseSign as i64 => Some(Self::CoseSign),
x if x == Self::CoseKey as i64 => Some(Self::CoseKey),
x if x == Self::CoseKeySet as i64 => Some(Self::CoseKeySet),
x if x == Self::SenmlJson as i64 => Some(Self::SenmlJson),
x if x == Self::SensmlJson as i64 => Some(Self::SensmlJson),
x if x == Self::SenmlCbor as i64 => Some(Self::SenmlCbor),
x if x == Self::SensmlCbor as i64 => Some(Self::SensmlCbor),
x if x == Self::SenmlExi as i64 => Some(Self::SenmlExi),
x if x == Self::SensmlExi as i64 => Some(Self::SensmlExi),
x if x == Self::CoapGroupJson as i64 => Some(Self::CoapGroupJson),
x if x == Self::DotsCbor as i64 => Some(Self::DotsCbor),
x if x == Self::Pkcs7MimeSmimeTypeServerGeneratedKey as i64 => Some(Self::Pkcs7MimeSmimeTypeServerGeneratedKey),
x if x == Self::Pkcs7MimeSmimeTypeCertsOnly as i64 => Some(Self::Pkcs7MimeSmimeTypeCertsOnly),
x if x == Self::Pkcs7MimeSmimeTypeCmcRequest as i64 => Some(Self::Pkcs7MimeSmimeTypeCmcRequest),
x if x == Self::Pkcs7MimeSmimeTypeCmcResponse as i64 => Some(Self::Pkcs7MimeSmimeTypeCmcResponse),
x if x == Self::Pkcs8 as i64 => Some(Self::Pkcs8),
x if x == Self::Csrattrs as i64 => Some(Self::Csrattrs),
x if x == Self::Pkcs10 as i64 => Some(Self::Pkcs10),
x if x == Self::PkixCert as i64 => Some(Self::PkixCert),
x if x == Self::SenmlXml as i64 => Some(Self::SenmlXml),
x if x == Self::SensmlXml as i64 => Some(Self::SensmlXml),
x if x == Self::SenmlEtchJson as i64 => Some(Self::SenmlEtchJson),
x if x == Self::SenmlEtchCbor as i64 => Some(Self::SenmlEtchCbor),
x if x == Self::TdJson as i64 => Some(Self::TdJson),
x if x == Self::VndOcfCbor as i64 => Some(Self::VndOcfCbor),
x if x == Self::Oscore as i64 => Some(Self::Oscore),
x if x == Self::JsonDeflate as i64 => Some(Self::JsonDeflate),
x if x == Self::CborDeflate as i64 => Some(Self::CborDeflate),
x if x == Self::VndOmaLwm2mTlv as i64 => Some(Self::VndOmaLwm2mTlv),
x if x == Self::VndOmaLwm2mJson as i64 => Some(Self::VndOmaLwm2mJson),
x if x == Self::VndOmaLwm2mCbor as i64 => Some(Self::VndOmaLwm2mCbor),

                    _ => None,
                }
            }
            #[inline]
            fn to_i64(&self) -> i64 {
                *self as i64
            }
        }
    


        #[allow(non_camel_case_types)]
        
    /// CBOR Web Token (CWT) Claims
    /// From IANA registry <https://www.iana.org/assignments/cwt/cwt.xhtml>
    /// as of 2021-10-21.
    
        #[non_exhaustive]
        #[derive(Clone, Copy, Debug, Eq, Ord, PartialEq, PartialOrd)]
        pub enum CwtClaimName {
                    /// Health certificate ("hcert": map).
 Hcert = -260,
        /// Challenge nonce ("EUPHNonce": bstr).
 EuphNonce = -259,
        /// Signing prefix for multi-app restricted operating environment ("EATMAROEPrefix": bstr).
 EatMaroePrefix = -258,
        /// FIDO Device Onboarding EAT ("EAT-FDO": array).
 EatFido = -257,
        /// Reserved value.
 Reserved = 0,
        /// Issuer ("iss": tstr).
 Iss = 1,
        /// Subject ("sub": tstr)
 Sub = 2,
        /// Audience ("aud": tstr)
 Aud = 3,
        /// Expiration Time, as seconds since UNIX epoch ("exp": int/float)
 Exp = 4,
        /// Not Before, as seconds since UNIX epoch ("nbf": int/float)
 Nbf = 5,
        /// Issued at, as seconds since UNIX epoch ("iat": int/float)
 Iat = 6,
        /// CWT ID ("cti": bstr)
 Cti = 7,
        /// Confirmation ("cnf": map)
 Cnf = 8,
        /// Scope of an access token ("scope": bstr/tstr)
 Scope = 9,
        /// The ACE profile a token is supposed to be used with ("ace_profile": int)
 AceProfile = 38,
        /// The client-nonce sent to the AS by the RS via the client ("cnonce": bstr)
 CNonce = 39,
        /// The expiration time of a token measured from when it was received at the RS in seconds ("exi": int)
 Exi = 40,

        }
        impl EnumI64 for CwtClaimName {
            fn from_i64(i: i64) -> Option<Self> {
                match i {
                    x if x == Self::Hcert as i64 => Some(Self::Hcert),
x if x == Self::EuphNonce as i64 => Some(Self::EuphNonce),
x if x == Self::EatMaroePrefix as i64 => Some(Self::EatMaroePrefix),
x if x == Self::EatFido as i64 => Some(Self::EatFido),
x if x == Self::Reserved as i64 => Some(Self::Reserved),
x if x == Self::Iss as i64 => Some(Self::Iss),
x if x == Self::Sub as i64 => Some(Self::Sub),
x if x == Self::Aud as i64 => Some(Self::Aud),
x if x == Self::Exp as i64 => Some(Self::Exp),
x if x == Self::Nbf as i64 => Some(Self::Nbf),
x if x == Self::Iat as i64 => Some(Self::Iat),
x if x == Self::Cti as i64 => Some(Self::Cti),
x if x == Self::Cnf as i64 => Some(Self::Cnf),
x if x == Self::Scope as i64 => Some(Self::Scope),
x if x == Self::AceProfile as i64 => Some(Self::AceProfile),
x if x == Self::CNonce as i64 => Some(Self::CNonce),
x if x == Self::Exi as i64 => Some(Self::Exi),

                    _ => None,
                }
            }
            #[inline]
            fn to_i64(&self) -> i64 {
                *self as i64
            }
        }
    

/// Integer values for CWT claims below this value are reserved for private use.
pub const CWT_CLAIM_PRIVATE_USE_MAX: i64 = -65536;

impl WithPrivateRange for CwtClaimName {«
    open spec fn spec_is_private(i: i64) -> bool { i < -65536 }»
    fn is_private(i: i64) -> bool {
        i < CWT_CLAIM_PRIVATE_USE_MAX
    }
}
