#![allow(unused_imports, dead_code)]
extern crate alloc;
use vstd::prelude::*;
use ciborium as cbor;
use ciborium::value::{Value, Integer};
use alloc::{borrow::ToOwned, boxed::Box, string::String, vec, vec::Vec};
verus! {
#[verifier::external_type_specification]
pub struct ExValue(Value);
#[verifier::external_type_specification]
#[verifier::external_body]
pub struct ExInteger(Integer);
#[verifier::external_type_specification]
#[verifier::external_body]
#[verifier::reject_recursive_types(T)]
pub struct ExSerError<T>(cbor::ser::Error<T>);
#[verifier::external_type_specification]
#[verifier::external_body]
#[verifier::reject_recursive_types(T)]
pub struct ExDeError<T>(cbor::de::Error<T>);
#[verifier::external_type_specification]
#[verifier::external_body]
pub struct ExIoEof(ciborium_io::EndOfFile);

pub struct EndOfFile;
pub enum CoseError {
    DecodeFailed(cbor::de::Error<EndOfFile>),
    DuplicateMapKey,
    EncodeFailed,
    ExtraneousData,
    OutOfRangeIntegerValue,
    UnexpectedItem(&'static str, &'static str),
    UnregisteredIanaValue,
    UnregisteredIanaNonPrivateValue,
}
pub type Result<T, E = CoseError> = core::result::Result<T, E>;

impl<T> core::convert::From<cbor::de::Error<T>> for CoseError {
    #[verifier::external_body]
    fn from(e: cbor::de::Error<T>) -> (r: Self) ensures r == CoseError::DecodeFailed(de_err_conv(e)) {
        // Make sure we use our [`EndOfFile`] marker.
        use cbor::de::Error::{Io, RecursionLimitExceeded, Semantic, Syntax};
        let e = match e {
            Io(_) => Io(EndOfFile),
            Syntax(x) => Syntax(x),
            Semantic(a, b) => Semantic(a, b),
            RecursionLimitExceeded => RecursionLimitExceeded,
        };
        CoseError::DecodeFailed(e)
    }
}
impl<T> core::convert::From<cbor::ser::Error<T>> for CoseError {
    fn from(_e: cbor::ser::Error<T>) -> Self {
        CoseError::EncodeFailed
    }
}

pub uninterp spec fn de_err_conv<T>(e: cbor::de::Error<T>) -> cbor::de::Error<EndOfFile>;
impl<T> vstd::std_specs::convert::FromSpecImpl<cbor::de::Error<T>> for CoseError {
    open spec fn obeys_from_spec() -> bool { true }
    open spec fn from_spec(e: cbor::de::Error<T>) -> Self { CoseError::DecodeFailed(de_err_conv(e)) }
}
impl<T> vstd::std_specs::convert::FromSpecImpl<cbor::ser::Error<T>> for CoseError {
    open spec fn obeys_from_spec() -> bool { true }
    open spec fn from_spec(e: cbor::ser::Error<T>) -> Self { CoseError::EncodeFailed }
}
pub broadcast axiom fn axiom_question_mark_uses_from<F: From<E>, E>(e: E, e2: F)
    ensures #[trigger] vstd::std_specs::control_flow::spec_from::<F, E>(e, e2) ==> call_ensures(<F as From<E>>::from, (e,), e2);
// parse model: Some((value, consumed)) or None
pub uninterp spec fn parse(b: Seq<u8>) -> Option<(Value, int)>;

#[verifier::external_body]
pub fn from_reader_slice(slice: &mut &[u8]) -> (r: core::result::Result<Value, cbor::de::Error<ciborium_io::EndOfFile>>)
    ensures
        match parse(old(slice)@) {
            Some((v, n)) => r == Ok::<Value, cbor::de::Error<ciborium_io::EndOfFile>>(v) && 0 < n <= old(slice)@.len() && final(slice)@ == old(slice)@.subrange(n, old(slice)@.len() as int),
            None => r is Err,
        }
{ cbor::de::from_reader(slice) }

fn read_to_value(mut slice: &[u8]) -> (r: Result<Value>)
    ensures
        match parse(slice@) {
            Some((v, n)) => if n == slice@.len() { r == Ok::<Value, CoseError>(v) } else { r == Err::<Value, CoseError>(CoseError::ExtraneousData) },
            None => r matches Err(e) && e is DecodeFailed,
        }
{
    broadcast use axiom_question_mark_uses_from;
    let value = from_reader_slice(&mut slice)?;
    if slice.is_empty() {
        Ok(value)
    } else {
        Err(CoseError::ExtraneousData)
    }
}

pub trait AsCborValue: Sized {
    spec fn spec_from(value: Value) -> Result<Self>;
    /// Convert a [`Value`] into an instance of the type.
    fn from_cbor_value(value: Value) -> (r: Result<Self>)
        ensures r == Self::spec_from(value);
    /// Convert the object into a [`Value`], consuming it along the way.
    fn to_cbor_value(self) -> Result<Value>;
}

pub trait CborSerializable: AsCborValue {
    fn from_slice(slice: &[u8]) -> (r: Result<Self>)
        ensures
        match parse(slice@) {
            Some((v, n)) => if n == slice@.len() { r == Self::spec_from(v) } else { r == Err::<Self, CoseError>(CoseError::ExtraneousData) },
            None => r matches Err(e) && e is DecodeFailed,
        }
    {
        broadcast use axiom_question_mark_uses_from;
        Self::from_cbor_value(read_to_value(slice)?)
    }
}
}
fn main(){}
