// Spec-level lemmas over the contracts (DESIGN.md section 4): C13 suffix/prefix, C14 tags.
mod vlemmas {
use vstd::prelude::*;
use crate::*;
use crate::vprelude::*;
use crate::common::parse_all;
use ciborium::value::Value;
verus!{
// ---- A-PARSE, properties of the uninterpreted `parse` (ciborium::de::from_reader on a slice), ASSUMED:
/// P1: the outcome of parsing depends only on the bytes of the item that was consumed
pub broadcast axiom fn axiom_parse_prefix_determined(b: Seq<u8>, s: Seq<u8>)
    ensures (#[trigger] parse(b + s)) == (match parse(b) { Some((v, n)) => Some((v, n)), None => parse(b + s) }),
            parse(b) matches Some((v, n)) ==> 0 < n <= b.len();
/// P2: no proper prefix of the bytes of one item is itself an item
pub broadcast axiom fn axiom_parse_no_proper_prefix(b: Seq<u8>, k: int)
    ensures (parse(b) matches Some((v, n)) && 0 <= k < n) ==> (#[trigger] parse(b.subrange(0, k))) is None;

/// C13: appending any non-empty suffix to an accepted input makes read_to_value answer ExtraneousData
/// (read_to_value's contract: parse(x) == Some((v, n)) with n < |x|  ==>  Err(ExtraneousData))
pub proof fn lemma_suffix_is_extraneous(b: Seq<u8>, s: Seq<u8>)
    requires parse_all(b) is Some, s.len() > 0,
    ensures parse(b + s) matches Some((v, n)) && n == b.len() && n < (b + s).len() && Some(v) == parse_all(b),
{
    broadcast use axiom_parse_prefix_determined;
    assert(parse(b + s) == parse(b));
}
/// C13: every proper prefix of an accepted input is rejected by the parser (read_to_value: parse == None ==> Err(DecodeFailed))
pub proof fn lemma_proper_prefix_rejected(b: Seq<u8>, k: int)
    requires parse_all(b) is Some, 0 <= k < b.len(),
    ensures parse(b.subrange(0, k)) is None, parse_all(b.subrange(0, k)) is None,
{
    broadcast use axiom_parse_no_proper_prefix;
}

// ---- C14: the numeric values of the six TAG constants (`iana::CborTag::X as u64`) are outside this file's reach
// (Verus rejects the enum cast in a const initialiser, R8); they are checked against the IANA numbers, and for pairwise
// distinctness, by the complete Kani harness `tag_consts` on the real crate.  The generic tagged methods are verified
// against `Self::TAG` in common::TaggedCborSerializable.
// ---- C01: every value obtained from decoding meets the (only) precondition of the to-be-signed / MAC / AAD helpers
// that is not a documented panic condition: its protected headers are serialisable because their wire bytes were kept.
pub proof fn lemma_decoded_protected_is_encodable(v: Value, d: nat, p: ProtectedHeader)
    requires crate::header::prot_res(v, d, p),
    ensures crate::header::prot_encodable(p), p.original_data is Some,
{}
pub proof fn lemma_decoded_messages_meet_helper_preconditions(v: Value)
    ensures
        forall |x: CoseSign1| crate::sign::sign1_res(v, x) ==> crate::header::prot_encodable(x.protected),
        forall |x: CoseMac0| crate::mac::mac0_res(v, x) ==> crate::header::prot_encodable(x.protected),
        forall |x: CoseMac| crate::mac::mac_res(v, x) ==> crate::header::prot_encodable(x.protected),
        forall |x: CoseEncrypt0| crate::encrypt::encrypt0_res(v, x) ==> crate::header::prot_encodable(x.protected),
        forall |x: CoseEncrypt| crate::encrypt::encrypt_res(v, x) ==> crate::header::prot_encodable(x.protected),
        forall |x: CoseRecipient| crate::encrypt::recipient_res(v, x) ==> crate::header::prot_encodable(x.protected),
        forall |x: CoseSign, i: int| crate::sign::sign_res(v, x) && 0 <= i < x.signatures@.len() ==>
            crate::header::prot_encodable(x.protected) && crate::header::prot_encodable((#[trigger] x.signatures@[i]).protected),
{
    assert forall |x: CoseSign, i: int| crate::sign::sign_res(v, x) && 0 <= i < x.signatures@.len() implies
            crate::header::prot_encodable(x.protected) && crate::header::prot_encodable((#[trigger] x.signatures@[i]).protected) by {
        assert(crate::header::sig_res(arr_of(arr_of(v)[3])[i], 0, x.signatures@[i]));
    }
}
// ---- C07 (first step) / C01: every decoded message encodes successfully (its to_cbor_value returns Ok)
pub proof fn lemma_decoded_recipient_encodable(v: Value, x: CoseRecipient)
    requires crate::encrypt::recipient_ok(v), crate::encrypt::recipient_res(v, x),
    ensures crate::encrypt::recipient_encodable(x),
    decreases v, 1nat
{
    crate::header::lemma_decoded_header_encodable(arr_of(v)[1], 0, x.unprotected);
    if arr_of(v).len() == 4 { lemma_arr_elem_decreases(v, 3); lemma_decoded_recipients_encodable(arr_of(v)[3], x.recipients@); }
}
pub proof fn lemma_decoded_recipients_encodable(v: Value, s: Seq<CoseRecipient>)
    requires crate::encrypt::recipients_ok(v), crate::encrypt::recipients_res(v, s),
    ensures crate::encrypt::recipients_encodable(s),
    decreases v, 0nat
{
    assert forall |j: int| 0 <= j < s.len() implies crate::encrypt::recipient_encodable(#[trigger] s[j]) by {
        lemma_arr_elem_decreases(v, j);
        lemma_decoded_recipient_encodable(arr_of(v)[j], s[j]);
    }
}
pub proof fn lemma_decoded_messages_encodable(v: Value)
    ensures
        forall |x: CoseSign1| crate::sign::sign1_ok(v) && crate::sign::sign1_res(v, x) ==> crate::sign::sign1_encodable(x),
        forall |x: CoseSign| crate::sign::sign_ok(v) && crate::sign::sign_res(v, x) ==> crate::sign::sign_encodable(x),
        forall |x: CoseMac0| crate::mac::mac0_ok(v) && crate::mac::mac0_res(v, x) ==> crate::mac::mac0_encodable(x),
        forall |x: CoseMac| crate::mac::mac_ok(v) && crate::mac::mac_res(v, x) ==> crate::mac::mac_encodable(x),
        forall |x: CoseEncrypt0| crate::encrypt::encrypt0_ok(v) && crate::encrypt::encrypt0_res(v, x) ==> crate::encrypt::encrypt0_encodable(x),
        forall |x: CoseEncrypt| crate::encrypt::encrypt_ok(v) && crate::encrypt::encrypt_res(v, x) ==> crate::encrypt::encrypt_encodable(x),
{
    assert forall |x: CoseSign1| crate::sign::sign1_ok(v) && crate::sign::sign1_res(v, x) implies crate::sign::sign1_encodable(x) by {
        crate::header::lemma_decoded_header_encodable(arr_of(v)[1], 0, x.unprotected);
    }
    assert forall |x: CoseSign| crate::sign::sign_ok(v) && crate::sign::sign_res(v, x) implies crate::sign::sign_encodable(x) by {
        crate::header::lemma_decoded_header_encodable(arr_of(v)[1], 0, x.unprotected);
        let sv = arr_of(v)[3];
        assert forall |j: int| 0 <= j < x.signatures@.len() implies crate::header::sig_encodable(#[trigger] x.signatures@[j]) by {
            crate::header::lemma_decoded_sig_encodable(arr_of(sv)[j], 0, x.signatures@[j]);
        }
    }
    assert forall |x: CoseMac0| crate::mac::mac0_ok(v) && crate::mac::mac0_res(v, x) implies crate::mac::mac0_encodable(x) by {
        crate::header::lemma_decoded_header_encodable(arr_of(v)[1], 0, x.unprotected);
    }
    assert forall |x: CoseMac| crate::mac::mac_ok(v) && crate::mac::mac_res(v, x) implies crate::mac::mac_encodable(x) by {
        crate::header::lemma_decoded_header_encodable(arr_of(v)[1], 0, x.unprotected);
        lemma_decoded_recipients_encodable(arr_of(v)[4], x.recipients@);
    }
    assert forall |x: CoseEncrypt0| crate::encrypt::encrypt0_ok(v) && crate::encrypt::encrypt0_res(v, x) implies crate::encrypt::encrypt0_encodable(x) by {
        crate::header::lemma_decoded_header_encodable(arr_of(v)[1], 0, x.unprotected);
    }
    assert forall |x: CoseEncrypt| crate::encrypt::encrypt_ok(v) && crate::encrypt::encrypt_res(v, x) implies crate::encrypt::encrypt_encodable(x) by {
        crate::header::lemma_decoded_header_encodable(arr_of(v)[1], 0, x.unprotected);
        lemma_decoded_recipients_encodable(arr_of(v)[3], x.recipients@);
    }
}
/// the nesting limit the termination measure and the acceptance predicates use is the crate's constant
pub(crate) proof fn lemma_nesting_limit()
    ensures crate::header::max_nest() == crate::header::MAX_HEADER_NESTING as nat, crate::header::max_nest() == 16,
{}
/// untagged decoding of the six message types rejects every tagged item (they all demand an array)
pub proof fn lemma_untagged_rejects_tag(v: Value)
    requires v is Tag,
    ensures !crate::sign::sign_ok(v), !crate::sign::sign1_ok(v), !crate::mac::mac_ok(v), !crate::mac::mac0_ok(v),
            !crate::encrypt::encrypt_ok(v), !crate::encrypt::encrypt0_ok(v),
{}
/// hence a doubly tagged item is rejected by tagged decoding of e.g. COSE_Sign1, whatever the tags
pub proof fn lemma_double_tag_rejected(t: u64, inner: Value, r: Result<CoseSign1>)
    requires inner is Tag, <CoseSign1 as AsCborValue>::dec_rel(inner, r),
    ensures r is Err,
{ lemma_untagged_rejects_tag(inner); }
}
}
