// Copyright 2021 Google LLC
//
// Licensed under the Apache License, Version 2.0 (the "License");
// you may not use this file except in compliance with the License.
// You may obtain a copy of the License at
//
//      http://www.apache.org/licenses/LICENSE-2.0
//
// Unless required by applicable law or agreed to in writing, software
// distributed under the License is distributed on an "AS IS" BASIS,
// WITHOUT WARRANTIES OR CONDITIONS OF ANY KIND, either express or implied.
// See the License for the specific language governing permissions and
// limitations under the License.
//
////////////////////////////////////////////////////////////////////////////////



use crate::{
    cbor::value::Value,
    common::AsCborValue,
    iana,
    iana::{EnumI64, WithPrivateRange},
    util::{cbor_type_error, ValueTryAs},
    CoseError,
};
use alloc::{collections::BTreeSet, string::String, vec::Vec};
use core::convert::TryInto;


/// Number of seconds since UNIX epoch.
#[derive(Clone, Debug, PartialEq)]
pub enum Timestamp {
    WholeSeconds(i64),
    FractionalSeconds(f64),
}«use crate::vprelude::*;
use crate::common::{regp_of, regp_cv, wf_regp, axiom_derived_clone_regp};
pub open spec fn ts_of(v: Value) -> Option<Timestamp> {
    match v {
        Value::Integer(i) => if in_i64(int_val(i)) { Some(Timestamp::WholeSeconds(int_val(i) as i64)) } else { None },
        Value::Float(f) => Some(Timestamp::FractionalSeconds(f)),
        _ => None,
    }
}
pub open spec fn ts_cv(t: Timestamp) -> CV { match t { Timestamp::WholeSeconds(i) => CV::Int(i as int), Timestamp::FractionalSeconds(f) => CV::Float(f) } }
»

impl AsCborValue for Timestamp {«
    open spec fn dec_rel(value: Value, r: crate::Result<Self>) -> bool {
        match ts_of(value) {
            Some(t) => r == Ok::<Timestamp, CoseError>(t),
            None => r matches Err(e) && (if value is Integer { e is OutOfRangeIntegerValue } else { e is UnexpectedItem }),
        }
    }
    open spec fn enc_rel(self, r: crate::Result<Value>) -> bool { r matches Ok(v) && vv(v) == ts_cv(self) && ts_of(v) == Some(self) }»
    fn from_cbor_value(value: Value) -> Result<Self, CoseError> {«
        broadcast use axiom_question_mark_uses_from;»
        match value {
            Value::Integer(i) => Ok(Timestamp::WholeSeconds(i.try_into()?)),
            Value::Float(f) => Ok(Timestamp::FractionalSeconds(f)),
            _ => cbor_type_error(&value, "int/float"),
        }
    }
    fn to_cbor_value(self) -> Result<Value, CoseError> {«
        proof { reveal_with_fuel(vv, 2); }»
        Ok(match self {
            Timestamp::WholeSeconds(t) => Value::Integer(t.into()),
            Timestamp::FractionalSeconds(f) => Value::Float(f),
        })
    }
}

/// Claim name.
pub type ClaimName = crate::RegisteredLabelWithPrivate<iana::CwtClaimName>;

/// Structure representing a CWT Claims Set.
#[verifier::external_derive(Clone)]
#[derive(Clone, Debug, Default, PartialEq)]
pub struct ClaimsSet {
    /// Issuer
    pub issuer: Option<String>,
    /// Subject
    pub subject: Option<String>,
    /// Audience
    pub audience: Option<String>,
    /// Expiration Time
    pub expiration_time: Option<Timestamp>,
    /// Not Before
    pub not_before: Option<Timestamp>,
    /// Issued At
    pub issued_at: Option<Timestamp>,
    /// CWT ID
    pub cwt_id: Option<Vec<u8>>,
    /// Any additional claims.
    pub rest: Vec<(ClaimName, Value)>,
}

impl crate::CborSerializable for ClaimsSet {}

const ISS: ClaimName = ClaimName::Assigned(iana::CwtClaimName::Iss);
const SUB: ClaimName = ClaimName::Assigned(iana::CwtClaimName::Sub);
const AUD: ClaimName = ClaimName::Assigned(iana::CwtClaimName::Aud);
const EXP: ClaimName = ClaimName::Assigned(iana::CwtClaimName::Exp);
const NBF: ClaimName = ClaimName::Assigned(iana::CwtClaimName::Nbf);
const IAT: ClaimName = ClaimName::Assigned(iana::CwtClaimName::Iat);
const CTI: ClaimName = ClaimName::Assigned(iana::CwtClaimName::Cti);«pub open spec fn cn_of(v: Value) -> Option<ClaimName> { regp_of::<iana::CwtClaimName>(v) }
pub open spec fn cn(c: iana::CwtClaimName) -> ClaimName { ClaimName::Assigned(c) }
pub open spec fn is_typed_claim(n: ClaimName) -> bool {
    n == cn(iana::CwtClaimName::Iss) || n == cn(iana::CwtClaimName::Sub) || n == cn(iana::CwtClaimName::Aud) || n == cn(iana::CwtClaimName::Exp)
    || n == cn(iana::CwtClaimName::Nbf) || n == cn(iana::CwtClaimName::Iat) || n == cn(iana::CwtClaimName::Cti)
}
/// CWT claims set (RFC 8392 section 3): claim-name typing of one pair
pub open spec fn claim_pair_ok(k: Value, v: Value) -> bool {
    cn_of(k) matches Some(n) && (
        if n == cn(iana::CwtClaimName::Iss) || n == cn(iana::CwtClaimName::Sub) || n == cn(iana::CwtClaimName::Aud) { v is Text }
        else if n == cn(iana::CwtClaimName::Exp) || n == cn(iana::CwtClaimName::Nbf) || n == cn(iana::CwtClaimName::Iat) { ts_of(v) is Some }
        else if n == cn(iana::CwtClaimName::Cti) { v is Bytes }
        else { true })
}
pub open spec fn has_claim(m: Seq<(Value, Value)>, n: int, c: ClaimName) -> bool {
    exists |i: int| 0 <= i < n && #[trigger] cn_of(m[i].0) == Some(c)
}
pub open spec fn claims_distinct(m: Seq<(Value, Value)>) -> bool {
    forall |i: int, j: int| 0 <= i < j < m.len() ==> #[trigger] cn_of(m[i].0) != #[trigger] cn_of(m[j].0)
}
// ---- C12 (decode, error kind)
pub open spec fn claims_dup_at(m: Seq<(Value, Value)>, n: int) -> bool {
    0 <= n < m.len() && (forall |i: int| 0 <= i < n ==> claim_pair_ok(#[trigger] m[i].0, m[i].1)) && claims_distinct(m.subrange(0, n))
    && (cn_of(m[n].0) matches Some(c) && has_claim(m, n, c))
}
#[verifier::opaque]
pub open spec fn claims_no_dup(m: Seq<(Value, Value)>) -> bool { forall |n: int| !claims_dup_at(m, n) }
proof fn lemma_claims_distinct_prefix_no_dup(m: Seq<(Value, Value)>, k: int, n: int)
    requires 0 <= n < k <= m.len(), claims_distinct(m.subrange(0, k)),
    ensures !claims_dup_at(m, n),
{
    if cn_of(m[n].0) is Some && has_claim(m, n, cn_of(m[n].0)->0) {
        let i = choose |i: int| 0 <= i < n && #[trigger] cn_of(m[i].0) == Some(cn_of(m[n].0)->0);
        assert(m.subrange(0, k)[i] == m[i] && m.subrange(0, k)[n] == m[n]);
        assert(cn_of(m.subrange(0, k)[i].0) != cn_of(m.subrange(0, k)[n].0));
    }
}
pub proof fn lemma_claims_bad_pair_no_dup(m: Seq<(Value, Value)>, k: int)
    requires 0 <= k < m.len(), claims_distinct(m.subrange(0, k)), cn_of(m[k].0) matches Some(c) ==> !has_claim(m, k, c),
    ensures !claim_pair_ok(m[k].0, m[k].1) ==> claims_no_dup(m),
{
    reveal(claims_no_dup);
    if !claim_pair_ok(m[k].0, m[k].1) {
        assert forall |n: int| !claims_dup_at(m, n) by { if 0 <= n < k { lemma_claims_distinct_prefix_no_dup(m, k, n); } }
    }
}
pub proof fn lemma_claims_all_distinct_no_dup(m: Seq<(Value, Value)>)
    requires claims_distinct(m.subrange(0, m.len() as int)),
    ensures claims_no_dup(m),
{
    reveal(claims_no_dup);
    assert forall |n: int| !claims_dup_at(m, n) by { if 0 <= n < m.len() { lemma_claims_distinct_prefix_no_dup(m, m.len() as int, n); } }
}
pub open spec fn claims_ok(v: Value) -> bool {
    v is Map && (forall |i: int| 0 <= i < map_of(v).len() ==> claim_pair_ok(#[trigger] map_of(v)[i].0, map_of(v)[i].1)) && claims_distinct(map_of(v))
}
pub open spec fn claims_rest_of(m: Seq<(Value, Value)>) -> Seq<(ClaimName, Value)>
    decreases m.len()
{
    if m.len() == 0 { Seq::empty() } else {
        let p = claims_rest_of(m.drop_last());
        match cn_of(m.last().0) {
            Some(n) => if is_typed_claim(n) { p } else { p.push((n, m.last().1)) },
            None => p,
        }
    }
}
/// field mapping for the first n pairs
pub open spec fn claims_inv(c: ClaimsSet, m: Seq<(Value, Value)>, n: int) -> bool {
    (forall |i: int| 0 <= i < n && #[trigger] cn_of(m[i].0) == Some(cn(iana::CwtClaimName::Iss)) ==> (c.issuer matches Some(t) && m[i].1 == Value::Text(t)))
    && (!has_claim(m, n, cn(iana::CwtClaimName::Iss)) ==> c.issuer is None)
    && (forall |i: int| 0 <= i < n && #[trigger] cn_of(m[i].0) == Some(cn(iana::CwtClaimName::Sub)) ==> (c.subject matches Some(t) && m[i].1 == Value::Text(t)))
    && (!has_claim(m, n, cn(iana::CwtClaimName::Sub)) ==> c.subject is None)
    && (forall |i: int| 0 <= i < n && #[trigger] cn_of(m[i].0) == Some(cn(iana::CwtClaimName::Aud)) ==> (c.audience matches Some(t) && m[i].1 == Value::Text(t)))
    && (!has_claim(m, n, cn(iana::CwtClaimName::Aud)) ==> c.audience is None)
    && (forall |i: int| 0 <= i < n && #[trigger] cn_of(m[i].0) == Some(cn(iana::CwtClaimName::Exp)) ==> (c.expiration_time is Some && c.expiration_time == ts_of(m[i].1)))
    && (!has_claim(m, n, cn(iana::CwtClaimName::Exp)) ==> c.expiration_time is None)
    && (forall |i: int| 0 <= i < n && #[trigger] cn_of(m[i].0) == Some(cn(iana::CwtClaimName::Nbf)) ==> (c.not_before is Some && c.not_before == ts_of(m[i].1)))
    && (!has_claim(m, n, cn(iana::CwtClaimName::Nbf)) ==> c.not_before is None)
    && (forall |i: int| 0 <= i < n && #[trigger] cn_of(m[i].0) == Some(cn(iana::CwtClaimName::Iat)) ==> (c.issued_at is Some && c.issued_at == ts_of(m[i].1)))
    && (!has_claim(m, n, cn(iana::CwtClaimName::Iat)) ==> c.issued_at is None)
    && (forall |i: int| 0 <= i < n && #[trigger] cn_of(m[i].0) == Some(cn(iana::CwtClaimName::Cti)) ==> (c.cwt_id matches Some(b) && m[i].1 == Value::Bytes(b)))
    && (!has_claim(m, n, cn(iana::CwtClaimName::Cti)) ==> c.cwt_id is None)
    && c.rest@ == claims_rest_of(m.subrange(0, n))
}
pub open spec fn claims_res(v: Value, c: ClaimsSet) -> bool { claims_inv(c, map_of(v), map_of(v).len() as int) }
/// one loop iteration
pub open spec fn claims_upd_ok(cp: ClaimsSet, c: ClaimsSet, k: Value, v: Value) -> bool {
    cn_of(k) matches Some(n) && (
        if n == cn(iana::CwtClaimName::Iss) { c == (ClaimsSet { issuer: c.issuer, ..cp }) && (c.issuer matches Some(t) && v == Value::Text(t)) }
        else if n == cn(iana::CwtClaimName::Sub) { c == (ClaimsSet { subject: c.subject, ..cp }) && (c.subject matches Some(t) && v == Value::Text(t)) }
        else if n == cn(iana::CwtClaimName::Aud) { c == (ClaimsSet { audience: c.audience, ..cp }) && (c.audience matches Some(t) && v == Value::Text(t)) }
        else if n == cn(iana::CwtClaimName::Exp) { c == (ClaimsSet { expiration_time: c.expiration_time, ..cp }) && c.expiration_time is Some && c.expiration_time == ts_of(v) }
        else if n == cn(iana::CwtClaimName::Nbf) { c == (ClaimsSet { not_before: c.not_before, ..cp }) && c.not_before is Some && c.not_before == ts_of(v) }
        else if n == cn(iana::CwtClaimName::Iat) { c == (ClaimsSet { issued_at: c.issued_at, ..cp }) && c.issued_at is Some && c.issued_at == ts_of(v) }
        else if n == cn(iana::CwtClaimName::Cti) { c == (ClaimsSet { cwt_id: c.cwt_id, ..cp }) && (c.cwt_id matches Some(b) && v == Value::Bytes(b)) }
        else { c == (ClaimsSet { rest: c.rest, ..cp }) && c.rest@ == cp.rest@.push((n, v)) })
}
pub proof fn lemma_claims_inv_init(c: ClaimsSet, m: Seq<(Value, Value)>)
    requires c.is_default(),
    ensures claims_inv(c, m, 0),
{
    assert(m.subrange(0, 0) =~= Seq::<(Value, Value)>::empty());
    assert(claims_rest_of(m.subrange(0, 0)) =~= Seq::<(ClaimName, Value)>::empty());
    assert(c.rest@ =~= Seq::<(ClaimName, Value)>::empty());
}
pub proof fn lemma_claims_inv_step(cp: ClaimsSet, c: ClaimsSet, m: Seq<(Value, Value)>, n: int)
    requires
        0 <= n < m.len(), claims_inv(cp, m, n),
        cn_of(m[n].0) matches Some(l) && !has_claim(m, n, l),
        claims_upd_ok(cp, c, m[n].0, m[n].1),
    ensures claims_inv(c, m, n + 1),
{
    let l = cn_of(m[n].0)->0;
    assert(m.subrange(0, n + 1).drop_last() =~= m.subrange(0, n));
    assert(m.subrange(0, n + 1).last() == m[n]);
    assert forall |x: ClaimName| has_claim(m, n + 1, x) <==> (has_claim(m, n, x) || x == l) by {
        if has_claim(m, n + 1, x) { let i = choose |i: int| 0 <= i < n + 1 && #[trigger] cn_of(m[i].0) == Some(x); if i < n { assert(has_claim(m, n, x)); } }
        if has_claim(m, n, x) { let i = choose |i: int| 0 <= i < n && #[trigger] cn_of(m[i].0) == Some(x); assert(has_claim(m, n + 1, x)); }
        if x == l { assert(has_claim(m, n + 1, x)); }
    }
    assert forall |i: int| 0 <= i < n implies #[trigger] cn_of(m[i].0) != Some(l) by {
        if cn_of(m[i].0) == Some(l) { assert(has_claim(m, n, l)); }
    }
}
»«// ---- what a claims set encodes to
pub open spec fn claim_present(c: ClaimsSet, k: int) -> bool {
    if k == 1 { c.issuer is Some } else if k == 2 { c.subject is Some } else if k == 3 { c.audience is Some } else if k == 4 { c.expiration_time is Some }
    else if k == 5 { c.not_before is Some } else if k == 6 { c.issued_at is Some } else if k == 7 { c.cwt_id is Some } else { false }
}
pub open spec fn claim_val(c: ClaimsSet, k: int) -> CV {
    if k == 1 { CV::Text(c.issuer->0@) } else if k == 2 { CV::Text(c.subject->0@) } else if k == 3 { CV::Text(c.audience->0@) }
    else if k == 4 { ts_cv(c.expiration_time->0) } else if k == 5 { ts_cv(c.not_before->0) } else if k == 6 { ts_cv(c.issued_at->0) }
    else if k == 7 { CV::Bytes(c.cwt_id->0@) } else { CV::Null }
}
pub open spec fn claim_entry(c: ClaimsSet, k: int) -> Seq<(CV, CV)> {
    if claim_present(c, k) { seq![(CV::Int(k), claim_val(c, k))] } else { Seq::<(CV, CV)>::empty() }
}
#[verifier::opaque]
pub open spec fn claims_typed_prefix(c: ClaimsSet, k: int) -> Seq<(CV, CV)>
    decreases k
{ if k <= 0 { Seq::<(CV, CV)>::empty() } else { claims_typed_prefix(c, k - 1) + claim_entry(c, k) } }
#[verifier::opaque]
pub open spec fn claims_rest_entries(r: Seq<(ClaimName, Value)>) -> Seq<(CV, CV)> { Seq::new(r.len(), |i: int| (regp_cv(r[i].0), vv(r[i].1))) }
pub open spec fn claims_cv(c: ClaimsSet) -> CV { CV::Map(claims_typed_prefix(c, 7) + claims_rest_entries(c.rest@)) }
pub proof fn lemma_claims_step(c: ClaimsSet, k: int, old: Seq<(Value, Value)>, key: Value, val: Value)
    requires 1 <= k <= 7, vv_pairs(old) == claims_typed_prefix(c, k - 1), claim_present(c, k), vv(key) == CV::Int(k), vv(val) == claim_val(c, k),
    ensures vv_pairs(old.push((key, val))) == claims_typed_prefix(c, k),
{
    reveal_with_fuel(claims_typed_prefix, 1);
    assert(claims_typed_prefix(c, k) == claims_typed_prefix(c, k - 1) + claim_entry(c, k));
    lemma_vv_pairs_push(old, (key, val));
    assert(vv_pairs(old.push((key, val))) =~= claims_typed_prefix(c, k));
}
pub proof fn lemma_claims_skip(c: ClaimsSet, k: int, old: Seq<(Value, Value)>)
    requires 1 <= k <= 7, vv_pairs(old) == claims_typed_prefix(c, k - 1), !claim_present(c, k),
    ensures vv_pairs(old) == claims_typed_prefix(c, k),
{
    reveal_with_fuel(claims_typed_prefix, 1);
    assert(claims_typed_prefix(c, k) =~= claims_typed_prefix(c, k - 1));
}
pub proof fn lemma_claims_start(c: ClaimsSet)
    ensures vv_pairs(Seq::<(Value, Value)>::empty()) == claims_typed_prefix(c, 0),
{ reveal_with_fuel(claims_typed_prefix, 1); lemma_vv_pairs_empty(); }
pub proof fn lemma_claims_rest_push(r: Seq<(ClaimName, Value)>, n: int)
    requires 0 <= n < r.len(),
    ensures claims_rest_entries(r.subrange(0, n + 1)) == claims_rest_entries(r.subrange(0, n)).push((regp_cv(r[n].0), vv(r[n].1))),
{ reveal(claims_rest_entries); assert(claims_rest_entries(r.subrange(0, n + 1)) =~= claims_rest_entries(r.subrange(0, n)).push((regp_cv(r[n].0), vv(r[n].1)))); }
pub proof fn lemma_claims_rest_empty(r: Seq<(ClaimName, Value)>)
    ensures claims_rest_entries(r.subrange(0, 0)) == Seq::<(CV, CV)>::empty(), r.subrange(0, r.len() as int) == r,
{ reveal(claims_rest_entries); assert(claims_rest_entries(r.subrange(0, 0)) =~= Seq::<(CV, CV)>::empty()); assert(r.subrange(0, r.len() as int) =~= r); }
»

impl AsCborValue for ClaimsSet {«
    // KNOWN FINDING (C12 encode): no duplicate check here; encoding always succeeds (pinned by cwt::tests::test_cwt_dup_claim)
    open spec fn enc_rel(self, r: crate::Result<Value>) -> bool { r matches Ok(v) && vv(v) == claims_cv(self) }
    open spec fn dec_rel(value: Value, r: crate::Result<Self>) -> bool {
        (r is Ok <==> claims_ok(value)) && (r matches Ok(c) ==> claims_res(value, c))
        && (!claims_no_dup(map_of(value)) ==> (r matches Err(e) && e is DuplicateMapKey))
    }
    #[verifier::loop_isolation(false)]»
    fn from_cbor_value(value: Value) -> Result<Self, CoseError> {«
        broadcast use axiom_question_mark_uses_from;
        let ghost val0 = value;»
        «proof { if !(val0 is Map) { reveal(claims_no_dup); } }»
        let m = match value {
            Value::Map(m) => m,
            v => return cbor_type_error(&v, "map"),
        };«
        let ghost ms = m@;»

        let mut claims = Self::default();
        let mut seen = BTreeSet::new();«
        proof { lemma_claims_inv_init(claims, ms); }»
        for (n, value) in« it:» m.into_iter()«
            invariant
                0 <= it.index@ <= ms.len(),
                forall |i: int| 0 <= i < it.index@ ==> claim_pair_ok(#[trigger] ms[i].0, ms[i].1),
                claims_distinct(ms.subrange(0, it.index@)),
                forall |x: ClaimName| seen@.contains(x) <==> has_claim(ms, it.index@, x),
                forall |x: ClaimName| seen@.contains(x) ==> wf_regp(x),
                claims_inv(claims, ms, it.index@),» {«
            broadcast use axiom_derived_clone_regp;
            let ghost k = it.index@;
            let ghost v0 = value;
            let ghost cp = claims;
            proof {
                assert(n == ms[k].0 && value == ms[k].1);
                assert(claims_ok(val0) ==> claim_pair_ok(ms[k].0, ms[k].1));
                if cn_of(ms[k].0) is None { lemma_claims_bad_pair_no_dup(ms, k); }
            }»
            // The `ciborium` CBOR library does not police duplicate map keys, so do it here.
            let name = ClaimName::from_cbor_value(n)?;«
            proof { assert(cn_of(ms[k].0) == Some(name)); assert(wf_regp(name)); }»
            if crate::vprelude::regp_set_contains(&seen, &name) {«
                proof {
                    let i0 = choose |i: int| 0 <= i < k && #[trigger] cn_of(ms[i].0) == Some(name);
                    assert(cn_of(ms[i0].0) == cn_of(ms[k].0));
                    assert(!claims_distinct(ms));
                }»
                return Err(CoseError::DuplicateMapKey);
            }«
            proof { assert(!has_claim(ms, k, name)); lemma_claims_bad_pair_no_dup(ms, k); }»
            crate::vprelude::regp_set_insert(&mut seen, name.clone());
            match name {
                x if x == ISS => claims.issuer = Some(value.try_as_string()?),
                x if x == SUB => claims.subject = Some(value.try_as_string()?),
                x if x == AUD => claims.audience = Some(value.try_as_string()?),
                x if x == EXP => claims.expiration_time = Some(Timestamp::from_cbor_value(value)?),
                x if x == NBF => claims.not_before = Some(Timestamp::from_cbor_value(value)?),
                x if x == IAT => claims.issued_at = Some(Timestamp::from_cbor_value(value)?),
                x if x == CTI => claims.cwt_id = Some(value.try_as_bytes()?),
                name => claims.rest.push((name, value)),
            }«
            proof {
                assert(claim_pair_ok(ms[k].0, ms[k].1));
                assert(claims_upd_ok(cp, claims, ms[k].0, ms[k].1));
                lemma_claims_inv_step(cp, claims, ms, k);
                let s1 = ms.subrange(0, k + 1);
                assert forall |i: int, j: int| 0 <= i < j < s1.len() implies #[trigger] cn_of(s1[i].0) != #[trigger] cn_of(s1[j].0) by {
                    if j < k { assert(cn_of(ms.subrange(0, k)[i].0) != cn_of(ms.subrange(0, k)[j].0)); }
                    else { if cn_of(ms[i].0) == Some(name) { assert(has_claim(ms, k, name)); assert(false); } }
                }
                assert forall |x: ClaimName| seen@.contains(x) <==> has_claim(ms, k + 1, x) by {
                    if has_claim(ms, k + 1, x) { let i = choose |i: int| 0 <= i < k + 1 && #[trigger] cn_of(ms[i].0) == Some(x); if i < k { assert(has_claim(ms, k, x)); } }
                    if has_claim(ms, k, x) { let i = choose |i: int| 0 <= i < k && #[trigger] cn_of(ms[i].0) == Some(x); assert(has_claim(ms, k + 1, x)); }
                    if x == name { assert(has_claim(ms, k + 1, x)); }
                }
            }»
        }«
        proof { lemma_claims_all_distinct_no_dup(ms); assert(ms.subrange(0, ms.len() as int) =~= ms); }»
        Ok(claims)
    }

    fn to_cbor_value(self) -> Result<Value, CoseError> {«
        broadcast use axiom_question_mark_uses_from;
        let ghost c0 = self;»
        let mut map = Vec::new();«
        let ghost m0 = map@;
        proof { lemma_claims_start(c0); assert(m0 =~= Seq::<(Value, Value)>::empty()); }»
        if let Some(iss) = self.issuer {
            map.push((ISS.to_cbor_value()?, Value::Text(iss)));«
            proof { lemma_claims_step(c0, 1, m0, map@.last().0, map@.last().1); }»
        }«
        let ghost m1 = map@;
        proof { if !claim_present(c0, 1) { lemma_claims_skip(c0, 1, m0); } }»
        if let Some(sub) = self.subject {
            map.push((SUB.to_cbor_value()?, Value::Text(sub)));«
            proof { lemma_claims_step(c0, 2, m1, map@.last().0, map@.last().1); }»
        }«
        let ghost m2 = map@;
        proof { if !claim_present(c0, 2) { lemma_claims_skip(c0, 2, m1); } }»
        if let Some(aud) = self.audience {
            map.push((AUD.to_cbor_value()?, Value::Text(aud)));«
            proof { lemma_claims_step(c0, 3, m2, map@.last().0, map@.last().1); }»
        }«
        let ghost m3 = map@;
        proof { if !claim_present(c0, 3) { lemma_claims_skip(c0, 3, m2); } }»
        if let Some(exp) = self.expiration_time {
            map.push((EXP.to_cbor_value()?, exp.to_cbor_value()?));«
            proof { lemma_claims_step(c0, 4, m3, map@.last().0, map@.last().1); }»
        }«
        let ghost m4 = map@;
        proof { if !claim_present(c0, 4) { lemma_claims_skip(c0, 4, m3); } }»
        if let Some(nbf) = self.not_before {
            map.push((NBF.to_cbor_value()?, nbf.to_cbor_value()?));«
            proof { lemma_claims_step(c0, 5, m4, map@.last().0, map@.last().1); }»
        }«
        let ghost m5 = map@;
        proof { if !claim_present(c0, 5) { lemma_claims_skip(c0, 5, m4); } }»
        if let Some(iat) = self.issued_at {
            map.push((IAT.to_cbor_value()?, iat.to_cbor_value()?));«
            proof { lemma_claims_step(c0, 6, m5, map@.last().0, map@.last().1); }»
        }«
        let ghost m6 = map@;
        proof { if !claim_present(c0, 6) { lemma_claims_skip(c0, 6, m5); } }»
        if let Some(cti) = self.cwt_id {
            map.push((CTI.to_cbor_value()?, Value::Bytes(cti)));«
            proof { lemma_claims_step(c0, 7, m6, map@.last().0, map@.last().1); }»
        }«
        let ghost rs = self.rest@;
        proof { if !claim_present(c0, 7) { lemma_claims_skip(c0, 7, m6); } lemma_claims_rest_empty(rs); assert(vv_pairs(map@) =~= claims_typed_prefix(c0, 7) + claims_rest_entries(rs.subrange(0, 0))); }»
        for (label, value) in« it:» self.rest«
            invariant
                c0 == self, rs == c0.rest@, rs == self.rest@, 0 <= it.index@ <= rs.len(),
                vv_pairs(map@) == claims_typed_prefix(c0, 7) + claims_rest_entries(rs.subrange(0, it.index@)),» {«
            broadcast use axiom_question_mark_uses_from;
            let ghost n = it.index@;
            let ghost map_pre = map@;
            proof { assert(label == rs[n].0 && value == rs[n].1); }»
            map.push((label.to_cbor_value()?, value));«
            proof {
                lemma_vv_pairs_push(map_pre, map@.last());
                lemma_claims_rest_push(rs, n);
                assert(vv_pairs(map@) =~= claims_typed_prefix(c0, 7) + claims_rest_entries(rs.subrange(0, n + 1)));
            }»
        }«
        proof { lemma_claims_rest_empty(rs); lemma_vv_map(map); }»
        Ok(Value::Map(map))
    }
}

/// Builder for [`ClaimsSet`] objects.
#[derive(Default)]
pub struct ClaimsSetBuilder(ClaimsSet);

impl ClaimsSetBuilder {
    
        /// Constructor for builder.
        pub fn new() -> Self {
            Self(<ClaimsSet>::default())
        }
        /// Build the completed object.
        pub fn build(self) -> ClaimsSet {
            self.0
        }
    
    
        /// Set the associated field.
        #[must_use]
        pub fn issuer(self, issuer: String) -> Self { let mut self_ = self;
            self_.0.issuer = Some(issuer);
            self_
        }
    
    
        /// Set the associated field.
        #[must_use]
        pub fn subject(self, subject: String) -> Self { let mut self_ = self;
            self_.0.subject = Some(subject);
            self_
        }
    
    
        /// Set the associated field.
        #[must_use]
        pub fn audience(self, audience: String) -> Self { let mut self_ = self;
            self_.0.audience = Some(audience);
            self_
        }
    
    
        /// Set the associated field.
        #[must_use]
        pub fn expiration_time(self, expiration_time: Timestamp) -> Self { let mut self_ = self;
            self_.0.expiration_time = Some(expiration_time);
            self_
        }
    
    
        /// Set the associated field.
        #[must_use]
        pub fn not_before(self, not_before: Timestamp) -> Self { let mut self_ = self;
            self_.0.not_before = Some(not_before);
            self_
        }
    
    
        /// Set the associated field.
        #[must_use]
        pub fn issued_at(self, issued_at: Timestamp) -> Self { let mut self_ = self;
            self_.0.issued_at = Some(issued_at);
            self_
        }
    
    
        /// Set the associated field.
        #[must_use]
        pub fn cwt_id(self, cwt_id: Vec<u8>) -> Self { let mut self_ = self;
            self_.0.cwt_id = Some(cwt_id);
            self_
        }
    

    /// Set a claim name:value pair.
    ///
    /// # Panics
    ///
    /// This function will panic if it used to set a claim with name from the range [1, 7].
    #[must_use]
    pub fn claim(self, name: iana::CwtClaimName, value: Value) ->« (r:» Self«)
        requires !(1 <= name.spec_to_i64() <= 7),
        ensures r.inner() == (ClaimsSet { rest: r.inner().rest, ..self.inner() }), r.inner().rest@ == self.inner().rest@.push((ClaimName::Assigned(name), value)),» { let mut self_ = self;
        if name.to_i64() >= iana::CwtClaimName::Iss.to_i64()
            && name.to_i64() <= iana::CwtClaimName::Cti.to_i64()
        {
            panic!("claim() method used to set core claim"); // safe: invalid input
        }
        self_.0.rest.push((ClaimName::Assigned(name), value));
        self_
    }

    /// Set a claim name:value pair where the `name` is text.
    #[must_use]
    pub fn text_claim(self, name: String, value: Value) ->« (r:» Self«)
        ensures r.inner() == (ClaimsSet { rest: r.inner().rest, ..self.inner() }), r.inner().rest@ == self.inner().rest@.push((ClaimName::Text(name), value)),» { let mut self_ = self;
        self_.0.rest.push((ClaimName::Text(name), value));
        self_
    }

    /// Set a claim  where the claim key is a numeric value from the private use range.
    ///
    /// # Panics
    ///
    /// This function will panic if it is used to set a claim with a key value outside of the
    /// private use range.
    #[must_use]
    pub fn private_claim(self, id: i64, value: Value) ->« (r:» Self«)
        requires id < -65536,
        ensures r.inner() == (ClaimsSet { rest: r.inner().rest, ..self.inner() }), r.inner().rest@ == self.inner().rest@.push((ClaimName::PrivateUse(id), value)),» { let mut self_ = self;
        assert!(iana::CwtClaimName::is_private(id));
        self_.0.rest.push((ClaimName::PrivateUse(id), value));
        self_
    }
}
