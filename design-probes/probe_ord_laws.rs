#![allow(unused_imports, dead_code)]
extern crate alloc;
use vstd::prelude::*;
use vstd::std_specs::cmp::*;
use alloc::{collections::BTreeSet, string::String, vec, vec::Vec};
use core::cmp::Ordering;
verus! {
#[derive(Debug, Eq, PartialEq)]
pub enum Label { Int(i64), Tx(u8) }

pub open spec fn rank(i: i64) -> int { if i >= 0 { i as int } else { 0x8000_0000_0000_0000 + (-1 - i) } }
pub open spec fn label_cmp(a: Label, b: Label) -> Ordering {
    match (a, b) {
        (Label::Int(x), Label::Int(y)) => if rank(x) < rank(y) { Ordering::Less } else if rank(x) == rank(y) { Ordering::Equal } else { Ordering::Greater },
        (Label::Int(_), Label::Tx(_)) => Ordering::Less,
        (Label::Tx(_), Label::Int(_)) => Ordering::Greater,
        (Label::Tx(x), Label::Tx(y)) => if x < y { Ordering::Less } else if x == y { Ordering::Equal } else { Ordering::Greater },
    }
}
impl PartialEqSpecImpl for Label {
    open spec fn obeys_eq_spec() -> bool { true }
    open spec fn eq_spec(&self, other: &Self) -> bool { *self == *other }
}
impl OrdSpecImpl for Label {
    open spec fn obeys_cmp_spec() -> bool { true }
    open spec fn cmp_spec(&self, other: &Self) -> Ordering { label_cmp(*self, *other) }
}
impl PartialOrdSpecImpl for Label {
    open spec fn obeys_partial_cmp_spec() -> bool { true }
    open spec fn partial_cmp_spec(&self, other: &Self) -> Option<Ordering> { Some(label_cmp(*self, *other)) }
}
pub assume_specification [ i64::signum ] (i: i64) -> (r: i64)
    ensures r == (if i > 0 { 1i64 } else if i == 0 { 0i64 } else { -1i64 });

impl Ord for Label {
    fn cmp(&self, other: &Self) -> Ordering {
        match (self, other) {
            (Label::Int(i1), Label::Int(i2)) => match (i1.signum(), i2.signum()) {
                (-1, -1) => i2.cmp(i1),
                (-1, 0) => Ordering::Greater,
                (-1, 1) => Ordering::Greater,
                (0, -1) => Ordering::Less,
                (0, 0) => Ordering::Equal,
                (0, 1) => Ordering::Less,
                (1, -1) => Ordering::Less,
                (1, 0) => Ordering::Greater,
                (1, 1) => i1.cmp(i2),
                (_, _) => unreachable!(), // safe: all possibilies covered
            },
            (Label::Int(_i1), Label::Tx(_t2)) => Ordering::Less,
            (Label::Tx(_t1), Label::Int(_i2)) => Ordering::Greater,
            (Label::Tx(t1), Label::Tx(t2)) => t1.cmp(t2),
        }
    }
}
impl PartialOrd for Label {
    fn partial_cmp(&self, other: &Self) -> Option<Ordering> {
        Some(self.cmp(other))
    }
}
proof fn laws()
    ensures vstd::laws_cmp::obeys_cmp::<Label>()
{
    reveal(vstd::laws_eq::obeys_eq_spec_properties);
    reveal(vstd::laws_cmp::obeys_cmp_partial_ord);
    reveal(vstd::laws_cmp::obeys_cmp_ord);
    reveal(vstd::laws_cmp::obeys_partial_cmp_spec_properties);
}
fn use_set(s: &mut BTreeSet<Label>, k: Label) -> (r: bool)
   ensures r == !old(s)@.contains(k)
{
    broadcast use vstd::std_specs::btree::group_btree_axioms;
    proof { laws(); }
    s.insert(k)
}
}
fn main(){}
