// Contract stubs for the recursion back edges Verus rejects as cyclic (DESIGN.md 2.4, R6).
// Each stub's body IS the real call; the stub only carries the callee's contract.
mod vstubs {
use vstd::prelude::*;
use crate::*;
use ciborium::value::Value;
use crate::vprelude::*;
verus!{
#[verifier::external_body] pub fn sig_to_cbor_value__stub(s: CoseSignature) -> (r: Result<Value>)
    ensures r is Ok <==> crate::header::sig_encodable(s), r matches Ok(v) ==> vv(v) == crate::header::sig_cv(s),
{ s.to_cbor_value() }
#[verifier::external_body] pub fn sigs_to_cbor_array__stub(s: alloc::vec::Vec<CoseSignature>) -> (r: Result<Value>)
    ensures
        r is Ok <==> (forall |i: int| 0 <= i < s@.len() ==> crate::header::sig_encodable(#[trigger] s@[i])),
        r matches Ok(v) ==> (v matches Value::Array(a) && a@.len() == s@.len() && forall |i: int| 0 <= i < a@.len() ==> vv(#[trigger] a@[i]) == crate::header::sig_cv(s@[i])),
{ crate::util::to_cbor_array(s) }
#[verifier::external_body] pub fn recipient_from_cbor_value__stub(v: Value) -> (r: Result<CoseRecipient>)
    ensures (r is Ok <==> crate::encrypt::recipient_ok(v)) && (r matches Ok(x) ==> crate::encrypt::recipient_res(v, x)),
{ CoseRecipient::from_cbor_value(v) }
#[verifier::external_body] pub fn recipients_to_cbor_array__stub(s: alloc::vec::Vec<CoseRecipient>) -> (r: Result<Value>)
    ensures r is Ok <==> crate::encrypt::recipients_encodable(s@), r matches Ok(v) ==> vv(v) == crate::encrypt::recipients_cv(s@),
{ crate::util::to_cbor_array(s) }
// ---- A-REC: each stub's contract is met by the real callee (partial-correctness rule for the cut back edges)
pub fn check_recipient_from_cbor_value_stub(v: Value) -> (r: Result<CoseRecipient>)
    ensures (r is Ok <==> crate::encrypt::recipient_ok(v)) && (r matches Ok(x) ==> crate::encrypt::recipient_res(v, x)),
{ CoseRecipient::from_cbor_value(v) }
pub fn check_recipients_to_cbor_array_stub(s: alloc::vec::Vec<CoseRecipient>) -> (r: Result<Value>)
    ensures r is Ok <==> crate::encrypt::recipients_encodable(s@), r matches Ok(v) ==> vv(v) == crate::encrypt::recipients_cv(s@),
{
    let r = crate::util::to_cbor_array(s);
    proof { if r is Ok { crate::encrypt::lemma_recipients_array(s, r->Ok_0); } else { crate::encrypt::lemma_recipients_array_err(s, r->Err_0); } }
    r
}
pub fn check_sig_to_cbor_value_stub(s: CoseSignature) -> (r: Result<Value>)
    ensures r is Ok <==> crate::header::sig_encodable(s), r matches Ok(v) ==> vv(v) == crate::header::sig_cv(s),
{ s.to_cbor_value() }
pub fn check_sigs_to_cbor_array_stub(s: alloc::vec::Vec<CoseSignature>) -> (r: Result<Value>)
    ensures
        r is Ok <==> (forall |i: int| 0 <= i < s@.len() ==> crate::header::sig_encodable(#[trigger] s@[i])),
        r matches Ok(v) ==> (v matches Value::Array(a) && a@.len() == s@.len() && forall |i: int| 0 <= i < a@.len() ==> vv(#[trigger] a@[i]) == crate::header::sig_cv(s@[i])),
{
    broadcast use crate::util::axiom_iter_enc_ok_vec;
    broadcast use crate::util::axiom_iter_enc_err_vec;
    crate::util::to_cbor_array(s)
}
}
}
