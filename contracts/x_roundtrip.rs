// C07 / C11: decode(encode(h)) gives back h, for header maps WITHOUT counter signatures (the recursive case is not proved).
// Bridges the functional encode spec (CV level) and the decode relations (Value level).
mod vroundtrip {
use vstd::prelude::*;
use crate::*;
use crate::vprelude::*;
use crate::header::*;
use crate::common::{label_of, reg_of, regp_of, label_cv, reg_cv, regp_cv, wf_regp, nonempty_bytes};
use crate::iana::{EnumI64, WithPrivateRange};
use ciborium::value::Value;
verus!{
// ---- a Value is determined (as far as the decoders look) by its data-model view
pub proof fn lemma_vv_int(v: Value, n: int)
    requires vv(v) == CV::Int(n),
    ensures v matches Value::Integer(x) && int_val(x) == n,
{ reveal_with_fuel(vv, 1); }
pub proof fn lemma_vv_text(v: Value, s: Seq<char>)
    requires vv(v) == CV::Text(s),
    ensures v matches Value::Text(t) && t@ == s,
{ reveal_with_fuel(vv, 1); }
pub proof fn lemma_vv_bytes(v: Value, b: Seq<u8>)
    requires vv(v) == CV::Bytes(b),
    ensures v matches Value::Bytes(x) && x@ == b,
{ reveal_with_fuel(vv, 1); }
pub proof fn lemma_vv_array_shape(v: Value, s: Seq<CV>)
    requires vv(v) == CV::Array(s),
    ensures v is Array, arr_of(v).len() == s.len(), forall |j: int| 0 <= j < s.len() ==> vv(#[trigger] arr_of(v)[j]) == s[j],
{
    reveal_with_fuel(vv, 1);
    match v { Value::Array(a) => { lemma_vv_array(a); assert(vv_seq(a@) == s); assert forall |j: int| 0 <= j < s.len() implies vv(#[trigger] arr_of(v)[j]) == s[j] by { assert(vv_seq(a@)[j] == vv(a@[j])); } } _ => {} }
}
pub proof fn lemma_vv_map_shape(v: Value, m: Seq<(CV, CV)>)
    requires vv(v) == CV::Map(m),
    ensures v is Map, map_of(v).len() == m.len(), forall |j: int| 0 <= j < m.len() ==> (vv((#[trigger] map_of(v)[j]).0), vv(map_of(v)[j].1)) == m[j],
{
    reveal_with_fuel(vv, 1);
    match v { Value::Map(a) => { lemma_vv_map(a); assert(vv_pairs(a@) == m); assert forall |j: int| 0 <= j < m.len() implies (vv((#[trigger] map_of(v)[j]).0), vv(map_of(v)[j].1)) == m[j] by { lemma_vv_pairs_index(a@, j); } } _ => {} }
}
pub proof fn lemma_label_of_cv(k: Value, l: Label)
    requires vv(k) == label_cv(l),
    ensures label_of(k) == Some(l),
{
    broadcast use axiom_string_ext;
    match l { Label::Int(i) => { lemma_vv_int(k, i as int); } Label::Text(t) => { lemma_vv_text(k, t@); } }
}
pub proof fn lemma_label_cv_of(k: Value, l: Label)
    requires label_of(k) == Some(l),
    ensures vv(k) == label_cv(l),
{ reveal_with_fuel(vv, 1); }
pub proof fn lemma_regp_of_cv<T: EnumI64 + WithPrivateRange>(v: Value, a: crate::RegisteredLabelWithPrivate<T>)
    requires vv(v) == regp_cv(a), wf_regp(a),
    ensures regp_of::<T>(v) == Some(a),
{
    broadcast use axiom_string_ext;
    T::lemma_enum_laws();
    match a {
        crate::RegisteredLabelWithPrivate::PrivateUse(i) => { lemma_vv_int(v, i as int); }
        crate::RegisteredLabelWithPrivate::Assigned(x) => { lemma_vv_int(v, x.spec_to_i64() as int); }
        crate::RegisteredLabelWithPrivate::Text(t) => { lemma_vv_text(v, t@); }
    }
}
pub proof fn lemma_reg_of_cv<T: EnumI64>(v: Value, a: crate::RegisteredLabel<T>)
    requires vv(v) == reg_cv(a),
    ensures reg_of::<T>(v) == Some(a),
{
    broadcast use axiom_string_ext;
    T::lemma_enum_laws();
    match a {
        crate::RegisteredLabel::Assigned(x) => { lemma_vv_int(v, x.spec_to_i64() as int); }
        crate::RegisteredLabel::Text(t) => { lemma_vv_text(v, t@); }
    }
}
// ---- structure of the typed part of an encoded header
pub open spec fn tp(h: Header, n: int) -> bool { typed_present(h, Label::Int(n as i64)) }
pub proof fn lemma_typed_prefix_entries(h: Header, k: int)
    requires 0 <= k <= 7,
    ensures
        forall |i: int| 0 <= i < hdr_typed_prefix(h, k).len() ==> ((#[trigger] hdr_typed_prefix(h, k)[i]).0 matches CV::Int(n) && 1 <= n <= k
            && typed_present(h, Label::Int(n as i64)) && hdr_typed_prefix(h, k)[i].1 == hdr_typed_val(h, n)),
        forall |n: int| 1 <= n <= k && #[trigger] tp(h, n) ==> exists |i: int| 0 <= i < hdr_typed_prefix(h, k).len() && (#[trigger] hdr_typed_prefix(h, k)[i]).0 == CV::Int(n),
    decreases k
{
    reveal_with_fuel(hdr_typed_prefix, 1);
    if k > 0 {
        lemma_typed_prefix_entries(h, k - 1);
        let p = hdr_typed_prefix(h, k - 1); let e = hdr_typed_entry(h, k); let l = hdr_typed_prefix(h, k);
        assert(l == p + e);
        assert forall |i: int| 0 <= i < l.len() implies ((#[trigger] l[i]).0 matches CV::Int(n) && 1 <= n <= k && typed_present(h, Label::Int(n as i64)) && l[i].1 == hdr_typed_val(h, n)) by {
            if i < p.len() { assert(l[i] == p[i]); } else { assert(l[i] == e[i - p.len()]); }
        }
        assert forall |n: int| 1 <= n <= k && #[trigger] tp(h, n) implies exists |i: int| 0 <= i < l.len() && (#[trigger] l[i]).0 == CV::Int(n) by {
            if n < k { assert(tp(h, n)); let i = choose |i: int| 0 <= i < p.len() && (#[trigger] p[i]).0 == CV::Int(n); assert(l[i] == p[i]); }
            else { assert(l[p.len() as int] == e[0]); }
        }
    }
}
/// in-memory headers for which the flat round trip is stated: what decoding produces, minus counter signatures
pub open spec fn hdr_mem_ok_flat(h: Header) -> bool {
    (h.alg matches Some(a) ==> wf_regp(a))
    && (h.content_type matches Some(crate::RegisteredLabel::Text(t)) ==> ct_text_ok(t@))
    && !(h.iv@.len() > 0 && h.partial_iv@.len() > 0)
    && h.counter_signatures@.len() == 0
    && (forall |i: int, j: int| 0 <= i < j < h.rest@.len() ==> (#[trigger] h.rest@[i]).0 != (#[trigger] h.rest@[j]).0)
    && (forall |i: int| 0 <= i < h.rest@.len() ==> !is_typed_hdr_label((#[trigger] h.rest@[i]).0))
}
pub open spec fn hdr_same(a: Header, b: Header) -> bool {
    a.alg == b.alg && a.crit@ == b.crit@ && a.content_type == b.content_type && a.key_id@ == b.key_id@ && a.iv@ == b.iv@ && a.partial_iv@ == b.partial_iv@
    && a.counter_signatures@.len() == b.counter_signatures@.len() && a.rest@ == b.rest@
}
/// number of typed entries / total entries of the re-encoded map
pub open spec fn tlen(h: Header) -> int { hdr_typed_prefix(h, 7).len() as int }
/// entry i of the re-encoded map, seen by the decoder
proof fn lemma_encoded_pair(h: Header, v1: Value, d: nat, i: int)
    requires hdr_mem_ok_flat(h), vv(v1) == hdr_cv(h), 0 <= i < map_of(v1).len(),
    ensures
        v1 is Map, map_of(v1).len() == tlen(h) + h.rest@.len(),
        hdr_pair_ok(map_of(v1)[i].0, map_of(v1)[i].1, d),
        i < tlen(h) ==> (label_of(map_of(v1)[i].0) matches Some(Label::Int(n)) && 1 <= n <= 7 && tp(h, n as int) && vv(map_of(v1)[i].1) == hdr_typed_val(h, n as int)
                         && hdr_typed_prefix(h, 7)[i].0 == CV::Int(n as int)),
        i >= tlen(h) ==> (label_of(map_of(v1)[i].0) == Some(h.rest@[i - tlen(h)].0) && map_of(v1)[i].1 == h.rest@[i - tlen(h)].1),
{
    broadcast use axiom_vv_injective;
    reveal_with_fuel(hdr_cv, 2); reveal_with_fuel(hdr_typed_entries, 2); reveal_with_fuel(hdr_typed_prefix, 1); reveal(rest_entries);
    let t = hdr_typed_prefix(h, 7); let r = rest_entries(h.rest@); let e = t + r;
    assert(hdr_cv(h) == CV::Map(e));
    lemma_vv_map_shape(v1, e);
    lemma_typed_prefix_entries(h, 7);
    let k = map_of(v1)[i].0; let val = map_of(v1)[i].1;
    assert((vv(k), vv(val)) == e[i]);
    if i < t.len() {
        assert(e[i] == t[i]);
        let n = t[i].0->Int_0;
        lemma_label_of_cv(k, Label::Int(n as i64));
        reveal_with_fuel(hdr_typed_val, 1);
        if n == 1 { lemma_regp_of_cv::<iana::Algorithm>(val, h.alg->0); }
        else if n == 2 {
            lemma_vv_array_shape(val, crit_cv(h.crit@)->Array_0);
            assert forall |j: int| 0 <= j < arr_of(val).len() implies (#[trigger] reg_of::<iana::HeaderParameter>(arr_of(val)[j])) is Some by { lemma_reg_of_cv::<iana::HeaderParameter>(arr_of(val)[j], h.crit@[j]); }
            assert(crit_ok(val));
        }
        else if n == 3 { lemma_reg_of_cv::<iana::CoapContentFormat>(val, h.content_type->0); assert(ct_ok(val)); }
        else if n == 4 { lemma_vv_bytes(val, h.key_id@); }
        else if n == 5 { lemma_vv_bytes(val, h.iv@); }
        else if n == 6 { lemma_vv_bytes(val, h.partial_iv@); }
    } else {
        let j = i - t.len();
        assert(e[i] == r[j]);
        lemma_label_of_cv(k, h.rest@[j].0);
    }
}
proof fn lemma_encoded_len(h: Header, v1: Value)
    requires vv(v1) == hdr_cv(h),
    ensures v1 is Map, map_of(v1).len() == tlen(h) + h.rest@.len(),
{
    reveal_with_fuel(hdr_cv, 2); reveal_with_fuel(hdr_typed_entries, 2); reveal_with_fuel(hdr_typed_prefix, 1); reveal(rest_entries);
    let e = hdr_typed_prefix(h, 7) + rest_entries(h.rest@);
    assert(hdr_cv(h) == CV::Map(e));
    lemma_vv_map_shape(v1, e);
}
/// a present typed field sits at some typed position of the re-encoded map
proof fn lemma_encoded_typed_index(h: Header, v1: Value, d: nat, n: int) -> (i: int)
    requires hdr_mem_ok_flat(h), vv(v1) == hdr_cv(h), 1 <= n <= 7, tp(h, n),
    ensures 0 <= i < tlen(h), i < map_of(v1).len(), label_of(map_of(v1)[i].0) == Some(Label::Int(n as i64)), vv(map_of(v1)[i].1) == hdr_typed_val(h, n),
{
    lemma_typed_prefix_entries(h, 7);
    let t = hdr_typed_prefix(h, 7);
    let i = choose |i: int| 0 <= i < t.len() && (#[trigger] t[i]).0 == CV::Int(n);
    // the map has at least the typed entries
    reveal_with_fuel(hdr_cv, 2); reveal_with_fuel(hdr_typed_entries, 2); reveal_with_fuel(hdr_typed_prefix, 1);
    lemma_vv_map_shape(v1, t + rest_entries(h.rest@));
    lemma_encoded_pair(h, v1, d, i);
    i
}
proof fn lemma_encoded_labels_distinct(h: Header, v1: Value, d: nat)
    requires hdr_mem_ok_flat(h), vv(v1) == hdr_cv(h),
    ensures hdr_labels_distinct(map_of(v1)),
{
    reveal(hdr_labels_distinct);
    let m = map_of(v1); let tl = tlen(h);
    lemma_typed_prefix_keys(h, 7);
    let t = hdr_typed_prefix(h, 7);
    assert forall |i: int, j: int| 0 <= i < j < m.len() implies #[trigger] label_of(m[i].0) != #[trigger] label_of(m[j].0) by {
        lemma_encoded_pair(h, v1, d, i); lemma_encoded_pair(h, v1, d, j);
        if j < tl { assert(t[i].0->Int_0 < t[j].0->Int_0); }
        else if i >= tl { assert(h.rest@[i - tl].0 != h.rest@[j - tl].0); }
        else { assert(is_typed_hdr_label(label_of(m[i].0)->0)); assert(!is_typed_hdr_label(h.rest@[j - tl].0)); }
    }
}
proof fn lemma_encoded_presence(h: Header, v1: Value, d: nat, n: int)
    requires hdr_mem_ok_flat(h), vv(v1) == hdr_cv(h), 1 <= n <= 7,
    ensures has_label(map_of(v1), map_of(v1).len() as int, Label::Int(n as i64)) <==> tp(h, n),
{
    let m = map_of(v1); let tl = tlen(h);
    if tp(h, n) { let i = lemma_encoded_typed_index(h, v1, d, n); }
    if has_label(m, m.len() as int, Label::Int(n as i64)) {
        let i = choose |i: int| 0 <= i < m.len() && #[trigger] label_of(m[i].0) == Some(Label::Int(n as i64));
        lemma_encoded_pair(h, v1, d, i);
        if i >= tl { assert(!is_typed_hdr_label(h.rest@[i - tl].0)); }
    }
}
/// the extras of the re-encoded map are exactly the header's extras, in order
proof fn lemma_rest_of_encoded(h: Header, v1: Value, d: nat, n: int)
    requires hdr_mem_ok_flat(h), vv(v1) == hdr_cv(h), 0 <= n <= map_of(v1).len(),
    ensures
        n <= tlen(h) ==> rest_of(map_of(v1).subrange(0, n)) == Seq::<(Label, Value)>::empty(),
        n >= tlen(h) ==> rest_of(map_of(v1).subrange(0, n)) == h.rest@.subrange(0, n - tlen(h)),
    decreases n
{
    let m = map_of(v1); let tl = tlen(h);
    if n == 0 {
        assert(m.subrange(0, 0) =~= Seq::<(Value, Value)>::empty());
        assert(h.rest@.subrange(0, 0) =~= Seq::<(Label, Value)>::empty());
    } else {
        lemma_rest_of_encoded(h, v1, d, n - 1);
        lemma_encoded_pair(h, v1, d, n - 1);
        let s = m.subrange(0, n);
        assert(s.drop_last() =~= m.subrange(0, n - 1));
        assert(s.last() == m[n - 1]);
        if n - 1 < tl { assert(is_typed_hdr_label(label_of(m[n - 1].0)->0)); if n == tl { assert(h.rest@.subrange(0, 0) =~= Seq::<(Label, Value)>::empty()); } }
        else {
            let j = n - 1 - tl;
            assert(0 <= j < h.rest@.len());
            assert(!is_typed_hdr_label(h.rest@[j].0));
            assert(h.rest@.subrange(0, j + 1) =~= h.rest@.subrange(0, j).push(h.rest@[j]));
        }
    }
}
/// C07/C11 for header maps without counter signatures: the re-encoding is accepted ...
pub proof fn lemma_header_reencoding_accepted(h: Header, v1: Value, d: nat)
    requires hdr_mem_ok_flat(h), vv(v1) == hdr_cv(h),
    ensures hdr_ok(v1, d),
{
    let m = map_of(v1);
    lemma_encoded_len(h, v1);
    assert forall |i: int| 0 <= i < m.len() implies hdr_pair_ok(#[trigger] m[i].0, m[i].1, d) by { lemma_encoded_pair(h, v1, d, i); }
    lemma_encoded_labels_distinct(h, v1, d);
    lemma_encoded_presence(h, v1, d, 5); lemma_encoded_presence(h, v1, d, 6);
}
/// ... and decodes to the same header
pub proof fn lemma_header_reencoding_same(h: Header, v1: Value, d: nat, h1: Header)
    requires hdr_mem_ok_flat(h), vv(v1) == hdr_cv(h), hdr_res(v1, d, h1),
    ensures hdr_same(h1, h),
{
    let m = map_of(v1);
    reveal(hdr_flat_ok);
    lemma_rest_of_encoded(h, v1, d, m.len() as int);
    lemma_encoded_len(h, v1);
    assert(m.subrange(0, m.len() as int) =~= m);
    assert(h.rest@.subrange(0, h.rest@.len() as int) =~= h.rest@);
    lemma_encoded_presence(h, v1, d, 1); lemma_encoded_presence(h, v1, d, 2); lemma_encoded_presence(h, v1, d, 3); lemma_encoded_presence(h, v1, d, 4);
    lemma_encoded_presence(h, v1, d, 5); lemma_encoded_presence(h, v1, d, 6); lemma_encoded_presence(h, v1, d, 7);
    reveal_with_fuel(hdr_typed_val, 1);
    if h.alg is Some { let i = lemma_encoded_typed_index(h, v1, d, 1); lemma_regp_of_cv::<iana::Algorithm>(m[i].1, h.alg->0); }
    if h.content_type is Some { let i = lemma_encoded_typed_index(h, v1, d, 3); lemma_reg_of_cv::<iana::CoapContentFormat>(m[i].1, h.content_type->0); }
    if h.key_id@.len() > 0 { let i = lemma_encoded_typed_index(h, v1, d, 4); lemma_vv_bytes(m[i].1, h.key_id@); }
    if h.iv@.len() > 0 { let i = lemma_encoded_typed_index(h, v1, d, 5); lemma_vv_bytes(m[i].1, h.iv@); }
    if h.partial_iv@.len() > 0 { let i = lemma_encoded_typed_index(h, v1, d, 6); lemma_vv_bytes(m[i].1, h.partial_iv@); }
    if h.crit@.len() > 0 {
        let i = lemma_encoded_typed_index(h, v1, d, 2);
        lemma_vv_array_shape(m[i].1, crit_cv(h.crit@)->Array_0);
        assert forall |j: int| 0 <= j < h.crit@.len() implies h1.crit@[j] == h.crit@[j] by { lemma_reg_of_cv::<iana::HeaderParameter>(arr_of(m[i].1)[j], h.crit@[j]); }
    }
    assert(h1.crit@ =~= h.crit@);
    assert(h1.key_id@ =~= h.key_id@); assert(h1.iv@ =~= h.iv@); assert(h1.partial_iv@ =~= h.partial_iv@);
    assert(h1.alg == h.alg);
    assert(h1.content_type == h.content_type);
    assert(h1.counter_signatures@.len() == 0);
    lemma_encoded_len(h, v1);
    assert(h1.rest@ == rest_of(m.subrange(0, m.len() as int)));
    assert(h.rest@.subrange(0, m.len() - tlen(h)) =~= h.rest@);
    assert(h1.rest@ == h.rest@);
}
// ---- putting it together for decoded headers (no counter signatures)
pub open spec fn no_csig(v: Value) -> bool { !has_label(map_of(v), map_of(v).len() as int, Label::Int(7)) }
/// what decoding produced satisfies the in-memory conditions of the round trip
pub proof fn lemma_decoded_header_mem_ok_flat(v: Value, d: nat, h: Header)
    requires hdr_ok(v, d), hdr_res(v, d, h), no_csig(v),
    ensures hdr_mem_ok_flat(h),
{
    reveal(hdr_flat_ok);
    let m = map_of(v);
    lemma_rest_of_props(m);
    assert(m.subrange(0, m.len() as int) =~= m);
    if h.alg is Some { let i = choose |i: int| 0 <= i < m.len() && #[trigger] label_of(m[i].0) == Some(Label::Int(1)); assert(hdr_pair_ok(m[i].0, m[i].1, d)); }
    if h.content_type is Some { let i = choose |i: int| 0 <= i < m.len() && #[trigger] label_of(m[i].0) == Some(Label::Int(3)); assert(hdr_pair_ok(m[i].0, m[i].1, d)); }
    if h.iv@.len() > 0 && h.partial_iv@.len() > 0 { assert(false); }
}
/// the decode result is a function of the wire value (headers without counter signatures)
pub proof fn lemma_hdr_res_deterministic_flat(v: Value, d: nat, h1: Header, h2: Header)
    requires hdr_res(v, d, h1), hdr_res(v, d, h2), no_csig(v),
    ensures hdr_same(h1, h2),
{
    reveal(hdr_flat_ok);
    let m = map_of(v);
    if has_label(m, m.len() as int, Label::Int(2)) {
        let i = choose |i: int| 0 <= i < m.len() && #[trigger] label_of(m[i].0) == Some(Label::Int(2));
        assert(crit_res(h1.crit@, m[i].1) && crit_res(h2.crit@, m[i].1));
        assert forall |j: int| 0 <= j < h1.crit@.len() implies h1.crit@[j] == h2.crit@[j] by { assert(reg_of::<iana::HeaderParameter>(arr_of(m[i].1)[j]) == Some(h1.crit@[j])); }
    }
    assert(h1.crit@ =~= h2.crit@);
    if has_label(m, m.len() as int, Label::Int(4)) { let i = choose |i: int| 0 <= i < m.len() && #[trigger] label_of(m[i].0) == Some(Label::Int(4)); assert(m[i].1 == Value::Bytes(h1.key_id)); }
    if has_label(m, m.len() as int, Label::Int(5)) { let i = choose |i: int| 0 <= i < m.len() && #[trigger] label_of(m[i].0) == Some(Label::Int(5)); assert(m[i].1 == Value::Bytes(h1.iv)); }
    if has_label(m, m.len() as int, Label::Int(6)) { let i = choose |i: int| 0 <= i < m.len() && #[trigger] label_of(m[i].0) == Some(Label::Int(6)); assert(m[i].1 == Value::Bytes(h1.partial_iv)); }
    if has_label(m, m.len() as int, Label::Int(1)) { let i = choose |i: int| 0 <= i < m.len() && #[trigger] label_of(m[i].0) == Some(Label::Int(1)); assert(h1.alg == regp_of::<iana::Algorithm>(m[i].1)); }
    if has_label(m, m.len() as int, Label::Int(3)) { let i = choose |i: int| 0 <= i < m.len() && #[trigger] label_of(m[i].0) == Some(Label::Int(3)); assert(h1.content_type == reg_of::<iana::CoapContentFormat>(m[i].1)); }
    assert(h1.key_id@ =~= h2.key_id@); assert(h1.iv@ =~= h2.iv@); assert(h1.partial_iv@ =~= h2.partial_iv@);
}
/// headers with equal views encode to the same data-model value
proof fn lemma_prefix_same(a: Header, b: Header, k: int)
    requires hdr_same(a, b), a.counter_signatures@.len() == 0, 0 <= k <= 7,
    ensures hdr_typed_prefix(a, k) == hdr_typed_prefix(b, k),
    decreases k
{
    reveal_with_fuel(hdr_typed_prefix, 1); reveal_with_fuel(hdr_typed_val, 1);
    if k > 0 {
        lemma_prefix_same(a, b, k - 1);
        assert(typed_present(a, Label::Int(k as i64)) == typed_present(b, Label::Int(k as i64)));
        if typed_present(a, Label::Int(k as i64)) { assert(hdr_typed_val(a, k) == hdr_typed_val(b, k)); }
        assert(hdr_typed_entry(a, k) == hdr_typed_entry(b, k));
    }
}
pub proof fn lemma_hdr_cv_same(a: Header, b: Header)
    requires hdr_same(a, b), a.counter_signatures@.len() == 0,
    ensures hdr_cv(a) == hdr_cv(b),
{
    lemma_prefix_same(a, b, 7);
    reveal_with_fuel(hdr_cv, 2); reveal_with_fuel(hdr_typed_entries, 2); reveal_with_fuel(hdr_typed_prefix, 1); reveal(rest_entries);
    assert(rest_entries(a.rest@) =~= rest_entries(b.rest@));
}
/// C07 for header maps without counter signatures: decode -> encode -> decode gives the same header, and encoding it again the same value
pub proof fn lemma_header_fixed_point_flat(v: Value, d: nat, h: Header, v1: Value, h1: Header)
    requires hdr_ok(v, d), hdr_res(v, d, h), no_csig(v), vv(v1) == hdr_cv(h), hdr_res(v1, d, h1),
    ensures hdr_encodable(h), hdr_ok(v1, d), hdr_same(h1, h), hdr_cv(h1) == hdr_cv(h),
{
    lemma_decoded_header_encodable(v, d, h);
    lemma_decoded_header_mem_ok_flat(v, d, h);
    lemma_header_reencoding_accepted(h, v1, d);
    lemma_header_reencoding_same(h, v1, d, h1);
    lemma_hdr_cv_same(h1, h);
}
// ---- COSE_Sign1 end to end (headers without counter signatures)
pub open spec fn prot_no_csig(v: Value) -> bool { bytes_of(v).len() > 0 ==> (crate::common::parse_all(bytes_of(v)) matches Some(v2) && no_csig(v2)) }
pub open spec fn prot_same(a: ProtectedHeader, b: ProtectedHeader) -> bool {
    a.original_data is Some && b.original_data is Some && a.original_data->0@ == b.original_data->0@ && hdr_same(a.header, b.header)
}
pub open spec fn opt_same(a: Option<Vec<u8>>, b: Option<Vec<u8>>) -> bool { (a is Some <==> b is Some) && (a is Some ==> a->0@ == b->0@) }
pub open spec fn sign1_same(a: CoseSign1, b: CoseSign1) -> bool {
    prot_same(a.protected, b.protected) && hdr_same(a.unprotected, b.unprotected) && opt_same(a.payload, b.payload) && a.signature@ == b.signature@
}
/// C07: b decodes to x, x encodes to v1 (vv(v1) == sign1_cv(x)); then v1 is accepted, decodes to a value equal to x
/// (including the retained protected bytes) and that value encodes to the same data-model value again
pub proof fn lemma_sign1_fixed_point(v: Value, x: CoseSign1, v1: Value, x1: CoseSign1)
    requires
        crate::sign::sign1_ok(v), crate::sign::sign1_res(v, x), no_csig(arr_of(v)[1]), prot_no_csig(arr_of(v)[0]),
        vv(v1) == crate::sign::sign1_cv(x), crate::sign::sign1_res(v1, x1),
    ensures
        crate::sign::sign1_encodable(x), crate::sign::sign1_ok(v1), sign1_same(x1, x), crate::sign::sign1_cv(x1) == crate::sign::sign1_cv(x),
{
    broadcast use axiom_vv_injective;
    let a = arr_of(v);
    let cv = crate::sign::sign1_cv(x);
    lemma_vv_array_shape(v1, cv->Array_0);
    let a1 = arr_of(v1);
    assert(a1.len() == 4);
    // slot 0: the same byte string Value as on the wire
    let orig = x.protected.original_data->0;
    assert(a[0] == Value::Bytes(orig));
    assert(prot_slot(x.protected) == orig@);
    lemma_vv_bytes(a1[0], orig@);
    assert(vv(a[0]) == vv(a1[0])) by { reveal_with_fuel(vv, 1); }
    assert(a1[0] == a[0]);
    // slot 1
    lemma_header_fixed_point_flat(a[1], 0, x.unprotected, a1[1], x1.unprotected);
    // slot 2, 3
    assert(vv(a1[2]) == opt_bytes_cv(x.payload));
    match x.payload { Some(pl) => { lemma_vv_bytes(a1[2], pl@); } None => { reveal_with_fuel(vv, 1); assert(a1[2] is Null); } }
    lemma_vv_bytes(a1[3], x.signature@);
    assert(crate::sign::sign1_ok(v1));
    // the re-decoded value
    if orig@.len() > 0 {
        let v2 = crate::common::parse_all(orig@)->0;
        lemma_hdr_res_deterministic_flat(v2, 1, x1.protected.header, x.protected.header);
    } else {
        assert(hdr_same(x1.protected.header, x.protected.header)) by {
            assert(x1.protected.header.crit@ =~= x.protected.header.crit@); assert(x1.protected.header.key_id@ =~= x.protected.header.key_id@);
            assert(x1.protected.header.iv@ =~= x.protected.header.iv@); assert(x1.protected.header.partial_iv@ =~= x.protected.header.partial_iv@);
            assert(x1.protected.header.rest@ =~= x.protected.header.rest@);
        }
    }
    assert(sign1_same(x1, x));
    assert(prot_slot(x1.protected) == prot_slot(x.protected));
    assert(crate::sign::sign1_cv(x1)->Array_0 =~= cv->Array_0);
}
}
}
