#!/bin/bash
# usage: mut.sh <file under src> <python-regex-old> <new> [runverus args...]  -- dev helper: verify a mutated scratch copy
rm -rf /tmp/mrepo && mkdir -p /tmp/mrepo && cp -r ${COSET_BASE:-/repo}/src /tmp/mrepo/src
python3 - "$1" "$2" "$3" <<'PY'
import sys,re
f,old,new=sys.argv[1:4]
p='/tmp/mrepo/src/'+f
s=open(p).read()
assert s.count(old)>=1, 'pattern not found'
s=s.replace(old,new,1)
open(p,'w').write(s)
PY
[ $? -eq 0 ] || exit 3
COSET_REPO=/tmp/mrepo python3 /verif/tools/runverus.py "${@:4}" 2>&1 | grep -E "class|FAIL|^ERR" | head -20
rm -rf /tmp/mrepo
