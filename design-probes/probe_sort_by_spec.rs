#![allow(unused_imports, dead_code)]
extern crate alloc;
use vstd::prelude::*;
use alloc::{vec, vec::Vec};
use core::cmp::Ordering;
verus! {
pub struct K { pub a: u64, pub b: u8 }
pub uninterp spec fn marker(x: K, y: K) -> bool;
pub assume_specification<T, F: FnMut(&T, &T) -> Ordering> [ <[T]>::sort_by ] (s: &mut [T], f: F)
    ensures
        final(s)@.len() == old(s)@.len(),
        forall |i: int, j: int| #![trigger final(s)@[i], final(s)@[j]] 0 <= i < j < final(s)@.len() ==>
            exists |o: Ordering| #![trigger call_ensures(f, (&final(s)@[i], &final(s)@[j]), o)] call_ensures(f, (&final(s)@[i], &final(s)@[j]), o) && !(o is Greater);
fn t1(k1: K, k2: K) requires k1.a <= k2.a {
    let f = |l: &K, r: &K| -> (o: Ordering) ensures o == (if l.a < r.a { Ordering::Less } else if l.a == r.a { Ordering::Equal } else { Ordering::Greater }) { l.a.cmp(&r.a) };
    assert(!call_ensures(f, (&k1, &k2), Ordering::Greater));
}
fn t3(v: &mut Vec<K>) requires old(v)@.len() >= 2 {
    let f = |l: &K, r: &K| -> (o: Ordering) ensures o == (if l.a < r.a { Ordering::Less } else if l.a == r.a { Ordering::Equal } else { Ordering::Greater }) { l.a.cmp(&r.a) };
    let ghost gf = f;
    v.sort_by(f);
    assert(v@[0].a <= v@[1].a);
}
fn t2(v: &mut Vec<K>) requires old(v)@.len() >= 2 {
    v.sort_by(|l: &K, r: &K| -> (o: Ordering) ensures o == (if l.a < r.a { Ordering::Less } else if l.a == r.a { Ordering::Equal } else { Ordering::Greater }) { l.a.cmp(&r.a) });
    assert(v@.len() >= 2);
    let ghost x = v@[0]; let ghost y = v@[1];
    assert(v@[0].a <= v@[1].a);
}
}
fn main(){}
