// Copyright 2021 Google LLC
//
// Licensed under the Apache License, Version 2.0 (the "License");
// you may not use this file except in compliance with the License.
// You may obtain a copy of the License at
//
//      http://www.apache.org/licenses/LICENSE-2.0
//
// Unless required by applicable law or agreed to in writing, software
// distributed under the License is distributed on an "AS IS" BASIS,
// WITHOUT WARRANTIES OR CONDITIONS OF ANY KIND, either express or implied.
// See the License for the specific language governing permissions and
// limitations under the License.
//
////////////////////////////////////////////////////////////////////////////////



use crate::{
    cbor::value::Value,
    common::AsCborValue,
    iana,
    iana::EnumI64,
    util::{cbor_type_error, to_cbor_array, ValueTryAs},
    Algorithm, CborSerializable, CoseError, CoseSignature, Label, RegisteredLabel, Result,
};
use alloc::{collections::BTreeSet, string::String, vec, vec::Vec};


/// Content type.
pub type ContentType = crate::RegisteredLabel<iana::CoapContentFormat>;

/// Structure representing a common COSE header map.
///
/// ```cddl
///   header_map = {
///       Generic_Headers,
///       * label => values
///   }
///
///   Generic_Headers = (
///       ? 1 => int / tstr,  ; algorithm identifier
///       ? 2 => [+label],    ; criticality
///       ? 3 => tstr / int,  ; content type
///       ? 4 => bstr,        ; key identifier
///       ? 5 => bstr,        ; IV
///       ? 6 => bstr,        ; Partial IV
///       ? 7 => COSE_Signature / [+COSE_Signature] ; Counter signature
///   )
///  ```
#[verifier::external_derive(Clone)]
#[derive(Clone, Debug, Default, PartialEq)]
pub struct Header {
    /// Cryptographic algorithm to use
    pub alg: Option<Algorithm>,
    /// Critical headers to be understood
    pub crit: Vec<RegisteredLabel<iana::HeaderParameter>>,
    /// Content type of the payload
    pub content_type: Option<ContentType>,
    /// Key identifier.
    pub key_id: Vec<u8>,
    /// Full initialization vector
    pub iv: Vec<u8>,
    /// Partial initialization vector
    pub partial_iv: Vec<u8>,
    /// Counter signature
    pub counter_signatures: Vec<CoseSignature>,
    /// Any additional header (label,value) pairs.  If duplicate labels are present, CBOR-encoding
    /// will fail.
    pub rest: Vec<(Label, Value)>,
}

impl Header {
    /// Indicate whether the `Header` is empty.
    pub fn is_empty(&self) ->« (r:» bool«)
        ensures r == hdr_is_empty(*self)» {
        self.alg.is_none()
            && self.crit.is_empty()
            && self.content_type.is_none()
            && self.key_id.is_empty()
            && self.iv.is_empty()
            && self.partial_iv.is_empty()
            && self.counter_signatures.is_empty()
            && self.rest.is_empty()
    }
}

impl crate::CborSerializable for Header {}«
pub open spec fn hdr_is_empty(h: Header) -> bool {
    h.alg is None && h.crit@.len() == 0 && h.content_type is None && h.key_id@.len() == 0 && h.iv@.len() == 0
    && h.partial_iv@.len() == 0 && h.counter_signatures@.len() == 0 && h.rest@.len() == 0
}
// ---- what a header encodes to (data-model value), as a function of the in-memory value
pub open spec fn opt_entry(present: bool, k: int, v: CV) -> Seq<(CV, CV)> {
    if present { seq![(CV::Int(k), v)] } else { Seq::<(CV, CV)>::empty() }
}
pub open spec fn typed_present(h: Header, l: Label) -> bool {
    (l == Label::Int(1) && h.alg is Some) || (l == Label::Int(2) && h.crit@.len() > 0) || (l == Label::Int(3) && h.content_type is Some)
    || (l == Label::Int(4) && h.key_id@.len() > 0) || (l == Label::Int(5) && h.iv@.len() > 0) || (l == Label::Int(6) && h.partial_iv@.len() > 0)
    || (l == Label::Int(7) && h.counter_signatures@.len() > 0)
}
pub open spec fn rest_labels_ok(h: Header) -> bool {
    (forall |i: int, j: int| 0 <= i < j < h.rest@.len() ==> (#[trigger] h.rest@[i]).0 != (#[trigger] h.rest@[j]).0)
    && (forall |i: int| 0 <= i < h.rest@.len() ==> !typed_present(h, (#[trigger] h.rest@[i]).0))
}
pub open spec fn crit_cv(c: Seq<RegisteredLabel<iana::HeaderParameter>>) -> CV { CV::Array(Seq::new(c.len(), |i: int| reg_cv(c[i]))) }
#[verifier::opaque]
pub open spec fn rest_entries(r: Seq<(Label, Value)>) -> Seq<(CV, CV)> { Seq::new(r.len(), |i: int| (label_cv(r[i].0), vv(r[i].1))) }
/// what the k-th typed field (k in 1..=7) encodes to
pub open spec fn hdr_typed_val(h: Header, k: int) -> CV
    decreases h, 1nat
{
    if k == 1 { regp_cv(h.alg->0) }
    else if k == 2 { crit_cv(h.crit@) }
    else if k == 3 { reg_cv(h.content_type->0) }
    else if k == 4 { CV::Bytes(h.key_id@) }
    else if k == 5 { CV::Bytes(h.iv@) }
    else if k == 6 { CV::Bytes(h.partial_iv@) }
    else if k == 7 { csigs_cv(h) }
    else { CV::Null }
}
/// the k-th typed entry (k in 1..=7) if populated
pub open spec fn hdr_typed_entry(h: Header, k: int) -> Seq<(CV, CV)>
    decreases h, 2nat
{ opt_entry(typed_present(h, Label::Int(k as i64)), k, hdr_typed_val(h, k)) }
/// the entries of the first k (0..=7) typed fields, in label order
#[verifier::opaque]
pub open spec fn hdr_typed_prefix(h: Header, k: int) -> Seq<(CV, CV)>
    decreases h, 3nat, k
{
    if k <= 0 { Seq::<(CV, CV)>::empty() } else { hdr_typed_prefix(h, k - 1) + hdr_typed_entry(h, k) }
}
pub open spec fn hdr_typed_entries(h: Header) -> Seq<(CV, CV)>
    decreases h, 4nat
{ hdr_typed_prefix(h, 7) }
pub open spec fn csigs_cv(h: Header) -> CV
    decreases h, 0nat
{
    if h.counter_signatures@.len() == 1 { sig_cv(h.counter_signatures@[0]) }
    else { CV::Array(Seq::new(h.counter_signatures@.len(), |i: int| if 0 <= i < h.counter_signatures@.len() { sig_cv(h.counter_signatures@[i]) } else { CV::Null })) }
}
pub open spec fn hdr_cv(h: Header) -> CV
    decreases h, 5nat
{ CV::Map(hdr_typed_entries(h) + rest_entries(h.rest@)) }
pub open spec fn sig_cv(s: CoseSignature) -> CV
    decreases s
{ CV::Array(seq![CV::Bytes(prot_slot(s.protected)), hdr_cv(s.unprotected), CV::Bytes(s.signature@)]) }
/// the byte string a protected header contributes to its carrier and to the to-be-signed/MACed/AAD structures
pub open spec fn prot_slot(p: ProtectedHeader) -> Seq<u8>
    decreases p
{
    match p.original_data {
        Some(o) => o@,
        None => if hdr_is_empty(p.header) { Seq::<u8>::empty() } else { crate::vprelude::enc(hdr_cv(p.header)) },
    }
}
pub open spec fn opt_label(present: bool, k: int) -> Seq<Option<Label>> {
    if present { seq![Some(Label::Int(k as i64))] } else { Seq::<Option<Label>>::empty() }
}
pub open spec fn hdr_typed_label(h: Header, k: int) -> Seq<Option<Label>> {
    opt_label(typed_present(h, Label::Int(k as i64)), k)
}
/// labels of the first k typed entries
#[verifier::opaque]
pub open spec fn hdr_typed_labels(h: Header, k: int) -> Seq<Option<Label>>
    decreases k
{
    if k <= 0 { Seq::<Option<Label>>::empty() } else { hdr_typed_labels(h, k - 1) + hdr_typed_label(h, k) }
}
#[verifier::opaque]
pub open spec fn labels_of(m: Seq<(Value, Value)>) -> Seq<Option<Label>> { Seq::new(m.len(), |i: int| label_of(m[i].0)) }
pub proof fn lemma_typed_labels_k(h: Header, x: Label, k: int)
    requires 0 <= k <= 7,
    ensures hdr_typed_labels(h, k).contains(Some(x)) <==> (typed_present(h, x) && (x matches Label::Int(n) && 1 <= n <= k)),
    decreases k
{
    reveal_with_fuel(hdr_typed_labels, 1);
    if k > 0 {
        lemma_typed_labels_k(h, x, k - 1);
        let p = hdr_typed_labels(h, k - 1);
        let e = hdr_typed_label(h, k);
        let l = hdr_typed_labels(h, k);
        assert(l == p + e);
        if l.contains(Some(x)) {
            let i = choose |i: int| 0 <= i < l.len() && l[i] == Some(x);
            if i < p.len() { assert(p[i] == Some(x)); assert(p.contains(Some(x))); } else { assert(e[i - p.len()] == Some(x)); }
        }
        if p.contains(Some(x)) { let i = choose |i: int| 0 <= i < p.len() && p[i] == Some(x); assert(l[i] == Some(x)); }
        if typed_present(h, x) && x == Label::Int(k as i64) { assert(l[p.len() as int] == Some(x)); }
    }
}
pub proof fn lemma_typed_labels(h: Header, x: Label)
    ensures hdr_typed_labels(h, 7).contains(Some(x)) <==> typed_present(h, x),
{ lemma_typed_labels_k(h, x, 7); }
pub proof fn lemma_hdr_step(h: Header, k: int, old: Seq<(Value, Value)>, key: Value, val: Value)
    requires
        1 <= k <= 7,
        vv_pairs(old) == hdr_typed_prefix(h, k - 1),
        labels_of(old) == hdr_typed_labels(h, k - 1),
        typed_present(h, Label::Int(k as i64)),
        vv(key) == CV::Int(k), label_of(key) == Some(Label::Int(k as i64)),
        vv(val) == hdr_typed_val(h, k),
    ensures
        vv_pairs(old.push((key, val))) == hdr_typed_prefix(h, k),
        labels_of(old.push((key, val))) == hdr_typed_labels(h, k),
{
    reveal_with_fuel(hdr_typed_prefix, 1); reveal_with_fuel(hdr_typed_labels, 1); reveal(labels_of);
    assert(hdr_typed_prefix(h, k) == hdr_typed_prefix(h, k - 1) + hdr_typed_entry(h, k));
    assert(hdr_typed_labels(h, k) == hdr_typed_labels(h, k - 1) + hdr_typed_label(h, k));
    lemma_vv_pairs_push(old, (key, val));
    assert(hdr_typed_entry(h, k) =~= seq![(CV::Int(k), hdr_typed_val(h, k))]);
    assert(vv_pairs(old.push((key, val))) =~= hdr_typed_prefix(h, k));
    assert(labels_of(old.push((key, val))) =~= hdr_typed_labels(h, k));
}
pub proof fn lemma_hdr_skip(h: Header, k: int, old: Seq<(Value, Value)>)
    requires
        1 <= k <= 7,
        vv_pairs(old) == hdr_typed_prefix(h, k - 1),
        labels_of(old) == hdr_typed_labels(h, k - 1),
        !typed_present(h, Label::Int(k as i64)),
    ensures
        vv_pairs(old) == hdr_typed_prefix(h, k),
        labels_of(old) == hdr_typed_labels(h, k),
{
    reveal_with_fuel(hdr_typed_prefix, 1); reveal_with_fuel(hdr_typed_labels, 1);
    assert(hdr_typed_prefix(h, k) == hdr_typed_prefix(h, k - 1) + hdr_typed_entry(h, k));
    assert(hdr_typed_labels(h, k) == hdr_typed_labels(h, k - 1) + hdr_typed_label(h, k));
    assert(hdr_typed_entry(h, k) =~= Seq::<(CV, CV)>::empty());
    assert(hdr_typed_prefix(h, k) =~= hdr_typed_prefix(h, k - 1));
    assert(hdr_typed_labels(h, k) =~= hdr_typed_labels(h, k - 1));
}
pub proof fn lemma_typed_labels_some(h: Header, k: int, i: int)
    requires 0 <= k <= 7, 0 <= i < hdr_typed_labels(h, k).len(),
    ensures hdr_typed_labels(h, k)[i] is Some,
    decreases k
{
    reveal_with_fuel(hdr_typed_labels, 1);
    if k > 0 {
        let p = hdr_typed_labels(h, k - 1);
        if i < p.len() { lemma_typed_labels_some(h, k - 1, i); }
    }
}
pub proof fn lemma_hdr_start(h: Header)
    ensures vv_pairs(Seq::<(Value, Value)>::empty()) == hdr_typed_prefix(h, 0), labels_of(Seq::<(Value, Value)>::empty()) == hdr_typed_labels(h, 0),
{
    reveal_with_fuel(hdr_typed_prefix, 1); reveal_with_fuel(hdr_typed_labels, 1); reveal(labels_of); lemma_vv_pairs_empty();
    assert(labels_of(Seq::<(Value, Value)>::empty()) =~= hdr_typed_labels(h, 0));
}
pub proof fn lemma_labels_of_index(m: Seq<(Value, Value)>, i: int)
    requires 0 <= i < m.len(),
    ensures labels_of(m).len() == m.len(), labels_of(m)[i] == label_of(m[i].0),
{ reveal(labels_of); }
pub proof fn lemma_rest_entries_push(r: Seq<(Label, Value)>, n: int)
    requires 0 <= n < r.len(),
    ensures rest_entries(r.subrange(0, n + 1)) == rest_entries(r.subrange(0, n)).push((label_cv(r[n].0), vv(r[n].1))),
            rest_entries(r.subrange(0, 0)) == Seq::<(CV, CV)>::empty(),
{
    reveal(rest_entries);
    assert(rest_entries(r.subrange(0, n + 1)) =~= rest_entries(r.subrange(0, n)).push((label_cv(r[n].0), vv(r[n].1))));
    assert(rest_entries(r.subrange(0, 0)) =~= Seq::<(CV, CV)>::empty());
}
pub proof fn lemma_rest_entries_empty(r: Seq<(Label, Value)>)
    ensures rest_entries(r.subrange(0, 0)) == Seq::<(CV, CV)>::empty(), r.subrange(0, r.len() as int) == r,
{ reveal(rest_entries); assert(rest_entries(r.subrange(0, 0)) =~= Seq::<(CV, CV)>::empty()); assert(r.subrange(0, r.len() as int) =~= r); }
pub proof fn lemma_crit_cv(c: Seq<RegisteredLabel<iana::HeaderParameter>>, v: Value)
    requires v is Array, arr_of(v).len() == c.len(), forall |i: int| 0 <= i < c.len() ==> vv(#[trigger] arr_of(v)[i]) == reg_cv(c[i]),
    ensures vv(v) == crit_cv(c),
{ lemma_vv_value_array(v); assert(vv_seq(arr_of(v)) =~= crit_cv(c)->Array_0); }
pub proof fn lemma_csigs_cv(h: Header, v: Value)
    requires h.counter_signatures@.len() != 1, v is Array, arr_of(v).len() == h.counter_signatures@.len(),
        forall |i: int| 0 <= i < arr_of(v).len() ==> vv(#[trigger] arr_of(v)[i]) == sig_cv(h.counter_signatures@[i]),
    ensures vv(v) == csigs_cv(h),
{ lemma_vv_value_array(v); assert(vv_seq(arr_of(v)) =~= csigs_cv(h)->Array_0); }
// ---- C19: a built header never carries both an IV and a Partial IV
pub open spec fn iv_excl(h: Header) -> bool { !(h.iv@.len() > 0 && h.partial_iv@.len() > 0) }
/// one HeaderBuilder call, as described by the verified postconditions of its 14 methods
pub open spec fn hb_step(a: Header, b: Header) -> bool {
    (b.iv == a.iv && b.partial_iv == a.partial_iv)      // key_id, algorithm, add_critical(_label), content_format/type, add_counter_signature, value, text_value, build
    || (b.partial_iv@.len() == 0)                       // iv(): sets iv, clears partial_iv
    || (b.iv@.len() == 0)                               // partial_iv(): sets partial_iv, clears iv
}
pub open spec fn hb_reach(hs: Seq<Header>) -> bool {
    hs.len() > 0 && hdr_is_empty(hs[0]) && forall |i: int| 0 <= i < hs.len() - 1 ==> hb_step(#[trigger] hs[i], hs[i + 1])
}
pub proof fn lemma_builder_iv_exclusive(hs: Seq<Header>, k: int)
    requires hb_reach(hs), 0 <= k < hs.len(),
    ensures iv_excl(hs[k]),
    decreases k
{
    if k > 0 { lemma_builder_iv_exclusive(hs, k - 1); assert(hb_step(hs[k - 1], hs[k])); }
}
// ---- C07 (first step): whatever decoding produced encodes successfully
pub proof fn lemma_rest_of_props(m: Seq<(Value, Value)>)
    requires hdr_labels_distinct(m),
    ensures
        forall |a: int| 0 <= a < rest_of(m).len() ==> !is_typed_hdr_label((#[trigger] rest_of(m)[a]).0) && has_label(m, m.len() as int, rest_of(m)[a].0),
        forall |a: int, b: int| 0 <= a < b < rest_of(m).len() ==> (#[trigger] rest_of(m)[a]).0 != (#[trigger] rest_of(m)[b]).0,
    decreases m.len()
{
    reveal(hdr_labels_distinct);
    if m.len() > 0 {
        let p = m.drop_last();
        assert forall |i: int, j: int| 0 <= i < j < p.len() implies #[trigger] label_of(p[i].0) != #[trigger] label_of(p[j].0) by { assert(p[i] == m[i] && p[j] == m[j]); }
        lemma_rest_of_props(p);
        let rp = rest_of(p); let r = rest_of(m);
        assert forall |a: int| 0 <= a < rp.len() implies has_label(m, m.len() as int, (#[trigger] rp[a]).0) by {
            let i = choose |i: int| 0 <= i < p.len() && #[trigger] label_of(p[i].0) == Some(rp[a].0);
            assert(p[i] == m[i]);
        }
        assert forall |a: int| 0 <= a < r.len() implies !is_typed_hdr_label((#[trigger] r[a]).0) && has_label(m, m.len() as int, r[a].0) by {
            if a < rp.len() { assert(r[a] == rp[a]); } else { assert(label_of(m[m.len() - 1].0) == Some(r[a].0)); }
        }
        assert forall |a: int, b: int| 0 <= a < b < r.len() implies (#[trigger] r[a]).0 != (#[trigger] r[b]).0 by {
            if b < rp.len() { assert(r[a] == rp[a] && r[b] == rp[b]); }
            else {
                assert(r[a] == rp[a]);
                let i = choose |i: int| 0 <= i < p.len() && #[trigger] label_of(p[i].0) == Some(rp[a].0);
                assert(p[i] == m[i]);
                assert(label_of(m[m.len() - 1].0) == Some(r[b].0));
            }
        }
    }
}
pub proof fn lemma_decoded_header_encodable(v: Value, d: nat, h: Header)
    requires hdr_ok(v, d), hdr_res(v, d, h),
    ensures hdr_encodable(h),
    decreases max_nest() - d, v, 0nat
{
    reveal(hdr_flat_ok);
    let m = map_of(v);
    lemma_rest_of_props(m);
    assert(m.subrange(0, m.len() as int) =~= m);
    assert(rest_labels_ok(h));
    assert forall |i: int| 0 <= i < h.counter_signatures@.len() implies sig_encodable(#[trigger] h.counter_signatures@[i]) by {
        assert(has_label(m, m.len() as int, Label::Int(7)));
        let k = choose |k: int| 0 <= k < m.len() && #[trigger] label_of(m[k].0) == Some(Label::Int(7));
        let sv = m[k].1;
        assert(hdr_pair_ok(m[k].0, sv, d));
        assert(csig_ok(sv, d) && csigs_res(sv, d, h.counter_signatures@));
        lemma_map_elem_decreases(v, k);
        if arr_of(sv)[0] is Bytes { lemma_decoded_sig_encodable(sv, d, h.counter_signatures@[i]); }
        else { lemma_arr_elem_decreases(sv, i); lemma_decoded_sig_encodable(arr_of(sv)[i], d, h.counter_signatures@[i]); }
    }
}
pub proof fn lemma_decoded_sig_encodable(v: Value, d: nat, s: CoseSignature)
    requires sig_ok(v, d), sig_res(v, d, s),
    ensures sig_encodable(s),
    decreases max_nest() - d, v, 1nat
{
    lemma_arr_elem_decreases(v, 1);
    lemma_decoded_header_encodable(arr_of(v)[1], d, s.unprotected);
}
// ---- C12 (encode): an encodable header never puts the same key into its map twice
pub open spec fn cv_keys_distinct(m: Seq<(CV, CV)>) -> bool { forall |i: int, j: int| 0 <= i < j < m.len() ==> (#[trigger] m[i]).0 != (#[trigger] m[j]).0 }
pub proof fn lemma_typed_prefix_keys(h: Header, k: int)
    requires 0 <= k <= 7,
    ensures
        forall |i: int| 0 <= i < hdr_typed_prefix(h, k).len() ==> ((#[trigger] hdr_typed_prefix(h, k)[i]).0 matches CV::Int(n) && 1 <= n <= k && typed_present(h, Label::Int(n as i64))),
        forall |i: int, j: int| 0 <= i < j < hdr_typed_prefix(h, k).len() ==> (#[trigger] hdr_typed_prefix(h, k)[i]).0->Int_0 < (#[trigger] hdr_typed_prefix(h, k)[j]).0->Int_0,
    decreases k
{
    reveal_with_fuel(hdr_typed_prefix, 1);
    if k > 0 {
        lemma_typed_prefix_keys(h, k - 1);
        let p = hdr_typed_prefix(h, k - 1); let e = hdr_typed_entry(h, k); let l = hdr_typed_prefix(h, k);
        assert(l == p + e);
        assert forall |i: int| 0 <= i < l.len() implies ((#[trigger] l[i]).0 matches CV::Int(n) && 1 <= n <= k && typed_present(h, Label::Int(n as i64))) by {
            if i < p.len() { assert(l[i] == p[i]); } else { assert(l[i] == e[i - p.len()]); }
        }
        assert forall |i: int, j: int| 0 <= i < j < l.len() implies (#[trigger] l[i]).0->Int_0 < (#[trigger] l[j]).0->Int_0 by {
            if j < p.len() { assert(l[i] == p[i] && l[j] == p[j]); } else { assert(l[j] == e[j - p.len()]); assert(l[i] == p[i]); }
        }
    }
}
pub proof fn lemma_hdr_cv_keys_distinct(h: Header)
    requires rest_labels_ok(h),
    ensures hdr_cv(h) matches CV::Map(m) && cv_keys_distinct(m),
{
    broadcast use axiom_utf8_injective;
    broadcast use axiom_string_ext;
    lemma_typed_prefix_keys(h, 7);
    reveal(rest_entries);
    let t = hdr_typed_prefix(h, 7); let r = rest_entries(h.rest@); let m = t + r;
    assert forall |i: int, j: int| 0 <= i < j < m.len() implies (#[trigger] m[i]).0 != (#[trigger] m[j]).0 by {
        if j < t.len() { assert(m[i] == t[i] && m[j] == t[j]); }
        else if i >= t.len() {
            let a = h.rest@[i - t.len()]; let b = h.rest@[j - t.len()];
            assert(m[i].0 == label_cv(a.0) && m[j].0 == label_cv(b.0));
            assert(a.0 != b.0);
            if label_cv(a.0) == label_cv(b.0) { match (a.0, b.0) { (Label::Text(x), Label::Text(y)) => { assert(x@ == y@); } _ => {} } }
        } else {
            let b = h.rest@[j - t.len()];
            assert(m[i] == t[i]); assert(m[j].0 == label_cv(b.0));
            if m[i].0 == m[j].0 { let n = t[i].0->Int_0; assert(b.0 == Label::Int(n as i64)); assert(typed_present(h, b.0)); }
        }
    }    reveal_with_fuel(hdr_typed_entries, 2); reveal_with_fuel(hdr_cv, 2); reveal_with_fuel(hdr_typed_prefix, 1);
    assert(hdr_typed_entries(h) == t);
    assert(hdr_cv(h) == CV::Map(m));
    assert(cv_keys_distinct(m));
}
pub open spec fn hdr_encodable(h: Header) -> bool
    decreases h
{
    rest_labels_ok(h) && (forall |i: int| 0 <= i < h.counter_signatures@.len() ==> sig_encodable(#[trigger] h.counter_signatures@[i]))
}
pub open spec fn sig_encodable(s: CoseSignature) -> bool
    decreases s
{ prot_encodable(s.protected) && hdr_encodable(s.unprotected) }
pub open spec fn prot_encodable(p: ProtectedHeader) -> bool
    decreases p
{ p.original_data is Some || hdr_is_empty(p.header) || hdr_encodable(p.header) }
»

exec const ALG: Label ensures ALG == Label::Int(1) { Label::Int(iana::HeaderParameter::Alg as i64) }
exec const CRIT: Label ensures CRIT == Label::Int(2) { Label::Int(iana::HeaderParameter::Crit as i64) }
exec const CONTENT_TYPE: Label ensures CONTENT_TYPE == Label::Int(3) { Label::Int(iana::HeaderParameter::ContentType as i64) }
exec const KID: Label ensures KID == Label::Int(4) { Label::Int(iana::HeaderParameter::Kid as i64) }
exec const IV: Label ensures IV == Label::Int(5) { Label::Int(iana::HeaderParameter::Iv as i64) }
exec const PARTIAL_IV: Label ensures PARTIAL_IV == Label::Int(6) { Label::Int(iana::HeaderParameter::PartialIv as i64) }
exec const COUNTER_SIG: Label ensures COUNTER_SIG == Label::Int(7) { Label::Int(iana::HeaderParameter::CounterSignature as i64) }«

use crate::vprelude::*;
use crate::common::{label_cv, reg_cv, regp_cv, parse_all, label_of, reg_of, regp_of, nonempty_bytes, lemma_label_obeys_cmp, axiom_derived_clone_label};

pub open spec fn crit_ok(v: Value) -> bool {
    v matches Value::Array(a) && a@.len() > 0
    && (forall |j: int| 0 <= j < a@.len() ==> (#[trigger] reg_of::<iana::HeaderParameter>(a@[j])) is Some)
}
pub open spec fn ct_text_ok(t: Seq<char>) -> bool { t.len() > 0 && trimmed(t) == t && count_char(t, '/') == 1 }
pub open spec fn ct_ok(v: Value) -> bool {
    reg_of::<iana::CoapContentFormat>(v) matches Some(c) && (c matches RegisteredLabel::Text(t) ==> ct_text_ok(t@))
}
/// Nesting limit of protected headers (the value of MAX_HEADER_NESTING, checked where it is used).
pub open spec fn max_nest() -> nat { 16 }
#[verifier::opaque]
pub open spec fn hdr_labels_distinct(m: Seq<(Value, Value)>) -> bool {
    forall |i: int, j: int| 0 <= i < j < m.len() ==> #[trigger] label_of(m[i].0) != #[trigger] label_of(m[j].0)
}
pub open spec fn has_label(m: Seq<(Value, Value)>, n: int, l: Label) -> bool {
    exists |i: int| 0 <= i < n && #[trigger] label_of(m[i].0) == Some(l)
}
// ---- acceptance predicates (RFC 8152 section 3.1 / 4.1), mutually recursive through counter signatures
pub open spec fn hdr_ok(v: Value, d: nat) -> bool
    decreases max_nest() - d, v, 0nat
{
    v matches Value::Map(m)
    && (forall |i: int| 0 <= i < m@.len() ==> hdr_pair_ok(#[trigger] m@[i].0, m@[i].1, d))
    && hdr_labels_distinct(m@)
    && !(has_label(m@, m@.len() as int, Label::Int(5)) && has_label(m@, m@.len() as int, Label::Int(6)))
}
pub open spec fn hdr_pair_ok(k: Value, v: Value, d: nat) -> bool
    decreases max_nest() - d, v, 9nat
{
    label_of(k) matches Some(l) && (
        if l == Label::Int(1) { regp_of::<iana::Algorithm>(v) is Some }
        else if l == Label::Int(2) { crit_ok(v) }
        else if l == Label::Int(3) { ct_ok(v) }
        else if l == Label::Int(4) || l == Label::Int(5) || l == Label::Int(6) { nonempty_bytes(v) }
        else if l == Label::Int(7) { csig_ok(v, d) }
        else { true })
}
pub open spec fn csig_ok(v: Value, d: nat) -> bool
    decreases max_nest() - d, v, 8nat
{
    v matches Value::Array(a) && a@.len() > 0 && (
        (a@[0] is Bytes && sig_ok(v, d))
        || (a@[0] is Array && forall |j: int| 0 <= j < a@.len() ==> sig_ok(#[trigger] a@[j], d)))
}
pub open spec fn sig_ok(v: Value, d: nat) -> bool
    decreases max_nest() - d, v, 7nat
{
    v matches Value::Array(a) && a@.len() == 3 && prot_ok(a@[0], d) && hdr_ok(a@[1], d) && a@[2] is Bytes
}
pub open spec fn prot_ok(v: Value, d: nat) -> bool
    decreases max_nest() - d, v, 0nat
{
    v matches Value::Bytes(b) && (b@.len() == 0
        || (d < max_nest() && (parse_all(b@) matches Some(v2) && hdr_ok(v2, d + 1))))
}
pub open spec fn is_typed_hdr_label(l: Label) -> bool {
    l == Label::Int(1) || l == Label::Int(2) || l == Label::Int(3) || l == Label::Int(4) || l == Label::Int(5) || l == Label::Int(6) || l == Label::Int(7)
}
pub open spec fn rest_of(m: Seq<(Value, Value)>) -> Seq<(Label, Value)>
    decreases m.len()
{
    if m.len() == 0 { Seq::empty() } else {
        let p = rest_of(m.drop_last());
        match label_of(m.last().0) {
            Some(l) => if is_typed_hdr_label(l) { p } else { p.push((l, m.last().1)) },
            None => p,
        }
    }
}
// ---- result relations: the decoded value is exactly what the wire says, at every nesting level
pub open spec fn crit_res(c: Seq<RegisteredLabel<iana::HeaderParameter>>, v: Value) -> bool {
    arr_of(v).len() == c.len() && forall |j: int| 0 <= j < c.len() ==> reg_of::<iana::HeaderParameter>(#[trigger] arr_of(v)[j]) == Some(c[j])
}
/// typed fields other than the counter signatures, and the extras, for the first n pairs of m
#[verifier::opaque]
pub open spec fn hdr_flat_ok(h: Header, m: Seq<(Value, Value)>, n: int) -> bool {
    (forall |i: int| 0 <= i < n && #[trigger] label_of(m[i].0) == Some(Label::Int(1)) ==> (h.alg is Some && h.alg == regp_of::<iana::Algorithm>(m[i].1)))
    && (!has_label(m, n, Label::Int(1)) ==> h.alg is None)
    && (forall |i: int| 0 <= i < n && #[trigger] label_of(m[i].0) == Some(Label::Int(2)) ==> crit_res(h.crit@, m[i].1))
    && (!has_label(m, n, Label::Int(2)) ==> h.crit@.len() == 0)
    && (forall |i: int| 0 <= i < n && #[trigger] label_of(m[i].0) == Some(Label::Int(3)) ==> (h.content_type is Some && h.content_type == reg_of::<iana::CoapContentFormat>(m[i].1)))
    && (!has_label(m, n, Label::Int(3)) ==> h.content_type is None)
    && (forall |i: int| 0 <= i < n && #[trigger] label_of(m[i].0) == Some(Label::Int(4)) ==> m[i].1 == Value::Bytes(h.key_id))
    && (!has_label(m, n, Label::Int(4)) ==> h.key_id@.len() == 0)
    && (forall |i: int| 0 <= i < n && #[trigger] label_of(m[i].0) == Some(Label::Int(5)) ==> m[i].1 == Value::Bytes(h.iv))
    && (!has_label(m, n, Label::Int(5)) ==> h.iv@.len() == 0)
    && (forall |i: int| 0 <= i < n && #[trigger] label_of(m[i].0) == Some(Label::Int(6)) ==> m[i].1 == Value::Bytes(h.partial_iv))
    && (!has_label(m, n, Label::Int(6)) ==> h.partial_iv@.len() == 0)
    && h.rest@ == rest_of(m.subrange(0, n))
}
pub open spec fn hdr_res(v: Value, d: nat, h: Header) -> bool
    decreases max_nest() - d, v, 0nat
{
    v matches Value::Map(m) && hdr_flat_ok(h, m@, m@.len() as int)
    && (forall |i: int| 0 <= i < m@.len() && #[trigger] label_of(m@[i].0) == Some(Label::Int(7)) ==> csigs_res(m@[i].1, d, h.counter_signatures@))
    && (!has_label(m@, m@.len() as int, Label::Int(7)) ==> h.counter_signatures@.len() == 0)
}
pub open spec fn csigs_res(v: Value, d: nat, sigs: Seq<CoseSignature>) -> bool
    decreases max_nest() - d, v, 8nat
{
    v matches Value::Array(a) && a@.len() > 0
    && (a@[0] is Bytes ==> (sigs.len() == 1 && sig_res(v, d, sigs[0])))
    && (!(a@[0] is Bytes) ==> (sigs.len() == a@.len() && forall |j: int| 0 <= j < a@.len() ==> sig_res(#[trigger] a@[j], d, sigs[j])))
}
pub open spec fn sig_res(v: Value, d: nat, s: CoseSignature) -> bool
    decreases max_nest() - d, v, 7nat
{
    v matches Value::Array(a) && a@.len() == 3 && prot_res(a@[0], d, s.protected) && hdr_res(a@[1], d, s.unprotected) && a@[2] == Value::Bytes(s.signature)
}
pub open spec fn prot_res(v: Value, d: nat, p: ProtectedHeader) -> bool
    decreases max_nest() - d, v, 0nat
{
    v matches Value::Bytes(b) && p.original_data == Some(b)
    && (if b@.len() == 0 { hdr_is_empty(p.header) } else { d < max_nest() && (parse_all(b@) matches Some(v2) && hdr_res(v2, d + 1, p.header)) })
}
// ---- loop invariant vocabulary for Header::from_cbor_value_nested
pub open spec fn hdr_prefix_ok(v: Value, n: int, d: nat) -> bool {
    forall |i: int| 0 <= i < n ==> hdr_pair_ok(#[trigger] map_of(v)[i].0, map_of(v)[i].1, d)
}
pub open spec fn hdr_inv(h: Header, v: Value, n: int, d: nat) -> bool {
    hdr_flat_ok(h, map_of(v), n)
    && (forall |i: int| 0 <= i < n && #[trigger] label_of(map_of(v)[i].0) == Some(Label::Int(7)) ==> csigs_res(map_of(v)[i].1, d, h.counter_signatures@))
    && (!has_label(map_of(v), n, Label::Int(7)) ==> h.counter_signatures@.len() == 0)
}
/// what one loop iteration does to the header being built, for the pair (k, v)
pub open spec fn hdr_upd_ok(hp: Header, h: Header, k: Value, v: Value, d: nat) -> bool {
    label_of(k) matches Some(l) && (
        if l == Label::Int(1) { h == (Header { alg: h.alg, ..hp }) && h.alg is Some && h.alg == regp_of::<iana::Algorithm>(v) }
        else if l == Label::Int(2) { h == (Header { crit: h.crit, ..hp }) && crit_res(h.crit@, v) }
        else if l == Label::Int(3) { h == (Header { content_type: h.content_type, ..hp }) && h.content_type is Some && h.content_type == reg_of::<iana::CoapContentFormat>(v) }
        else if l == Label::Int(4) { h == (Header { key_id: h.key_id, ..hp }) && v == Value::Bytes(h.key_id) }
        else if l == Label::Int(5) { h == (Header { iv: h.iv, ..hp }) && v == Value::Bytes(h.iv) }
        else if l == Label::Int(6) { h == (Header { partial_iv: h.partial_iv, ..hp }) && v == Value::Bytes(h.partial_iv) }
        else if l == Label::Int(7) { h == (Header { counter_signatures: h.counter_signatures, ..hp }) && csigs_res(v, d, h.counter_signatures@) }
        else { h == (Header { rest: h.rest, ..hp }) && h.rest@ == hp.rest@.push((l, v)) })
}
pub proof fn lemma_hdr_inv_init(h: Header, v: Value, d: nat)
    requires hdr_is_empty(h),
    ensures hdr_inv(h, v, 0, d), hdr_labels_distinct(map_of(v).subrange(0, 0)),
{
    reveal(hdr_flat_ok); reveal(hdr_labels_distinct);
    assert(map_of(v).subrange(0, 0) =~= Seq::<(Value, Value)>::empty());
    assert(rest_of(map_of(v).subrange(0, 0)) =~= Seq::<(Label, Value)>::empty());
    assert(h.rest@ =~= Seq::<(Label, Value)>::empty());
}
pub proof fn lemma_absent_fields(h: Header, v: Value, n: int, d: nat, l: Label)
    requires hdr_inv(h, v, n, d), !has_label(map_of(v), n, l),
    ensures l == Label::Int(2) ==> h.crit@.len() == 0, l == Label::Int(7) ==> h.counter_signatures@.len() == 0,
{
    reveal(hdr_flat_ok);}
#[verifier::rlimit(150)]
pub proof fn lemma_hdr_inv_step(hp: Header, h: Header, v: Value, n: int, d: nat)
    requires
        0 <= n < map_of(v).len(),
        hdr_inv(hp, v, n, d),
        label_of(map_of(v)[n].0) matches Some(l) && !has_label(map_of(v), n, l),
        hdr_upd_ok(hp, h, map_of(v)[n].0, map_of(v)[n].1, d),
    ensures hdr_inv(h, v, n + 1, d),
{
    reveal(hdr_flat_ok);
    let m = map_of(v);
    let l = label_of(m[n].0)->0;
    assert(m.subrange(0, n + 1).drop_last() =~= m.subrange(0, n));
    assert(m.subrange(0, n + 1).last() == m[n]);
    assert forall |x: Label| has_label(m, n + 1, x) <==> (has_label(m, n, x) || x == l) by {
        if has_label(m, n + 1, x) { let i = choose |i: int| 0 <= i < n + 1 && #[trigger] label_of(m[i].0) == Some(x); if i < n { assert(has_label(m, n, x)); } }
        if has_label(m, n, x) { let i = choose |i: int| 0 <= i < n && #[trigger] label_of(m[i].0) == Some(x); assert(has_label(m, n + 1, x)); }
        if x == l { assert(has_label(m, n + 1, x)); }
    }
    assert forall |i: int| 0 <= i < n implies #[trigger] label_of(m[i].0) != Some(l) by {
        if label_of(m[i].0) == Some(l) { assert(has_label(m, n, l)); }
    }
}
// ---- C12 (decode, error kind): when the first defect in wire order is a repeated label, the error is DuplicateMapKey
pub open spec fn iv_both_prefix(v: Value, n: int) -> bool { has_label(map_of(v), n, Label::Int(5)) && has_label(map_of(v), n, Label::Int(6)) }
/// pairs 0..n are individually acceptable, pairwise distinct and not IV+Partial IV, and pair n repeats one of their labels
pub open spec fn hdr_dup_at(v: Value, n: int, d: nat) -> bool {
    0 <= n < map_of(v).len() && hdr_prefix_ok(v, n, d) && hdr_labels_distinct(map_of(v).subrange(0, n)) && !iv_both_prefix(v, n)
    && (label_of(map_of(v)[n].0) matches Some(l) && has_label(map_of(v), n, l))
}
#[verifier::opaque]
pub open spec fn hdr_no_dup(v: Value, d: nat) -> bool { forall |n: int| !hdr_dup_at(v, n, d) }
proof fn lemma_distinct_prefix_no_dup(v: Value, k: int, d: nat, n: int)
    requires 0 <= n < k <= map_of(v).len(), hdr_labels_distinct(map_of(v).subrange(0, k)),
    ensures !hdr_dup_at(v, n, d),
{
    reveal(hdr_labels_distinct);
    let ms = map_of(v);
    if label_of(ms[n].0) is Some && has_label(ms, n, label_of(ms[n].0)->0) {
        let i = choose |i: int| 0 <= i < n && #[trigger] label_of(ms[i].0) == Some(label_of(ms[n].0)->0);
        assert(ms.subrange(0, k)[i] == ms[i] && ms.subrange(0, k)[n] == ms[n]);
        assert(label_of(ms.subrange(0, k)[i].0) != label_of(ms.subrange(0, k)[n].0));
    }
}
/// an error raised for pair k itself (bad label, or bad value after the duplicate check passed) is not a duplicate situation
pub proof fn lemma_bad_pair_no_dup(v: Value, k: int, d: nat)
    requires 0 <= k < map_of(v).len(), hdr_labels_distinct(map_of(v).subrange(0, k)),
        label_of(map_of(v)[k].0) matches Some(l) ==> !has_label(map_of(v), k, l),
    ensures !hdr_pair_ok(map_of(v)[k].0, map_of(v)[k].1, d) ==> hdr_no_dup(v, d),
{
    reveal(hdr_no_dup);
    if !hdr_pair_ok(map_of(v)[k].0, map_of(v)[k].1, d) {
        assert forall |n: int| !hdr_dup_at(v, n, d) by {
            if 0 <= n < k { lemma_distinct_prefix_no_dup(v, k, d, n); }
        }
    }
}
pub proof fn lemma_iv_both_no_dup(v: Value, k: int, d: nat)
    requires 0 <= k <= map_of(v).len(), hdr_labels_distinct(map_of(v).subrange(0, k)), iv_both_prefix(v, k),
    ensures hdr_no_dup(v, d),
{
    reveal(hdr_no_dup);
    let ms = map_of(v);
    assert forall |n: int| !hdr_dup_at(v, n, d) by {
        if 0 <= n < k { lemma_distinct_prefix_no_dup(v, k, d, n); }
        else if k <= n < ms.len() {
            let i5 = choose |i: int| 0 <= i < k && #[trigger] label_of(ms[i].0) == Some(Label::Int(5));
            let i6 = choose |i: int| 0 <= i < k && #[trigger] label_of(ms[i].0) == Some(Label::Int(6));
            assert(has_label(ms, n, Label::Int(5)) && has_label(ms, n, Label::Int(6)));
        }
    }
}
pub proof fn lemma_all_distinct_no_dup(v: Value, d: nat)
    requires hdr_labels_distinct(map_of(v).subrange(0, map_of(v).len() as int)),
    ensures hdr_no_dup(v, d),
{
    reveal(hdr_no_dup);
    assert forall |n: int| !hdr_dup_at(v, n, d) by { if 0 <= n < map_of(v).len() { lemma_distinct_prefix_no_dup(v, map_of(v).len() as int, d, n); } }
}
pub proof fn lemma_not_map_no_dup(v: Value, d: nat)
    requires !(v is Map),
    ensures hdr_no_dup(v, d),
{ reveal(hdr_no_dup); }
pub proof fn lemma_dup_not_distinct(ms: Seq<(Value, Value)>, n: int, label: Label)
    requires 0 <= n < ms.len(), label_of(ms[n].0) == Some(label), has_label(ms, n, label),
    ensures !hdr_labels_distinct(ms),
{
    reveal(hdr_labels_distinct);
    let i0 = choose |i: int| 0 <= i < n && #[trigger] label_of(ms[i].0) == Some(label);
    assert(label_of(ms[i0].0) == label_of(ms[n].0));
}
pub proof fn lemma_labels_step(ms: Seq<(Value, Value)>, n: int, label: Label)
    requires 0 <= n < ms.len(), hdr_labels_distinct(ms.subrange(0, n)), label_of(ms[n].0) == Some(label), !has_label(ms, n, label),
    ensures hdr_labels_distinct(ms.subrange(0, n + 1)), forall |x: Label| has_label(ms, n + 1, x) <==> (has_label(ms, n, x) || x == label),
{
    reveal(hdr_labels_distinct);
    let s1 = ms.subrange(0, n + 1);
    assert forall |i: int, j: int| 0 <= i < j < s1.len() implies #[trigger] label_of(s1[i].0) != #[trigger] label_of(s1[j].0) by {
        if j < n { assert(label_of(ms.subrange(0, n)[i].0) != label_of(ms.subrange(0, n)[j].0)); }
        else { if label_of(ms[i].0) == Some(label) { assert(has_label(ms, n, label)); assert(false); } }
    }
    assert forall |x: Label| has_label(ms, n + 1, x) <==> (has_label(ms, n, x) || x == label) by {
        if has_label(ms, n + 1, x) { let i = choose |i: int| 0 <= i < n + 1 && #[trigger] label_of(ms[i].0) == Some(x); if i < n { assert(has_label(ms, n, x)); } }
        if has_label(ms, n, x) { let i = choose |i: int| 0 <= i < n && #[trigger] label_of(ms[i].0) == Some(x); assert(has_label(ms, n + 1, x)); }
        if x == label { assert(has_label(ms, n + 1, x)); }
    }
}
pub proof fn lemma_iv_both(h: Header, v: Value, n: int, d: nat)
    requires v is Map, 0 <= n <= map_of(v).len(), hdr_inv(h, v, n, d), h.iv@.len() > 0, h.partial_iv@.len() > 0,
    ensures !hdr_ok(v, d),
{
    reveal(hdr_flat_ok);
    let m = map_of(v);
    assert(has_label(m, n, Label::Int(5)));
    assert(has_label(m, n, Label::Int(6)));
    let i5 = choose |i: int| 0 <= i < n && #[trigger] label_of(m[i].0) == Some(Label::Int(5));
    let i6 = choose |i: int| 0 <= i < n && #[trigger] label_of(m[i].0) == Some(Label::Int(6));
    assert(has_label(m, m.len() as int, Label::Int(5)));
    assert(has_label(m, m.len() as int, Label::Int(6)));
}
pub proof fn lemma_iv_both_witness(h: Header, v: Value, n: int, d: nat)
    requires v is Map, 0 <= n <= map_of(v).len(), hdr_inv(h, v, n, d), h.iv@.len() > 0, h.partial_iv@.len() > 0,
    ensures iv_both_prefix(v, n),
{ reveal(hdr_flat_ok); }
/// if both IV labels occur among valid pairs, both fields are non-empty (only this step looks inside hdr_flat_ok)
proof fn lemma_iv_labels_both_nonempty(h: Header, v: Value, d: nat, i5: int, i6: int)
    requires
        v is Map, hdr_flat_ok(h, map_of(v), map_of(v).len() as int),
        0 <= i5 < map_of(v).len(), label_of(map_of(v)[i5].0) == Some(Label::Int(5)), hdr_pair_ok(map_of(v)[i5].0, map_of(v)[i5].1, d),
        0 <= i6 < map_of(v).len(), label_of(map_of(v)[i6].0) == Some(Label::Int(6)), hdr_pair_ok(map_of(v)[i6].0, map_of(v)[i6].1, d),
    ensures h.iv@.len() > 0 && h.partial_iv@.len() > 0,
{ reveal(hdr_flat_ok); }
pub proof fn lemma_hdr_final(h: Header, v: Value, d: nat)
    requires
        v is Map,
        hdr_prefix_ok(v, map_of(v).len() as int, d),
        hdr_labels_distinct(map_of(v).subrange(0, map_of(v).len() as int)),
        hdr_inv(h, v, map_of(v).len() as int, d),
        !(h.iv@.len() > 0 && h.partial_iv@.len() > 0),
    ensures hdr_ok(v, d), hdr_res(v, d, h),
{
    let m = map_of(v);
    assert(m.subrange(0, m.len() as int) =~= m);
    if has_label(m, m.len() as int, Label::Int(5)) && has_label(m, m.len() as int, Label::Int(6)) {
        let i5 = choose |i: int| 0 <= i < m.len() && #[trigger] label_of(m[i].0) == Some(Label::Int(5));
        let i6 = choose |i: int| 0 <= i < m.len() && #[trigger] label_of(m[i].0) == Some(Label::Int(6));
        assert(hdr_pair_ok(m[i5].0, m[i5].1, d));
        assert(hdr_pair_ok(m[i6].0, m[i6].1, d));
        lemma_iv_labels_both_nonempty(h, v, d, i5, i6);
        assert(false);
    }
}
»

/// Maximum nesting of protected headers within counter signatures within headers.
pub(crate) const MAX_HEADER_NESTING: usize = 16;

impl Header {«
    #[verifier::loop_isolation(false)]»
    /// Convert a [`Value`] into a `Header` that sits `depth` protected headers deep.
    pub(crate) fn from_cbor_value_nested(value: Value, depth: usize) ->« (r:» Result<Self>«)
        ensures
            r is Ok <==> hdr_ok(value, depth as nat),
            r matches Ok(h) ==> hdr_res(value, depth as nat, h),
            !hdr_no_dup(value, depth as nat) ==> (r matches Err(e) && e is DuplicateMapKey),
        decreases max_nest() - depth, value, 5nat» {«
        let ghost val0 = value;
        let ghost d = depth as nat;
        broadcast use axiom_question_mark_uses_from;
        proof { if !(val0 is Map) { lemma_not_map_no_dup(val0, d); } }»
        let m = value.try_as_map()?;«
        let ghost ms = m@;»
        let mut headers = Self::default();
        let mut seen = BTreeSet::new();«
        proof { lemma_label_obeys_cmp(); lemma_hdr_inv_init(headers, val0, d); }»
        for (l, value) in« it:» m.into_iter()«
            invariant
                val0 is Map, map_of(val0) == ms, ms == m@, d == depth as nat,
                vstd::laws_cmp::obeys_cmp::<Label>(),
                0 <= it.index@ <= ms.len(),
                hdr_prefix_ok(val0, it.index@, d),
                hdr_labels_distinct(ms.subrange(0, it.index@)),
                forall |x: Label| seen@.contains(x) <==> has_label(ms, it.index@, x),
                hdr_inv(headers, val0, it.index@, d),
                !(headers.iv@.len() > 0 && headers.partial_iv@.len() > 0),» {«
            broadcast use axiom_question_mark_uses_from;
            broadcast use vstd::std_specs::btree::group_btree_axioms;
            broadcast use axiom_derived_clone_label;
            let ghost n = it.index@;
            let ghost v0 = value;
            let ghost hp = headers;
            proof {
                assert(l == ms[n].0 && value == ms[n].1);
                assert(hdr_ok(val0, d) ==> hdr_pair_ok(ms[n].0, ms[n].1, d));
                if label_of(ms[n].0) is None { lemma_bad_pair_no_dup(val0, n, d); }
            }»
            // The `ciborium` CBOR library does not police duplicate map keys.
            // RFC 8152 section 14 requires that COSE does police duplicates, so do it here.
            let label = Label::from_cbor_value(l)?;«
            proof { assert(label_of(ms[n].0) == Some(label)); }»
            if seen.contains(&label) {«
                proof { lemma_dup_not_distinct(ms, n, label); }»
                return Err(CoseError::DuplicateMapKey);
            }
            «proof { lemma_bad_pair_no_dup(val0, n, d); }»
            seen.insert(label.clone());
            match label {
                ALG => headers.alg = Some(Algorithm::from_cbor_value(value)?),

                CRIT => match value {
                    Value::Array(a) => {
                        if a.is_empty() {
                            return Err(CoseError::UnexpectedItem(
                                "empty array",
                                "non-empty array",
                            ));
                        }«
                        let ghost aa = a@;
                        proof { assert(hp.crit@.len() == 0) by { lemma_absent_fields(hp, val0, n, d, label); } }»
                        for v in« it2:» a«
                            invariant
                                d == depth as nat,
                                0 <= it2.index@ <= aa.len(), aa == a@, v0 == Value::Array(a),
                                hdr_ok(val0, d) ==> crit_ok(v0),
                                forall |j: int| 0 <= j < it2.index@ ==> (#[trigger] reg_of::<iana::HeaderParameter>(aa[j])) == Some(headers.crit@[j]),
                                headers.crit@.len() == it2.index@,
                                headers == (Header { crit: headers.crit, ..hp }),» {«
                            broadcast use axiom_question_mark_uses_from;
                            proof {
                                assert(v == aa[it2.index@]);
                                assert(crit_ok(v0) ==> reg_of::<iana::HeaderParameter>(aa[it2.index@]) is Some);
                            }»
                            headers.crit.push(
                                RegisteredLabel::<iana::HeaderParameter>::from_cbor_value(v)?,
                            );
                        }«
                        proof { assert(crit_ok(v0)); assert(crit_res(headers.crit@, v0)); }»
                    }
                    v => return cbor_type_error(&v, "array value"),
                },

                CONTENT_TYPE => {
                    headers.content_type = Some(ContentType::from_cbor_value(value)?);
                    if let Some(ContentType::Text(text)) = &headers.content_type {
                        if text.is_empty() {
                            return Err(CoseError::UnexpectedItem("empty tstr", "non-empty tstr"));
                        }
                        if crate::vprelude::str_ne_string(text.trim(), text) {
                            return Err(CoseError::UnexpectedItem(
                                "leading/trailing whitespace",
                                "no leading/trailing whitespace",
                            ));
                        }
                        // Basic check that the content type is of form type/subtype.
                        // We don't check the precise definition though (RFC 6838 s4.2)
                        if crate::vprelude::str_count_matches(&text, '/') != 1 {
                            return Err(CoseError::UnexpectedItem(
                                "arbitrary text",
                                "text of form type/subtype",
                            ));
                        }
                    }«
                    proof { assert(ct_ok(v0)); }»
                }

                KID => {
                    headers.key_id = value.try_as_nonempty_bytes()?;
                }

                IV => {
                    headers.iv = value.try_as_nonempty_bytes()?;
                }

                PARTIAL_IV => {
                    headers.partial_iv = value.try_as_nonempty_bytes()?;
                }
                COUNTER_SIG => {
                    let sig_or_sigs = value.try_as_array()?;
                    if sig_or_sigs.is_empty() {
                        return Err(CoseError::UnexpectedItem(
                            "empty sig array",
                            "non-empty sig array",
                        ));
                    }«
                    let ghost sa = sig_or_sigs@;
                    proof { assert(hp.counter_signatures@.len() == 0) by { lemma_absent_fields(hp, val0, n, d, label); } }»«proof { lemma_map_elem_decreases(val0, n); assert(v0 == Value::Array(sig_or_sigs)); }»
                    // The encoding of counter signature[s] is pesky:
                    // - a single counter signature is encoded as `COSE_Signature` (a 3-tuple)
                    // - multiple counter signatures are encoded as `[+ COSE_Signature]`
                    //
                    // Determine which is which by looking at the first entry of the array:
                    // - If it's a bstr, sig_or_sigs is a single signature.
                    // - If it's an array, sig_or_sigs is an array of signatures
                    match &sig_or_sigs[0] {
                        Value::Bytes(_) => headers
                            .counter_signatures
                            .push(CoseSignature::from_cbor_value_nested(
                                Value::Array(sig_or_sigs),
                                depth,
                            )?),
                        Value::Array(_) => {
                            for sig in« it3:» sig_or_sigs.into_iter()«
                                invariant
                                    0 <= it3.index@ <= sa.len(), sa == sig_or_sigs@, v0 == Value::Array(sig_or_sigs), d == depth as nat,
                                    val0 is Map, map_of(val0) == ms, 0 <= n < ms.len(), v0 == ms[n].1,
                                    hdr_ok(val0, d) ==> csig_ok(v0, d),
                                    sa.len() > 0, sa[0] is Array,
                                    forall |j: int| 0 <= j < it3.index@ ==> sig_ok(#[trigger] sa[j], d) && sig_res(sa[j], d, headers.counter_signatures@[j]),
                                    headers.counter_signatures@.len() == it3.index@,
                                    headers == (Header { counter_signatures: headers.counter_signatures, ..hp }),» {«
                                broadcast use axiom_question_mark_uses_from;
                                proof {
                                    lemma_map_elem_decreases(val0, n); lemma_arr_elem_decreases(v0, it3.index@);
                                    assert(sig == sa[it3.index@]);
                                    assert(csig_ok(v0, d) ==> sig_ok(sa[it3.index@], d));
                                }»
                                headers
                                    .counter_signatures
                                    .push(CoseSignature::from_cbor_value_nested(sig, depth)?);
                            }
                        }
                        v => return cbor_type_error(v, "array or bstr value"),
                    }«
                    proof { assert(csig_ok(v0, d)); assert(csigs_res(v0, d, headers.counter_signatures@)); }»
                }

                label => headers.rest.push((label, value)),
            }«
            proof {
                assert(hdr_pair_ok(ms[n].0, ms[n].1, d));
                lemma_hdr_inv_step(hp, headers, val0, n, d);
                lemma_labels_step(ms, n, label);
                assert forall |x: Label| seen@.contains(x) <==> has_label(ms, n + 1, x) by {}
                // (kept outside the `if` below so that the hint survives edits of that block)
                if headers.iv@.len() > 0 && headers.partial_iv@.len() > 0 { lemma_iv_both(headers, val0, n + 1, d); lemma_iv_both_witness(headers, val0, n + 1, d); lemma_iv_both_no_dup(val0, n + 1, d); }
            }»
            // RFC 8152 section 3.1: "The 'Initialization Vector' and 'Partial Initialization
            // Vector' parameters MUST NOT both be present in the same security layer."
            if !headers.iv.is_empty() && !headers.partial_iv.is_empty() {
                return Err(CoseError::UnexpectedItem(
                    "IV and partial-IV specified",
                    "only one of IV and partial IV",
                ));
            }
        }«
        proof { lemma_hdr_final(headers, val0, d); lemma_all_distinct_no_dup(val0, d); }»
        Ok(headers)
    }
}

impl AsCborValue for Header {«
    open spec fn dec_rel(value: Value, r: Result<Self>) -> bool {
        (r is Ok <==> hdr_ok(value, 0))
        && (r matches Ok(h) ==> hdr_res(value, 0, h))
        && (!hdr_no_dup(value, 0) ==> (r matches Err(e) && e is DuplicateMapKey))
    }
    open spec fn enc_rel(self, r: Result<Value>) -> bool {
        (r is Ok <==> hdr_encodable(self)) && (r matches Ok(v) ==> vv(v) == hdr_cv(self))
    }»
    fn from_cbor_value(value: Value) -> Result<Self> {
        Self::from_cbor_value_nested(value, 0)
    }

    «#[verifier::rlimit(150)]
    »fn to_cbor_value(self) -> Result<Value> { let mut self_ = self;«
        let ghost h0 = self_;
        broadcast use axiom_question_mark_uses_from;
        broadcast use crate::util::axiom_iter_enc_ok_vec;
        broadcast use crate::util::axiom_iter_enc_err_vec;»
        let mut map = Vec::<(Value, Value)>::new();«
        let ghost m0 = map@;
        proof { lemma_hdr_start(h0); assert(m0 =~= Seq::<(Value, Value)>::empty()); }»
        if let Some(alg) = self_.alg {
            map.push((ALG.to_cbor_value()?, alg.to_cbor_value()?));«
            proof { lemma_hdr_step(h0, 1, m0, map@.last().0, map@.last().1); }»
        }«
        let ghost m1 = map@;
        proof { if !typed_present(h0, Label::Int(1)) { lemma_hdr_skip(h0, 1, m0); } }»
        if !self_.crit.is_empty() {
            map.push((CRIT.to_cbor_value()?, to_cbor_array(self_.crit)?));«
            proof {
                lemma_crit_cv(h0.crit@, map@.last().1);
                lemma_hdr_step(h0, 2, m1, map@.last().0, map@.last().1);
            }»
        }«
        let ghost m2 = map@;
        proof { if !typed_present(h0, Label::Int(2)) { lemma_hdr_skip(h0, 2, m1); } }»
        if let Some(content_type) = self_.content_type {
            map.push((CONTENT_TYPE.to_cbor_value()?, content_type.to_cbor_value()?));«
            proof { lemma_hdr_step(h0, 3, m2, map@.last().0, map@.last().1); }»
        }«
        let ghost m3 = map@;
        proof { if !typed_present(h0, Label::Int(3)) { lemma_hdr_skip(h0, 3, m2); } }»
        if !self_.key_id.is_empty() {
            map.push((KID.to_cbor_value()?, Value::Bytes(self_.key_id)));«
            proof { lemma_hdr_step(h0, 4, m3, map@.last().0, map@.last().1); }»
        }«
        let ghost m4 = map@;
        proof { if !typed_present(h0, Label::Int(4)) { lemma_hdr_skip(h0, 4, m3); } }»
        if !self_.iv.is_empty() {
            map.push((IV.to_cbor_value()?, Value::Bytes(self_.iv)));«
            proof { lemma_hdr_step(h0, 5, m4, map@.last().0, map@.last().1); }»
        }«
        let ghost m5 = map@;
        proof { if !typed_present(h0, Label::Int(5)) { lemma_hdr_skip(h0, 5, m4); } }»
        if !self_.partial_iv.is_empty() {
            map.push((PARTIAL_IV.to_cbor_value()?, Value::Bytes(self_.partial_iv)));«
            proof { lemma_hdr_step(h0, 6, m5, map@.last().0, map@.last().1); }»
        }«
        let ghost m6 = map@;
        proof { if !typed_present(h0, Label::Int(6)) { lemma_hdr_skip(h0, 6, m5); } }»
        if !self_.counter_signatures.is_empty() {
            if self_.counter_signatures.len() == 1 {
                // A single counter signature is encoded differently.
                map.push((
                    COUNTER_SIG.to_cbor_value()?,
                    crate::vstubs::sig_to_cbor_value__stub(self_.counter_signatures.remove(0))?,
                ));«
                proof { lemma_hdr_step(h0, 7, m6, map@.last().0, map@.last().1); }»
            } else {
                map.push((
                    COUNTER_SIG.to_cbor_value()?,
                    crate::vstubs::sigs_to_cbor_array__stub(self_.counter_signatures)?,
                ));«
                proof {
                    lemma_csigs_cv(h0, map@.last().1);
                    lemma_hdr_step(h0, 7, m6, map@.last().0, map@.last().1);
                }»
            }
        }«
        let ghost tmap = map@;
        proof {
            if !typed_present(h0, Label::Int(7)) { lemma_hdr_skip(h0, 7, m6); }
            assert(forall |i: int| 0 <= i < h0.counter_signatures@.len() ==> sig_encodable(#[trigger] h0.counter_signatures@[i]));
        }»
        // Labels already emitted for the named fields also count as seen.
        let mut seen = BTreeSet::new();«
        proof { lemma_label_obeys_cmp(); }»
        for (label, _value) in« it0:» map.iter()«
            invariant
                h0 == self, map@ == tmap,
                labels_of(tmap) == hdr_typed_labels(h0, 7),
                vstd::laws_cmp::obeys_cmp::<Label>(),
                forall |x: Label| seen@.contains(x) <==> exists |i: int| 0 <= i < it0.index@ && #[trigger] labels_of(tmap)[i] == Some(x),» {«
            broadcast use axiom_question_mark_uses_from;
            broadcast use vstd::std_specs::btree::group_btree_axioms;
            proof {
                assert(*label == tmap[it0.index@].0);
                lemma_labels_of_index(tmap, it0.index@);
                lemma_typed_labels_some(h0, 7, it0.index@);
            }»
            seen.insert(Label::from_cbor_value(label.clone())?);
        }«
        proof {
            assert(labels_of(tmap).len() == tmap.len()) by { reveal(labels_of); }
            assert forall |x: Label| seen@.contains(x) <==> typed_present(h0, x) by { lemma_typed_labels(h0, x); }
        }
        let ghost rs = self_.rest@;
        proof { lemma_rest_entries_empty(rs); assert(vv_pairs(map@) =~= hdr_typed_prefix(h0, 7) + rest_entries(rs.subrange(0, 0))); }»
        for (label, value) in« it:» self_.rest.into_iter()«
            invariant
                h0 == self, rs == h0.rest@, rs == self_.rest@,
                0 <= it.index@ <= rs.len(),
                vstd::laws_cmp::obeys_cmp::<Label>(),
                vv_pairs(map@) == hdr_typed_prefix(h0, 7) + rest_entries(rs.subrange(0, it.index@)),
                forall |x: Label| seen@.contains(x) <==> (typed_present(h0, x) || exists |i: int| 0 <= i < it.index@ && (#[trigger] rs[i]).0 == x),
                forall |i: int, j: int| 0 <= i < j < it.index@ ==> (#[trigger] rs[i]).0 != (#[trigger] rs[j]).0,
                forall |i: int| 0 <= i < it.index@ ==> !typed_present(h0, (#[trigger] rs[i]).0),
                forall |i: int| 0 <= i < h0.counter_signatures@.len() ==> sig_encodable(#[trigger] h0.counter_signatures@[i]),» {«
            broadcast use axiom_question_mark_uses_from;
            broadcast use vstd::std_specs::btree::group_btree_axioms;
            broadcast use axiom_derived_clone_label;
            let ghost n = it.index@;
            let ghost map_pre = map@;
            proof { assert(label == rs[n].0 && value == rs[n].1); }»
            if seen.contains(&label) {«
                proof {
                    if typed_present(h0, label) { assert(!rest_labels_ok(h0)); }
                    else { let i = choose |i: int| 0 <= i < n && (#[trigger] rs[i]).0 == label; assert(rs[i].0 == rs[n].0); assert(!rest_labels_ok(h0)); }
                }»
                return Err(CoseError::DuplicateMapKey);
            }
            seen.insert(label.clone());
            map.push((label.to_cbor_value()?, value));«
            proof {
                lemma_vv_pairs_push(map_pre, map@.last());
                lemma_rest_entries_push(rs, n);
                assert(vv_pairs(map@) =~= hdr_typed_prefix(h0, 7) + rest_entries(rs.subrange(0, n + 1)));
            }»
        }«
        proof {
            lemma_rest_entries_empty(rs);
            assert(rest_labels_ok(h0));
            reveal(hdr_typed_prefix);
            lemma_vv_map(map);
        }»
        Ok(Value::Map(map))
    }
}

/// Builder for [`Header`] objects.
#[derive(Debug, Default)]
pub struct HeaderBuilder(Header);

impl HeaderBuilder {
    
        /// Constructor for builder.
        pub fn new() -> Self {
            Self(<Header>::default())
        }
        /// Build the completed object.
        pub fn build(self) -> Header {
            self.0
        }
    
    
        /// Set the associated field.
        #[must_use]
        pub fn key_id(self, key_id: Vec<u8>) -> Self { let mut self_ = self;
            self_.0.key_id = key_id;
            self_
        }
    

    /// Set the algorithm.
    #[must_use]
    pub fn algorithm(self, alg: iana::Algorithm) ->« (r:» Self«)
        ensures hb_step(self.inner(), r.inner()), r.inner() == (Header { alg: Some(Algorithm::Assigned(alg)), ..self.inner() }),» { let mut self_ = self;
        self_.0.alg = Some(Algorithm::Assigned(alg));
        self_
    }

    /// Add a critical header.
    #[must_use]
    pub fn add_critical(self, param: iana::HeaderParameter) ->« (r:» Self«)
        ensures hb_step(self.inner(), r.inner()), r.inner() == (Header { crit: r.inner().crit, ..self.inner() }), r.inner().crit@ == self.inner().crit@.push(RegisteredLabel::Assigned(param)),» { let mut self_ = self;
        self_.0.crit.push(RegisteredLabel::Assigned(param));
        self_
    }

    /// Add a critical header.
    #[must_use]
    pub fn add_critical_label(self, label: RegisteredLabel<iana::HeaderParameter>) ->« (r:» Self«)
        ensures hb_step(self.inner(), r.inner()), r.inner() == (Header { crit: r.inner().crit, ..self.inner() }), r.inner().crit@ == self.inner().crit@.push(label),» { let mut self_ = self;
        self_.0.crit.push(label);
        self_
    }

    /// Set the content type to a numeric value.
    #[must_use]
    pub fn content_format(self, content_type: iana::CoapContentFormat) ->« (r:» Self«)
        ensures hb_step(self.inner(), r.inner()), r.inner() == (Header { content_type: Some(ContentType::Assigned(content_type)), ..self.inner() }),» { let mut self_ = self;
        self_.0.content_type = Some(ContentType::Assigned(content_type));
        self_
    }

    /// Set the content type to a text value.
    #[must_use]
    pub fn content_type(self, content_type: String) ->« (r:» Self«)
        ensures hb_step(self.inner(), r.inner()), r.inner() == (Header { content_type: Some(ContentType::Text(content_type)), ..self.inner() }),» { let mut self_ = self;
        self_.0.content_type = Some(ContentType::Text(content_type));
        self_
    }

    /// Set the IV, and clear any partial IV already set.
    #[must_use]
    pub fn iv(self, iv: Vec<u8>) ->« (r:» Self«)
        ensures hb_step(self.inner(), r.inner()), r.inner() == (Header { iv: iv, partial_iv: r.inner().partial_iv, ..self.inner() }), r.inner().partial_iv@.len() == 0,» { let mut self_ = self;
        self_.0.iv = iv;
        self_.0.partial_iv.clear();
        self_
    }

    /// Set the partial IV, and clear any IV already set.
    #[must_use]
    pub fn partial_iv(self, iv: Vec<u8>) ->« (r:» Self«)
        ensures hb_step(self.inner(), r.inner()), r.inner() == (Header { partial_iv: iv, iv: r.inner().iv, ..self.inner() }), r.inner().iv@.len() == 0,» { let mut self_ = self;
        self_.0.partial_iv = iv;
        self_.0.iv.clear();
        self_
    }

    /// Add a counter signature.
    #[must_use]
    pub fn add_counter_signature(self, sig: CoseSignature) ->« (r:» Self«)
        ensures hb_step(self.inner(), r.inner()), r.inner() == (Header { counter_signatures: r.inner().counter_signatures, ..self.inner() }), r.inner().counter_signatures@ == self.inner().counter_signatures@.push(sig),» { let mut self_ = self;
        self_.0.counter_signatures.push(sig);
        self_
    }

    /// Set a header label:value pair. If duplicate labels are added to a [`Header`],
    /// subsequent attempts to CBOR-encode the header will fail.
    ///
    /// # Panics
    ///
    /// This function will panic if it used to set a header label from the range [1, 6].
    #[must_use]
    pub fn value(self, label: i64, value: Value) ->« (r:» Self«)
        requires !(1 <= label <= 7),
        ensures hb_step(self.inner(), r.inner()), r.inner() == (Header { rest: r.inner().rest, ..self.inner() }), r.inner().rest@ == self.inner().rest@.push((Label::Int(label), value)),» { let mut self_ = self;
        if label >= iana::HeaderParameter::Alg.to_i64()
            && label <= iana::HeaderParameter::CounterSignature.to_i64()
        {
            panic!("value() method used to set core header parameter"); // safe: invalid input
        }
        self_.0.rest.push((Label::Int(label), value));
        self_
    }

    /// Set a header label:value pair where the `label` is text.
    #[must_use]
    pub fn text_value(self, label: String, value: Value) ->« (r:» Self«)
        ensures hb_step(self.inner(), r.inner()), r.inner() == (Header { rest: r.inner().rest, ..self.inner() }), r.inner().rest@ == self.inner().rest@.push((Label::Text(label), value)),» { let mut self_ = self;
        self_.0.rest.push((Label::Text(label), value));
        self_
    }
}

/// Structure representing a protected COSE header map.
#[verifier::external_derive(Clone)]
#[derive(Clone, Debug, Default, PartialEq)]
pub struct ProtectedHeader {
    /// If this structure was created by parsing serialized data, this field
    /// holds the entire contents of the original `bstr` data.
    pub original_data: Option<Vec<u8>>,
    /// Parsed header information.
    pub header: Header,
}«

»

impl ProtectedHeader {
    /// Constructor from a [`Value`] that holds a `bstr` encoded header.
    #[inline]
    pub fn from_cbor_bstr(val: Value) ->« (r:» Result<Self>«)
        ensures
            r is Ok <==> prot_ok(val, 0),
            r matches Ok(p) ==> prot_res(val, 0, p),» {
        Self::from_cbor_bstr_nested(val, 0)
    }

    /// Variant of [`Self::from_cbor_bstr`] for a header that sits `depth` protected headers deep.
    pub(crate) fn from_cbor_bstr_nested(val: Value, depth: usize) ->« (r:» Result<Self>«)
        ensures
            r is Ok <==> prot_ok(val, depth as nat),
            r matches Ok(p) ==> prot_res(val, depth as nat, p),
        decreases max_nest() - depth, val, 5nat» {«
        broadcast use axiom_question_mark_uses_from;»
        let data = val.try_as_bytes()?;
        let header = if data.is_empty() {
            // An empty bstr is used as a short cut for an empty header map.
            Header::default()
        } else if depth >= MAX_HEADER_NESTING {
            return Err(CoseError::DecodeFailed(
                crate::cbor::de::Error::RecursionLimitExceeded,
            ));
        } else {
            Header::from_cbor_value_nested(crate::common::read_to_value(&data)?, depth + 1)?
        };
        Ok(ProtectedHeader {
            original_data: Some(data),
            header,
        })
    }

    /// Convert this header to a `bstr` encoded map, as a [`Value`], consuming the object along the
    /// way.
    #[inline]
    pub fn cbor_bstr(self) ->« (r:» Result<Value>«)
        ensures r is Ok <==> prot_encodable(self),
                r matches Ok(v) ==> (v matches Value::Bytes(d) && d@ == prot_slot(self)),» {«
        broadcast use crate::vprelude::axiom_question_mark_uses_from;»
        Ok(Value::Bytes(
            if let Some(original_data) = self.original_data {
                original_data
            } else if self.is_empty() {
                vec![]
            } else {
                self.to_vec()?
            },
        ))
    }

    /// Indicate whether the `ProtectedHeader` is empty.
    pub fn is_empty(&self) ->« (r:» bool«)
        ensures r == hdr_is_empty(self.header)» {
        self.header.is_empty()
    }
}

impl crate::CborSerializable for ProtectedHeader {}

impl AsCborValue for ProtectedHeader {«
    open spec fn dec_rel(value: Value, r: Result<Self>) -> bool {
        (r is Ok <==> hdr_ok(value, 0))
        && (r matches Ok(p) ==> (p.original_data is None && Header::dec_rel(value, Ok::<Header, CoseError>(p.header))))
    }
    open spec fn enc_rel(self, r: Result<Value>) -> bool { self.header.enc_rel(r) }»
    fn from_cbor_value(value: Value) -> Result<Self> {
        Ok(ProtectedHeader {
            original_data: None,
            header: Header::from_cbor_value(value)?,
        })
    }

    fn to_cbor_value(self) -> Result<Value> {
        self.header.to_cbor_value()
    }
}
