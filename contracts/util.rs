// Copyright 2021 Google LLC
//
// Licensed under the Apache License, Version 2.0 (the "License");
// you may not use this file except in compliance with the License.
// You may obtain a copy of the License at
//
//      http://www.apache.org/licenses/LICENSE-2.0
//
// Unless required by applicable law or agreed to in writing, software
// distributed under the License is distributed on an "AS IS" BASIS,
// WITHOUT WARRANTIES OR CONDITIONS OF ANY KIND, either express or implied.
// See the License for the specific language governing permissions and
// limitations under the License.
//
////////////////////////////////////////////////////////////////////////////////



use crate::{
    cbor::value::{Integer, Value},
    common::AsCborValue,
    CoseError, Result,
};
use alloc::{boxed::Box, string::String, vec::Vec};


/// Return an error indicating that an unexpected CBOR type was encountered.
pub(crate) fn cbor_type_error<T>(value: &Value, want: &'static str) ->« (r:» Result<T>«)
    ensures r matches Err(e) && e is UnexpectedItem» {
    let got = match value {
        Value::Integer(_) => "int",
        Value::Bytes(_) => "bstr",
        Value::Float(_) => "float",
        Value::Text(_) => "tstr",
        Value::Bool(_) => "bool",
        Value::Null => "nul",
        Value::Tag(_, _) => "tag",
        Value::Array(_) => "array",
        Value::Map(_) => "map",
        _ => "other",
    };
    Err(CoseError::UnexpectedItem(got, want))
}

/// Trait which augments the [`Value`] type with methods for convenient conversions to contained
/// types which throw a [`CoseError`] if the Value is not of the expected type.
pub(crate) trait ValueTryAs
where
    Self: Sized,
{
    /// Extractor for [`Value::Integer`]
    fn try_as_integer(self) -> Result<Integer>;

    /// Extractor for [`Value::Bytes`]
    fn try_as_bytes(self) -> Result<Vec<u8>>;

    /// Extractor for [`Value::Bytes`] which also throws an error if the byte string is zero length
    fn try_as_nonempty_bytes(self) -> Result<Vec<u8>>;

    /// Extractor for [`Value::Array`]
    fn try_as_array(self) -> Result<Vec<Self>>;

    /// Extractor for [`Value::Array`] which applies `f` to each item to build a new [`Vec`]
    fn try_as_array_then_convert<F, T>(self, f: F) -> Result<Vec<T>>
    where
        F: Fn(Value) -> Result<T>«,
        requires forall |v: Value| call_requires(f, (v,))»;

    /// Extractor for [`Value::Map`]
    fn try_as_map(self) -> Result<Vec<(Self, Self)>>;

    /// Extractor for [`Value::Tag`]
    fn try_as_tag(self) -> Result<(u64, Box<Value>)>;

    /// Extractor for [`Value::Text`]
    fn try_as_string(self) -> Result<String>;
}

impl ValueTryAs for Value {
    fn try_as_integer(self) ->« (r:» Result<Integer>«)
        ensures self matches Value::Integer(i) ==> r == Ok::<Integer, CoseError>(i),
                !(self is Integer) ==> (r matches Err(e) && e is UnexpectedItem),» {
        if let Value::Integer(i) = self {
            Ok(i)
        } else {
            cbor_type_error(&self, "int")
        }
    }

    fn try_as_bytes(self) ->« (r:» Result<Vec<u8>>«)
        ensures self matches Value::Bytes(b) ==> r == Ok::<Vec<u8>, CoseError>(b),
                !(self is Bytes) ==> (r matches Err(e) && e is UnexpectedItem),» {
        if let Value::Bytes(b) = self {
            Ok(b)
        } else {
            cbor_type_error(&self, "bstr")
        }
    }

    fn try_as_nonempty_bytes(self) ->« (r:» Result<Vec<u8>>«)
        ensures self matches Value::Bytes(b) ==> (if b@.len() > 0» {« r == Ok::<Vec<u8>, CoseError>(b) } else { r matches Err(e) && e is UnexpectedItem }),
                !(self is Bytes) ==> (r matches Err(e) && e is UnexpectedItem),
    {»
        let v = self.try_as_bytes()?;
        if v.is_empty() {
            return Err(CoseError::UnexpectedItem("empty bstr", "non-empty bstr"));
        }
        Ok(v)
    }

    fn try_as_array(self) ->« (r:» Result<Vec<Self>>«)
        ensures self matches Value::Array(a) ==> r == Ok::<Vec<Value>, CoseError>(a),
                !(self is Array) ==> (r matches Err(e) && e is UnexpectedItem),» {
        if let Value::Array(a) = self {
            Ok(a)
        } else {
            cbor_type_error(&self, "array")
        }
    }«// A-HOF: iterator adapters (`map`, `collect::<Result<Vec<_>,_>>`) are outside Verus' reach; the contract below is
    // the std-documented meaning (element-wise, in order, first error wins) and is ASSUMED.
    #[verifier::external_body]»

    fn try_as_array_then_convert<F, T>(self, f: F) ->« (r:» Result<Vec<T>>«)»
    where
        F: Fn(Value) -> Result<T>,«
        ensures
            !(self is Array) ==> (r matches Err(e) && e is UnexpectedItem),
            self is Array ==> match r {
                Ok(out) => out@.len() == arr_of(self).len() && forall |i: int| 0 <= i < out@.len() ==> call_ensures(f, (#[trigger] arr_of(self)[i],), Ok::<T, CoseError>(out@[i])),
                Err(e) => exists |i: int| 0 <= i < arr_of(self).len() && call_ensures(f, (#[trigger] arr_of(self)[i],), Err::<T, CoseError>(e)),
            },»
    {
        self.try_as_array()?
            .into_iter()
            .map(f)
            .collect::<Result<Vec<_>, _>>()
    }

    fn try_as_map(self) ->« (r:» Result<Vec<(Self, Self)>>«)
        ensures self matches Value::Map(a) ==> r == Ok::<Vec<(Value, Value)>, CoseError>(a),
                !(self is Map) ==> (r matches Err(e) && e is UnexpectedItem),» {
        if let Value::Map(a) = self {
            Ok(a)
        } else {
            cbor_type_error(&self, "map")
        }
    }

    fn try_as_tag(self) ->« (r:» Result<(u64, Box<Value>)>«)
        ensures self matches Value::Tag(t, b) ==> r == Ok::<(u64, Box<Value>), CoseError>((t, b)),
                !(self is Tag) ==> (r matches Err(e) && e is UnexpectedItem),» {
        if let Value::Tag(a, v) = self {
            Ok((a, v))
        } else {
            cbor_type_error(&self, "tag")
        }
    }

    fn try_as_string(self) ->« (r:» Result<String>«)
        ensures self matches Value::Text(t) ==> r == Ok::<String, CoseError>(t),
                !(self is Text) ==> (r matches Err(e) && e is UnexpectedItem),» {
        if let Value::Text(s) = self {
            Ok(s)
        } else {
            cbor_type_error(&self, "tstr")
        }
    }
}«

/// Convert each item of an iterator to CBOR, and wrap the lot in
/// a [`Value::Array`]
use crate::vprelude::*;
pub uninterp spec fn iter_enc_ok<C>(c: C, a: Seq<Value>) -> bool;
pub uninterp spec fn iter_enc_err<C>(c: C, e: CoseError) -> bool;
pub broadcast axiom fn axiom_iter_enc_err_vec<T: AsCborValue>(v: Vec<T>, e: CoseError)
    ensures #[trigger] iter_enc_err::<Vec<T>>(v, e) ==> exists |i: int| 0 <= i < v@.len() && (#[trigger] v@[i]).enc_rel(Err::<Value, CoseError>(e));
pub broadcast axiom fn axiom_iter_enc_err_btreeset<T: AsCborValue + Ord>(s: alloc::collections::BTreeSet<T>, e: CoseError)
    ensures #[trigger] iter_enc_err::<alloc::collections::BTreeSet<T>>(s, e) ==> exists |x: T| s@.contains(x) && #[trigger] x.enc_rel(Err::<Value, CoseError>(e));
pub broadcast axiom fn axiom_iter_enc_ok_vec<T: AsCborValue>(v: Vec<T>, a: Seq<Value>)
    ensures #[trigger] iter_enc_ok::<Vec<T>>(v, a) ==> (a.len() == v@.len() && forall |i: int| 0 <= i < a.len() ==> (#[trigger] v@[i]).enc_rel(Ok::<Value, CoseError>(a[i])));
pub broadcast axiom fn axiom_iter_enc_ok_btreeset<T: AsCborValue + Ord>(s: alloc::collections::BTreeSet<T>, a: Seq<Value>)
    ensures #[trigger] iter_enc_ok::<alloc::collections::BTreeSet<T>>(s, a) ==> exists |is: Seq<T>| #![auto] is.len() == a.len() && is.no_duplicates()
        && (forall |x: T| is.contains(x) <==> s@.contains(x))
        && (forall |i: int| 0 <= i < a.len() ==> (#[trigger] is[i]).enc_rel(Ok::<Value, CoseError>(a[i])));
#[verifier::external_body]»

/// Convert each item of an iterator to CBOR, and wrap the lot in
/// a [`Value::Array`]
pub fn to_cbor_array<C>(c: C) ->« (r:» Result<Value>«)»
where
    C: IntoIterator,
    C::Item: AsCborValue,«
    ensures
        r matches Ok(v) ==> v is Array,
        r matches Ok(v) ==> (v matches Value::Array(a) ==> iter_enc_ok::<C>(c, a@)),
        r matches Err(e) ==> iter_enc_err::<C>(c, e),»
{
    Ok(Value::Array(
        c.into_iter()
            .map(|e| e.to_cbor_value())
            .collect::<Result<Vec<_>, _>>()?,
    ))
}

// Macros to reduce boilerplate when creating `CoseSomethingBuilder` structures.

