// Deterministic CBOR encoding (RFC 8949 section 4.2.1 core requirements: shortest heads, definite lengths) as an explicit
// spec function, and the byte-level lemmas the properties need: head monotonicity / prefix-freeness, injectivity of the
// 3/4/5-slot structures, label order == order of encodings.  `enc` (what ciborium emits) is tied to `det_enc` by S1 (assumed).
mod vcbor {
use vstd::prelude::*;
use crate::vprelude::*;
use crate::{Label};
use crate::common::{label_cmp, label_cv};
use core::cmp::Ordering;
verus!{
pub open spec fn pow256(k: nat) -> nat decreases k { if k == 0 { 1 } else { 256 * pow256((k - 1) as nat) } }
/// big-endian, k bytes
pub open spec fn be(n: nat, k: nat) -> Seq<u8> decreases k {
    if k == 0 { Seq::empty() } else { be(n / 256, (k - 1) as nat).push((n % 256) as u8) }
}
pub proof fn lemma_be_len(n: nat, k: nat) ensures be(n, k).len() == k decreases k { if k > 0 { lemma_be_len(n / 256, (k - 1) as nat); } }
proof fn lemma_lex_push(p1: Seq<u8>, p2: Seq<u8>, x: u8, y: u8)
    requires p1.len() == p2.len()
    ensures lex_cmp(p1.push(x), p2.push(y)) == (if lex_cmp(p1, p2) is Equal { if x < y { Ordering::Less } else if x == y { Ordering::Equal } else { Ordering::Greater } } else { lex_cmp(p1, p2) })
    decreases p1.len()
{
    reveal_with_fuel(lex_cmp, 3);
    if p1.len() == 0 {
        assert(p1.push(x).skip(1) =~= Seq::<u8>::empty());
        assert(p2.push(y).skip(1) =~= Seq::<u8>::empty());
        assert(p1 =~= Seq::<u8>::empty() && p2 =~= Seq::<u8>::empty());
        assert(p1.push(x)[0] == x && p2.push(y)[0] == y);
    } else {
        assert(p1.push(x)[0] == p1[0] && p2.push(y)[0] == p2[0]);
        assert(p1.push(x).skip(1) =~= p1.skip(1).push(x));
        assert(p2.push(y).skip(1) =~= p2.skip(1).push(y));
        lemma_lex_push(p1.skip(1), p2.skip(1), x, y);
    }
}
proof fn lemma_be_mono(a: nat, b: nat, k: nat)
    requires a < b < pow256(k)
    ensures lex_cmp(be(a, k), be(b, k)) is Less
    decreases k
{
    if k == 0 { } else {
        lemma_be_len(a / 256, (k - 1) as nat); lemma_be_len(b / 256, (k - 1) as nat);
        lemma_lex_push(be(a / 256, (k - 1) as nat), be(b / 256, (k - 1) as nat), (a % 256) as u8, (b % 256) as u8);
        if a / 256 < b / 256 {
            assert(b / 256 < pow256((k - 1) as nat)) by (nonlinear_arith) requires b < 256 * pow256((k - 1) as nat);
            lemma_be_mono(a / 256, b / 256, (k - 1) as nat);
        } else {
            assert(a / 256 == b / 256);
            lemma_lex_refl(be(a / 256, (k - 1) as nat));
        }
    }
}
proof fn lemma_be_inj(a: nat, b: nat, k: nat)
    requires a < pow256(k), b < pow256(k), be(a, k) == be(b, k)
    ensures a == b
    decreases k
{
    if k > 0 {
        let pa = be(a / 256, (k - 1) as nat); let pb = be(b / 256, (k - 1) as nat);
        lemma_be_len(a / 256, (k - 1) as nat); lemma_be_len(b / 256, (k - 1) as nat);
        assert(pa =~= be(a, k).drop_last());
        assert(pb =~= be(b, k).drop_last());
        assert(be(a, k).last() == (a % 256) as u8);
        assert(be(b, k).last() == (b % 256) as u8);
        assert(a / 256 < pow256((k - 1) as nat)) by (nonlinear_arith) requires a < 256 * pow256((k - 1) as nat);
        assert(b / 256 < pow256((k - 1) as nat)) by (nonlinear_arith) requires b < 256 * pow256((k - 1) as nat);
        lemma_be_inj(a / 256, b / 256, (k - 1) as nat);
    }
}
pub open spec fn width(n: nat) -> nat { if n < 24 { 0 } else if n < 0x100 { 1 } else if n < 0x10000 { 2 } else if n < 0x1_0000_0000 { 4 } else { 8 } }
pub open spec fn info(n: nat) -> nat { if n < 24 { n } else if n < 0x100 { 24 } else if n < 0x10000 { 25 } else if n < 0x1_0000_0000 { 26 } else { 27 } }
/// shortest-form CBOR head: initial byte (major type, additional information) and big-endian argument
pub open spec fn head(major: nat, n: nat) -> Seq<u8> { seq![(major * 32 + info(n)) as u8] + be(n, width(n)) }
pub open spec fn u64max() -> nat { 0x1_0000_0000_0000_0000 }
proof fn lemma_pow() ensures pow256(0) == 1, pow256(1) == 0x100, pow256(2) == 0x10000, pow256(4) == 0x1_0000_0000, pow256(8) == 0x1_0000_0000_0000_0000 {
    reveal_with_fuel(pow256, 10);
}
pub proof fn lemma_lex_cons(h1: u8, r1: Seq<u8>, h2: u8, r2: Seq<u8>)
    ensures lex_cmp(seq![h1] + r1, seq![h2] + r2) == (if h1 < h2 { Ordering::Less } else if h1 > h2 { Ordering::Greater } else { lex_cmp(r1, r2) })
{
    assert((seq![h1] + r1).skip(1) =~= r1);
    assert((seq![h2] + r2).skip(1) =~= r2);
}
/// equal-length prefixes decide, unless equal
pub proof fn lemma_lex_concat(p1: Seq<u8>, r1: Seq<u8>, p2: Seq<u8>, r2: Seq<u8>)
    requires p1.len() == p2.len()
    ensures lex_cmp(p1 + r1, p2 + r2) == (if lex_cmp(p1, p2) is Equal { lex_cmp(r1, r2) } else { lex_cmp(p1, p2) })
    decreases p1.len()
{
    if p1.len() == 0 {
        assert(p1 + r1 =~= r1); assert(p2 + r2 =~= r2);
    } else {
        assert((p1 + r1)[0] == p1[0] && (p2 + r2)[0] == p2[0]);
        assert((p1 + r1).skip(1) =~= p1.skip(1) + r1);
        assert((p2 + r2).skip(1) =~= p2.skip(1) + r2);
        lemma_lex_concat(p1.skip(1), r1, p2.skip(1), r2);
    }
}
/// heads of the same major type order like their arguments, and keep doing so in front of any content
pub proof fn lemma_head_mono_concat(major: nat, a: nat, r1: Seq<u8>, b: nat, r2: Seq<u8>)
    requires major < 8, a < b < u64max()
    ensures lex_cmp(head(major, a) + r1, head(major, b) + r2) is Less, head(major, a).len() <= head(major, b).len(),
{
    lemma_pow();
    lemma_be_len(a, width(a)); lemma_be_len(b, width(b));
    let ha = (major * 32 + info(a)) as u8; let hb = (major * 32 + info(b)) as u8;
    assert(head(major, a) + r1 =~= seq![ha] + (be(a, width(a)) + r1));
    assert(head(major, b) + r2 =~= seq![hb] + (be(b, width(b)) + r2));
    lemma_lex_cons(ha, be(a, width(a)) + r1, hb, be(b, width(b)) + r2);
    if info(a) == info(b) {
        if a >= 24 {
            lemma_be_mono(a, b, width(a));
            lemma_lex_concat(be(a, width(a)), r1, be(b, width(b)), r2);
        }
    }
}
pub proof fn lemma_head_mono(major: nat, a: nat, b: nat)
    requires major < 8, a < b < u64max()
    ensures lex_cmp(head(major, a), head(major, b)) is Less
{
    lemma_head_mono_concat(major, a, Seq::<u8>::empty(), b, Seq::<u8>::empty());
    assert(head(major, a) + Seq::<u8>::empty() =~= head(major, a));
    assert(head(major, b) + Seq::<u8>::empty() =~= head(major, b));
}
pub proof fn lemma_head_major_order(m1: nat, a: nat, r1: Seq<u8>, m2: nat, b: nat, r2: Seq<u8>)
    requires m1 < m2 < 8, a < u64max(), b < u64max()
    ensures lex_cmp(head(m1, a) + r1, head(m2, b) + r2) is Less
{
    let ha = (m1 * 32 + info(a)) as u8; let hb = (m2 * 32 + info(b)) as u8;
    assert(head(m1, a) + r1 =~= seq![ha] + (be(a, width(a)) + r1));
    assert(head(m2, b) + r2 =~= seq![hb] + (be(b, width(b)) + r2));
    lemma_lex_cons(ha, be(a, width(a)) + r1, hb, be(b, width(b)) + r2);
}
/// heads are prefix-free: what follows a head is determined
pub proof fn lemma_head_pfree(m1: nat, a: nat, r1: Seq<u8>, m2: nat, b: nat, r2: Seq<u8>)
    requires m1 < 8, m2 < 8, a < u64max(), b < u64max(), head(m1, a) + r1 == head(m2, b) + r2
    ensures m1 == m2, a == b, r1 == r2
{
    lemma_pow();
    let x = head(m1, a) + r1; let y = head(m2, b) + r2;
    lemma_be_len(a, width(a)); lemma_be_len(b, width(b));
    assert(x[0] == (m1 * 32 + info(a)) as u8);
    assert(y[0] == (m2 * 32 + info(b)) as u8);
    assert(m1 == m2 && info(a) == info(b));
    assert(width(a) == width(b));
    let w = width(a);
    assert(be(a, w) =~= x.subrange(1, 1 + w as int));
    assert(be(b, w) =~= y.subrange(1, 1 + w as int));
    if a >= 24 { lemma_be_inj(a, b, w); }
    assert(r1 =~= x.subrange(1 + w as int, x.len() as int));
    assert(r2 =~= y.subrange(1 + w as int, y.len() as int));
}
/// byte / text string items: head(major, len) ++ content
pub open spec fn enc_str(major: nat, c: Seq<u8>) -> Seq<u8> { head(major, c.len()) + c }
pub open spec fn small(s: Seq<u8>) -> bool { s.len() < u64max() }
pub proof fn lemma_str_pfree(m1: nat, c1: Seq<u8>, r1: Seq<u8>, m2: nat, c2: Seq<u8>, r2: Seq<u8>)
    requires m1 < 8, m2 < 8, small(c1), small(c2), enc_str(m1, c1) + r1 == enc_str(m2, c2) + r2
    ensures m1 == m2, c1 == c2, r1 == r2
{
    assert(enc_str(m1, c1) + r1 =~= head(m1, c1.len()) + (c1 + r1));
    assert(enc_str(m2, c2) + r2 =~= head(m2, c2.len()) + (c2 + r2));
    lemma_head_pfree(m1, c1.len(), c1 + r1, m2, c2.len(), c2 + r2);
    assert(c1 =~= (c1 + r1).subrange(0, c1.len() as int));
    assert(c2 =~= (c2 + r2).subrange(0, c2.len() as int));
    assert(r1 =~= (c1 + r1).subrange(c1.len() as int, (c1 + r1).len() as int));
    assert(r2 =~= (c2 + r2).subrange(c2.len() as int, (c2 + r2).len() as int));
}

// ---- deterministic encoding of the data model
pub open spec fn det_enc(cv: CV) -> Seq<u8>
    decreases cv, 0nat
{
    match cv {
        CV::Int(i) => if 0 <= i < u64max() { head(0, i as nat) } else if -(u64max() as int) <= i < 0 { head(1, (-1 - i) as nat) } else { Seq::<u8>::empty() },
        CV::Bytes(b) => enc_str(2, b),
        CV::Text(t) => enc_str(3, utf8(t)),
        CV::Array(s) => head(4, s.len()) + det_enc_seq(s, s.len() as int),
        CV::Map(m) => head(5, m.len()) + det_enc_pairs(m, m.len() as int),
        CV::Tag(t, b) => head(6, t as nat) + det_enc(*b),
        CV::Bool(b) => if b { seq![0xf5u8] } else { seq![0xf4u8] },
        CV::Null => seq![0xf6u8],
        _ => enc_unspecified(cv),
    }
}
pub uninterp spec fn enc_unspecified(cv: CV) -> Seq<u8>;
/// concatenated encodings of the first n elements
pub open spec fn det_enc_seq(s: Seq<CV>, n: int) -> Seq<u8>
    decreases s, n
{
    if n <= 0 || n > s.len() { Seq::<u8>::empty() } else { det_enc_seq(s, n - 1) + det_enc(s[n - 1]) }
}
pub open spec fn det_enc_pairs(m: Seq<(CV, CV)>, n: int) -> Seq<u8>
    decreases m, n
{
    if n <= 0 || n > m.len() { Seq::<u8>::empty() } else { det_enc_pairs(m, n - 1) + det_enc(m[n - 1].0) + det_enc(m[n - 1].1) }
}
/// values whose encoding S1 speaks about: no floats / simple values, integers within CBOR's range, lengths below 2^64
pub open spec fn det_domain(cv: CV) -> bool
    decreases cv
{
    match cv {
        CV::Int(i) => -(u64max() as int) <= i < u64max(),
        CV::Bytes(b) => small(b),
        CV::Text(t) => small(utf8(t)),
        CV::Array(s) => s.len() < u64max() && forall |i: int| 0 <= i < s.len() ==> det_domain(#[trigger] s[i]),
        CV::Map(m) => m.len() < u64max() && forall |i: int| 0 <= i < m.len() ==> det_domain((#[trigger] m[i]).0) && det_domain(m[i].1),
        CV::Tag(t, b) => det_domain(*b),
        CV::Bool(b) => true,
        CV::Null => true,
        _ => false,
    }
}
/// S1 (ASSUMED, A-SER): on that domain ciborium's serializer emits exactly the deterministic encoding
/// (it always writes definite lengths and the shortest head; map entries in the order given)
pub broadcast axiom fn axiom_enc_is_det(cv: CV)
    requires det_domain(cv),
    ensures #[trigger] enc(cv) == det_enc(cv);

// ---- labels: order == order of encodings (C16)
pub open spec fn enc_label(l: Label) -> Seq<u8> { det_enc(label_cv(l)) }
pub open spec fn len_first_cmp(a: Seq<u8>, b: Seq<u8>) -> Ordering {
    if a.len() != b.len() { int_cmp(a.len() as int, b.len() as int) } else { lex_cmp(a, b) }
}
pub proof fn lemma_label_order_is_encoding_order(a: Label, b: Label)
    requires small(utf8(label_text(a))), small(utf8(label_text(b))),
    ensures label_cmp(a, b) == lex_cmp(enc_label(a), enc_label(b)),
{
    let e = Seq::<u8>::empty();
    match (a, b) {
        (Label::Int(x), Label::Int(y)) => {
            let (mx, ax): (nat, nat) = if x >= 0 { (0, x as nat) } else { (1, (-1 - x) as nat) };
            let (my, ay): (nat, nat) = if y >= 0 { (0, y as nat) } else { (1, (-1 - y) as nat) };
            assert(enc_label(a) =~= head(mx, ax) + e);
            assert(enc_label(b) =~= head(my, ay) + e);
            if mx < my { lemma_head_major_order(mx, ax, e, my, ay, e); }
            else if mx > my { lemma_head_major_order(my, ay, e, mx, ax, e); lemma_lex_anti(enc_label(b), enc_label(a)); }
            else if ax < ay { lemma_head_mono_concat(mx, ax, e, ay, e); }
            else if ax > ay { lemma_head_mono_concat(mx, ay, e, ax, e); lemma_lex_anti(enc_label(b), enc_label(a)); }
            else { lemma_lex_refl(enc_label(a)); }
        }
        (Label::Int(x), Label::Text(t)) => {
            let (mx, ax): (nat, nat) = if x >= 0 { (0, x as nat) } else { (1, (-1 - x) as nat) };
            assert(enc_label(a) =~= head(mx, ax) + e);
            lemma_head_major_order(mx, ax, e, 3, utf8(t@).len(), utf8(t@));
        }
        (Label::Text(t), Label::Int(y)) => {
            let (my, ay): (nat, nat) = if y >= 0 { (0, y as nat) } else { (1, (-1 - y) as nat) };
            assert(enc_label(b) =~= head(my, ay) + e);
            lemma_head_major_order(my, ay, e, 3, utf8(t@).len(), utf8(t@));
            lemma_lex_anti(enc_label(b), enc_label(a));
        }
        (Label::Text(s), Label::Text(t)) => {
            let us = utf8(s@); let ut = utf8(t@);
            if us.len() < ut.len() { lemma_head_mono_concat(3, us.len(), us, ut.len(), ut); }
            else if us.len() > ut.len() { lemma_head_mono_concat(3, ut.len(), ut, us.len(), us); lemma_lex_anti(enc_label(b), enc_label(a)); }
            else { lemma_lex_refl(head(3, us.len())); lemma_lex_concat(head(3, us.len()), us, head(3, ut.len()), ut); }
        }
    }
}
/// C16: the alternative comparison (computed from ciborium's output) is length-first-then-bytewise on the deterministic encodings
pub proof fn lemma_cmp_canonical_is_len_first(a: Label, b: Label)
    requires small(utf8(label_text(a))), small(utf8(label_text(b))),
    ensures crate::common::len_first_bytes_cmp(enc(label_cv(a)), enc(label_cv(b))) == len_first_cmp(enc_label(a), enc_label(b)),
{
    axiom_enc_is_det(label_cv(a)); axiom_enc_is_det(label_cv(b));
}
/// small non-negative integer labels encode to the single byte n
pub proof fn lemma_enc_label_small_int(t: i64)
    requires 0 <= t < 24,
    ensures enc_label(Label::Int(t)) == seq![t as u8],
{
    reveal_with_fuel(be, 1);
    assert(enc_label(Label::Int(t)) =~= seq![t as u8]);
}
/// every label other than the integers 0..=5 encodes to more than one byte or to a single byte above 0x05
pub proof fn lemma_enc_label_above_typed(l: Label)
    requires !(l matches Label::Int(x) && 0 <= x <= 5), small(utf8(label_text(l))),
    ensures enc_label(l).len() >= 1, enc_label(l).len() == 1 ==> enc_label(l)[0] > 5,
{
    reveal_with_fuel(be, 1);
    match l {
        Label::Int(x) => {
            if x >= 0 { lemma_be_len(x as nat, width(x as nat)); assert(enc_label(l)[0] == (info(x as nat)) as u8); }
            else { let n = (-1 - x) as nat; lemma_be_len(n, width(n)); assert(enc_label(l)[0] == (32 + info(n)) as u8); }
        }
        Label::Text(t) => {
            let u = utf8(t@);
            lemma_be_len(u.len(), width(u.len()));
            assert(enc_label(l) =~= head(3, u.len()) + u);
            assert(enc_label(l)[0] == (96 + info(u.len())) as u8);
        }
    }
}
pub proof fn lemma_len_first_typed_before_extra(t: i64, l: Label)
    requires 1 <= t <= 5, !(l matches Label::Int(x) && 0 <= x <= 5), small(utf8(label_text(l))),
    ensures len_first_cmp(enc_label(Label::Int(t)), enc_label(l)) is Less,
{
    lemma_enc_label_small_int(t);
    lemma_enc_label_above_typed(l);
    let a = enc_label(Label::Int(t)); let b = enc_label(l);
    if b.len() == 1 { reveal_with_fuel(lex_cmp, 2); assert(a[0] < b[0]); }
}
/// length-first comparison of encodings is Equal only for equal labels
pub proof fn lemma_len_first_equal_is_same(a: Label, b: Label)
    requires small(utf8(label_text(a))), small(utf8(label_text(b))), len_first_cmp(enc_label(a), enc_label(b)) is Equal,
    ensures a == b,
{
    lemma_label_order_is_encoding_order(a, b);
    crate::common::lemma_label_eq_cmp();
}
pub open spec fn label_text(l: Label) -> Seq<char> { match l { Label::Text(t) => t@, _ => Seq::<char>::empty() } }
}
}
