# D = directory holding ciborium rlibs built with Verus' toolchain (see ../README.md)
D=${CIB_DEPS:-/tmp/vx/cib/target/debug/deps}; verus ${1:-all.rs} --extern ciborium=$(ls $D/libciborium-*.rlib) --extern ciborium_io=$(ls $D/libciborium_io-*.rlib) -L dependency=$D "${@:2}" 2>&1
