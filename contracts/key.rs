// Copyright 2021 Google LLC
//
// Licensed under the Apache License, Version 2.0 (the "License");
// you may not use this file except in compliance with the License.
// You may obtain a copy of the License at
//
//      http://www.apache.org/licenses/LICENSE-2.0
//
// Unless required by applicable law or agreed to in writing, software
// distributed under the License is distributed on an "AS IS" BASIS,
// WITHOUT WARRANTIES OR CONDITIONS OF ANY KIND, either express or implied.
// See the License for the specific language governing permissions and
// limitations under the License.
//
////////////////////////////////////////////////////////////////////////////////



use crate::{
    cbor::value::Value,
    common::{AsCborValue, CborOrdering},
    iana,
    iana::EnumI64,
    util::{to_cbor_array, ValueTryAs},
    Algorithm, CoseError, Label, Result,
};
use alloc::{collections::BTreeSet, vec, vec::Vec};


/// Key type.
pub type KeyType = crate::RegisteredLabel<iana::KeyType>;

impl Default for KeyType {
    fn default() -> Self {
        KeyType::Assigned(iana::KeyType::Reserved)
    }
}

/// Key operation.
pub type KeyOperation = crate::RegisteredLabel<iana::KeyOperation>;

/// A collection of [`CoseKey`] objects.
#[verifier::external_derive(Clone)]
#[derive(Clone, Debug, Default, PartialEq)]
pub struct CoseKeySet(pub Vec<CoseKey>);

impl crate::CborSerializable for CoseKeySet {}

impl AsCborValue for CoseKeySet {«
    // COSE_KeySet = [+ COSE_Key]: accepted iff an array whose elements are all acceptable keys, yielding them in order
    open spec fn dec_rel(value: Value, r: Result<Self>) -> bool {
        (r is Ok <==> (value is Array && forall |j: int| 0 <= j < arr_of(value).len() ==> key_value_ok(#[trigger] arr_of(value)[j])))
        && (r matches Ok(ks) ==> (ks.0@.len() == arr_of(value).len()
            && forall |j: int| 0 <= j < ks.0@.len() ==> <CoseKey as AsCborValue>::dec_rel(#[trigger] arr_of(value)[j], Ok::<CoseKey, CoseError>(ks.0@[j]))))
    }
    open spec fn enc_rel(self, r: Result<Value>) -> bool {
        (r matches Ok(v) ==> (v is Array && crate::util::iter_enc_ok::<Vec<CoseKey>>(self.0, arr_of(v))))
        && (r matches Err(e) ==> crate::util::iter_enc_err::<Vec<CoseKey>>(self.0, e))
    }»
    fn from_cbor_value(value: Value) -> Result<Self> {«
        broadcast use axiom_question_mark_uses_from;»
        Ok(Self(
            value.try_as_array_then_convert(CoseKey::from_cbor_value)?,
        ))
    }

    fn to_cbor_value(self) -> Result<Value> {
        to_cbor_array(self.0)
    }
}

/// Structure representing a cryptographic key.
///
/// ```cddl
///  COSE_Key = {
///      1 => tstr / int,          ; kty
///      ? 2 => bstr,              ; kid
///      ? 3 => tstr / int,        ; alg
///      ? 4 => [+ (tstr / int) ], ; key_ops
///      ? 5 => bstr,              ; Base IV
///      * label => values
///  }
///  ```
#[verifier::external_derive(Clone)]
#[derive(Clone, Debug, Default, PartialEq)]
pub struct CoseKey {
    /// Key type identification.
    pub kty: KeyType,
    /// Key identification.
    pub key_id: Vec<u8>,
    /// Key use restriction to this algorithm.
    pub alg: Option<Algorithm>,
    /// Restrict set of possible operations.
    pub key_ops: BTreeSet<KeyOperation>,
    /// Base IV to be xor-ed with partial IVs.
    pub base_iv: Vec<u8>,
    /// Any additional parameter (label,value) pairs.  If duplicate labels are present,
    /// CBOR-encoding will fail.
    pub params: Vec<(Label, Value)>,
}

impl CoseKey {
    /// Re-order the contents of the key so that the contents will be emitted in one of the standard
    /// CBOR sorted orders.
    pub fn canonicalize(&mut self, ordering: CborOrdering)«
        ensures
            *final(self) == (CoseKey { params: final(self).params, ..*old(self) }),
            final(self).params@.len() == old(self).params@.len(),
            final(self).params@.to_multiset() == old(self).params@.to_multiset(),
            ordering is Lexicographic ==> forall |i: int, j: int| 0 <= i < j < final(self).params@.len() ==>
                !(crate::common::label_cmp((#[trigger] final(self).params@[i]).0, (#[trigger] final(self).params@[j]).0) is Greater),
            ordering is LengthFirstLexicographic ==> forall |i: int, j: int| 0 <= i < j < final(self).params@.len() ==>
                !(crate::common::len_first_bytes_cmp(crate::vprelude::enc(crate::common::label_cv((#[trigger] final(self).params@[i]).0)), crate::vprelude::enc(crate::common::label_cv((#[trigger] final(self).params@[j]).0))) is Greater),»
    {
        // The keys that are represented as named fields CBOR-encode as single bytes 0x01 - 0x05,
        // which sort before any other CBOR values (other than 0x00) in either sorting scheme:
        // - In length-first sorting, a single byte sorts before anything multi-byte and 1-5 sorts
        //   before any other value.
        // - In encoded-lexicographic sorting, there are no valid CBOR-encoded single values that
        //   start with a byte in the range 0x01 - 0x05 other than the values 1-5.
        // So we only need to sort the `params`.
        match ordering {
            CborOrdering::Lexicographic => self.params.sort_by(|l«: &(Label, Value)», r«: &(Label, Value)»|« -> (o: core::cmp::Ordering) ensures o == crate::common::label_cmp(l.0, r.0) {» l.0.cmp(&r.0)« }»),
            CborOrdering::LengthFirstLexicographic => {
                self.params.sort_by(|l«: &(Label, Value)», r«: &(Label, Value)»|« -> (o: core::cmp::Ordering) ensures o == crate::common::len_first_bytes_cmp(crate::vprelude::enc(crate::common::label_cv(l.0)), crate::vprelude::enc(crate::common::label_cv(r.0))) {» l.0.cmp_canonical(&r.0)« }»)
            }
        }
    }
}

impl crate::CborSerializable for CoseKey {}

exec const KTY: Label ensures KTY == Label::Int(1) { Label::Int(iana::KeyParameter::Kty as i64) }
exec const KID: Label ensures KID == Label::Int(2) { Label::Int(iana::KeyParameter::Kid as i64) }
exec const ALG: Label ensures ALG == Label::Int(3) { Label::Int(iana::KeyParameter::Alg as i64) }
exec const KEY_OPS: Label ensures KEY_OPS == Label::Int(4) { Label::Int(iana::KeyParameter::KeyOps as i64) }
exec const BASE_IV: Label ensures BASE_IV == Label::Int(5) { Label::Int(iana::KeyParameter::BaseIv as i64) }«

use crate::vprelude::*;
use crate::common::{wf_regp, label_of, reg_of, regp_of, nonempty_bytes, lemma_label_obeys_cmp, lemma_reglabel_obeys_cmp, axiom_derived_clone_label};

pub open spec fn keyops_ok(v: Value) -> bool {
    v matches Value::Array(a) && a@.len() > 0
    && (forall |j: int| 0 <= j < a@.len() ==> (#[trigger] reg_of::<iana::KeyOperation>(a@[j])) is Some)
    && (forall |j: int, k: int| 0 <= j < k < a@.len() ==> #[trigger] reg_of::<iana::KeyOperation>(a@[j]) != #[trigger] reg_of::<iana::KeyOperation>(a@[k]))
}
pub open spec fn key_value_ok(v: Value) -> bool { v is Map && key_wf(map_of(v)) }
pub open spec fn key_pair_ok(k: Value, v: Value) -> bool {
    label_of(k) matches Some(l) && (
        if l == Label::Int(1) { reg_of::<iana::KeyType>(v) is Some }
        else if l == Label::Int(2) { nonempty_bytes(v) }
        else if l == Label::Int(3) { regp_of::<iana::Algorithm>(v) is Some }
        else if l == Label::Int(4) { keyops_ok(v) }
        else if l == Label::Int(5) { nonempty_bytes(v) }
        else { true })
}
pub open spec fn labels_distinct(m: Seq<(Value, Value)>) -> bool {
    forall |i: int, j: int| 0 <= i < j < m.len() ==> #[trigger] label_of(m[i].0) != #[trigger] label_of(m[j].0)
}
pub open spec fn has_real_kty(m: Seq<(Value, Value)>) -> bool {
    exists |i: int| 0 <= i < m.len() && #[trigger] label_of(m[i].0) == Some(Label::Int(1))
        && reg_of::<iana::KeyType>(m[i].1) != Some(KeyType::Assigned(iana::KeyType::Reserved))
}
pub open spec fn key_wf(m: Seq<(Value, Value)>) -> bool {
    (forall |i: int| 0 <= i < m.len() ==> #[trigger] key_pair_ok(m[i].0, m[i].1))
    && labels_distinct(m)
    && has_real_kty(m)
}
// ---- C12 (decode, error kind)
pub open spec fn has_key_label(m: Seq<(Value, Value)>, n: int, l: Label) -> bool { exists |i: int| 0 <= i < n && #[trigger] label_of(m[i].0) == Some(l) }
pub open spec fn key_dup_at(m: Seq<(Value, Value)>, n: int) -> bool {
    0 <= n < m.len() && (forall |i: int| 0 <= i < n ==> #[trigger] key_pair_ok(m[i].0, m[i].1)) && labels_distinct(m.subrange(0, n))
    && (label_of(m[n].0) matches Some(l) && has_key_label(m, n, l))
}
#[verifier::opaque]
pub open spec fn key_no_dup(m: Seq<(Value, Value)>) -> bool { forall |n: int| !key_dup_at(m, n) }
proof fn lemma_key_distinct_prefix_no_dup(m: Seq<(Value, Value)>, k: int, n: int)
    requires 0 <= n < k <= m.len(), labels_distinct(m.subrange(0, k)),
    ensures !key_dup_at(m, n),
{
    if label_of(m[n].0) is Some && has_key_label(m, n, label_of(m[n].0)->0) {
        let i = choose |i: int| 0 <= i < n && #[trigger] label_of(m[i].0) == Some(label_of(m[n].0)->0);
        assert(m.subrange(0, k)[i] == m[i] && m.subrange(0, k)[n] == m[n]);
        assert(label_of(m.subrange(0, k)[i].0) != label_of(m.subrange(0, k)[n].0));
    }
}
pub proof fn lemma_key_bad_pair_no_dup(m: Seq<(Value, Value)>, k: int)
    requires 0 <= k < m.len(), labels_distinct(m.subrange(0, k)), label_of(m[k].0) matches Some(l) ==> !has_key_label(m, k, l),
    ensures !key_pair_ok(m[k].0, m[k].1) ==> key_no_dup(m),
{
    reveal(key_no_dup);
    if !key_pair_ok(m[k].0, m[k].1) {
        assert forall |n: int| !key_dup_at(m, n) by { if 0 <= n < k { lemma_key_distinct_prefix_no_dup(m, k, n); } }
    }
}
pub proof fn lemma_key_all_distinct_no_dup(m: Seq<(Value, Value)>)
    requires labels_distinct(m.subrange(0, m.len() as int)),
    ensures key_no_dup(m),
{
    reveal(key_no_dup);
    assert forall |n: int| !key_dup_at(m, n) by { if 0 <= n < m.len() { lemma_key_distinct_prefix_no_dup(m, m.len() as int, n); } }
}
pub open spec fn is_typed_key_label(l: Label) -> bool {
    l == Label::Int(1) || l == Label::Int(2) || l == Label::Int(3) || l == Label::Int(4) || l == Label::Int(5)
}
pub open spec fn params_of(m: Seq<(Value, Value)>) -> Seq<(Label, Value)>
    decreases m.len()
{
    if m.len() == 0 { Seq::empty() } else {
        let p = params_of(m.drop_last());
        match label_of(m.last().0) {
            Some(l) => if is_typed_key_label(l) { p } else { p.push((l, m.last().1)) },
            None => p,
        }
    }
}
pub open spec fn ops_enc_ok(s: Set<KeyOperation>, v: Value) -> bool {
    v matches Value::Array(a)
    && (forall |i: int| 0 <= i < a@.len() ==> ((#[trigger] reg_of::<iana::KeyOperation>(a@[i])) matches Some(x) && s.contains(x)))
    && (forall |i: int, j: int| 0 <= i < j < a@.len() ==> #[trigger] reg_of::<iana::KeyOperation>(a@[i]) != #[trigger] reg_of::<iana::KeyOperation>(a@[j]))
    && (forall |x: KeyOperation| s.contains(x) ==> exists |i: int| 0 <= i < a@.len() && #[trigger] reg_of::<iana::KeyOperation>(a@[i]) == Some(x))
}
pub open spec fn ops_dec_ok(s: Set<KeyOperation>, v: Value) -> bool {
    v matches Value::Array(a) && (forall |x: KeyOperation| s.contains(x) <==> exists |j: int| 0 <= j < a@.len() && #[trigger] reg_of::<iana::KeyOperation>(a@[j]) == Some(x))
}
// field mapping for the first n pairs of m
pub open spec fn key_fields_ok(key: CoseKey, m: Seq<(Value, Value)>, n: int) -> bool {
    (forall |i: int| 0 <= i < n && #[trigger] label_of(m[i].0) == Some(Label::Int(1)) ==> Some(key.kty) == reg_of::<iana::KeyType>(m[i].1))
    && ((forall |i: int| 0 <= i < n ==> #[trigger] label_of(m[i].0) != Some(Label::Int(1))) ==> key.kty == KeyType::Assigned(iana::KeyType::Reserved))
    && (forall |i: int| 0 <= i < n && #[trigger] label_of(m[i].0) == Some(Label::Int(2)) ==> m[i].1 == Value::Bytes(key.key_id))
    && ((forall |i: int| 0 <= i < n ==> #[trigger] label_of(m[i].0) != Some(Label::Int(2))) ==> key.key_id@.len() == 0)
    && (forall |i: int| 0 <= i < n && #[trigger] label_of(m[i].0) == Some(Label::Int(3)) ==> (key.alg is Some && key.alg == regp_of::<iana::Algorithm>(m[i].1)))
    && ((forall |i: int| 0 <= i < n ==> #[trigger] label_of(m[i].0) != Some(Label::Int(3))) ==> key.alg is None)
    && (forall |i: int| 0 <= i < n && #[trigger] label_of(m[i].0) == Some(Label::Int(4)) ==> ops_dec_ok(key.key_ops@, m[i].1))
    && ((forall |i: int| 0 <= i < n ==> #[trigger] label_of(m[i].0) != Some(Label::Int(4))) ==> key.key_ops@ == Set::<KeyOperation>::empty())
    && (forall |i: int| 0 <= i < n && #[trigger] label_of(m[i].0) == Some(Label::Int(5)) ==> m[i].1 == Value::Bytes(key.base_iv))
    && ((forall |i: int| 0 <= i < n ==> #[trigger] label_of(m[i].0) != Some(Label::Int(5))) ==> key.base_iv@.len() == 0)
}
/// C12 (encode): the extra parameters neither repeat a label nor name a populated typed field
pub open spec fn key_typed_present(k: CoseKey, l: Label) -> bool {
    l == Label::Int(1) || (l == Label::Int(2) && k.key_id@.len() > 0) || (l == Label::Int(3) && k.alg is Some)
    || (l == Label::Int(4) && k.key_ops@.len() != 0) || (l == Label::Int(5) && k.base_iv@.len() > 0)
}
pub open spec fn key_params_ok(k: CoseKey) -> bool {
    (forall |i: int, j: int| 0 <= i < j < k.params@.len() ==> (#[trigger] k.params@[i]).0 != (#[trigger] k.params@[j]).0)
    && (forall |i: int| 0 <= i < k.params@.len() ==> !key_typed_present(k, (#[trigger] k.params@[i]).0))
}
/// the typed part of an encoded key map
pub open spec fn key_head_ok(k: CoseKey, m: Seq<(Value, Value)>) -> bool {
    let o_alg = key_enc_off_alg(k); let o_ops = key_enc_off_ops(k); let o_biv = key_enc_off_biv(k); let o_p = key_enc_off_p(k);
    m.len() == o_p
    && label_of(m[0].0) == Some(Label::Int(1))
    && (k.key_id@.len() > 0 ==> label_of(m[1].0) == Some(Label::Int(2)))
    && (k.alg is Some ==> label_of(m[o_alg].0) == Some(Label::Int(3)))
    && (k.key_ops@.len() != 0 ==> label_of(m[o_ops].0) == Some(Label::Int(4)))
    && (k.base_iv@.len() > 0 ==> label_of(m[o_biv].0) == Some(Label::Int(5)))
}
pub proof fn lemma_key_head_labels(k: CoseKey, m: Seq<(Value, Value)>)
    requires key_head_ok(k, m),
    ensures
        forall |i: int| 0 <= i < m.len() ==> (#[trigger] label_of(m[i].0)) is Some,
        forall |x: Label| (exists |i: int| 0 <= i < m.len() && #[trigger] label_of(m[i].0) == Some(x)) <==> key_typed_present(k, x),
{
    let o_alg = key_enc_off_alg(k); let o_ops = key_enc_off_ops(k); let o_biv = key_enc_off_biv(k); let o_p = key_enc_off_p(k);
    assert forall |i: int| 0 <= i < m.len() implies ((#[trigger] label_of(m[i].0)) matches Some(l) && key_typed_present(k, l)) by {
        if i == 0 {} else if k.key_id@.len() > 0 && i == 1 {} else if k.alg is Some && i == o_alg {} else if k.key_ops@.len() != 0 && i == o_ops {} else if k.base_iv@.len() > 0 && i == o_biv {} else { assert(false); }
    }
    assert forall |x: Label| key_typed_present(k, x) implies exists |i: int| 0 <= i < m.len() && #[trigger] label_of(m[i].0) == Some(x) by {
        if x == Label::Int(1) { assert(label_of(m[0].0) == Some(x)); }
        else if x == Label::Int(2) { assert(label_of(m[1].0) == Some(x)); }
        else if x == Label::Int(3) { assert(label_of(m[o_alg].0) == Some(x)); }
        else if x == Label::Int(4) { assert(label_of(m[o_ops].0) == Some(x)); }
        else { assert(label_of(m[o_biv].0) == Some(x)); }
    }
}
pub proof fn lemma_key_enc_labels_distinct(k: CoseKey, m: Seq<(Value, Value)>)
    requires key_params_ok(k), key_enc_ok(k, m),
    ensures labels_distinct(m), forall |i: int| 0 <= i < m.len() ==> (#[trigger] label_of(m[i].0)) is Some,
{
    let o_alg = key_enc_off_alg(k); let o_ops = key_enc_off_ops(k); let o_biv = key_enc_off_biv(k); let o_p = key_enc_off_p(k);
    let head = m.subrange(0, o_p);
    assert(key_head_ok(k, head));
    lemma_key_head_labels(k, head);
    assert forall |i: int| 0 <= i < m.len() implies (#[trigger] label_of(m[i].0)) is Some by {
        if i < o_p { assert(head[i] == m[i]); } else { assert(label_of(m[i].0) == Some(k.params@[i - o_p].0)); }
    }
    assert forall |i: int, j: int| 0 <= i < j < m.len() implies #[trigger] label_of(m[i].0) != #[trigger] label_of(m[j].0) by {
        if i >= o_p {
            assert(label_of(m[i].0) == Some(k.params@[i - o_p].0)); assert(label_of(m[j].0) == Some(k.params@[j - o_p].0));
        } else if j >= o_p {
            assert(label_of(m[j].0) == Some(k.params@[j - o_p].0));
            assert(head[i] == m[i]);
            let l = label_of(m[i].0)->0;
            assert(key_typed_present(k, l));
        } else {
            // both typed: positions 0 < 1 <= o_alg <= o_ops <= o_biv carry 1,2,3,4,5
            if i == 0 {} else if k.key_id@.len() > 0 && i == 1 {} else if k.alg is Some && i == o_alg {} else if k.key_ops@.len() != 0 && i == o_ops {} else {}
        }
    }
}
pub open spec fn b2i(b: bool) -> int { if b { 1 } else { 0 } }
pub open spec fn key_enc_off_alg(k: CoseKey) -> int { 1 + b2i(k.key_id@.len() > 0) }
pub open spec fn key_enc_off_ops(k: CoseKey) -> int { key_enc_off_alg(k) + b2i(k.alg is Some) }
pub open spec fn key_enc_off_biv(k: CoseKey) -> int { key_enc_off_ops(k) + b2i(k.key_ops@.len() != 0) }
pub open spec fn key_enc_off_p(k: CoseKey) -> int { key_enc_off_biv(k) + b2i(k.base_iv@.len() > 0) }
pub open spec fn key_enc_ok(k: CoseKey, m: Seq<(Value, Value)>) -> bool {
    let o_alg = key_enc_off_alg(k); let o_ops = key_enc_off_ops(k); let o_biv = key_enc_off_biv(k); let o_p = key_enc_off_p(k);
    m.len() == o_p + k.params@.len()
    && label_of(m[0].0) == Some(Label::Int(1)) && reg_of::<iana::KeyType>(m[0].1) == Some(k.kty)
    && (k.key_id@.len() > 0 ==> label_of(m[1].0) == Some(Label::Int(2)) && m[1].1 == Value::Bytes(k.key_id))
    && (k.alg matches Some(a) ==> label_of(m[o_alg].0) == Some(Label::Int(3)) && (wf_regp(a) ==> regp_of::<iana::Algorithm>(m[o_alg].1) == Some(a)))
    && (k.key_ops@.len() != 0 ==> label_of(m[o_ops].0) == Some(Label::Int(4)) && ops_enc_ok(k.key_ops@, m[o_ops].1))
    && (k.base_iv@.len() > 0 ==> label_of(m[o_biv].0) == Some(Label::Int(5)) && m[o_biv].1 == Value::Bytes(k.base_iv))
    && (forall |i: int| o_p <= i < m.len() ==> label_of(#[trigger] m[i].0) == Some(k.params@[i - o_p].0) && m[i].1 == k.params@[i - o_p].1)
}
»

impl AsCborValue for CoseKey {«
    open spec fn dec_rel(value: Value, r: Result<Self>) -> bool {
            (!(value is Map) ==> r is Err)
            && (value matches Value::Map(mv) ==> (r is Ok <==> key_wf(mv@)))
            && (value matches Value::Map(mv) ==> (r matches Ok(key) ==> key.params@ == params_of(mv@) && key_fields_ok(key, mv@, mv@.len() as int)))
            && (value matches Value::Map(mv) ==> (!key_no_dup(mv@) ==> (r matches Err(e) && e is DuplicateMapKey)))
    }
    open spec fn enc_rel(self, r: Result<Value>) -> bool {
        (r is Ok <==> key_params_ok(self))
        && (r matches Ok(v) ==> (v matches Value::Map(mv) && key_enc_ok(self, mv@)))
    }
    #[verifier::loop_isolation(false)]»
    fn from_cbor_value(value: Value) ->« (r:» Result<Self>«)» {«
        broadcast use axiom_question_mark_uses_from;
        broadcast use vstd::std_specs::btree::group_btree_axioms;
        broadcast use axiom_derived_clone_label;
        proof { lemma_label_obeys_cmp(); lemma_reglabel_obeys_cmp::<iana::KeyOperation>(); }»
        let m = value.try_as_map()?;«
        let ghost ms = m@;»
        let mut key = Self::default();
        let mut seen = BTreeSet::new();
        for (l, value) in« it:» m.into_iter()«
            invariant
                0 <= it.index@ <= ms.len(),
                forall |i: int| 0 <= i < it.index@ ==> #[trigger] key_pair_ok(ms[i].0, ms[i].1),
                labels_distinct(ms.subrange(0, it.index@)),
                forall |x: Label| seen@.contains(x) <==> exists |i: int| 0 <= i < it.index@ && #[trigger] label_of(ms[i].0) == Some(x),
                key.params@ == params_of(ms.subrange(0, it.index@)),
                key_fields_ok(key, ms, it.index@),» {«
            let ghost n = it.index@;
            let ghost v0 = value;
            let ghost key_pre = key;
            proof {
                assert(l == ms[n].0 && value == ms[n].1);
                assert(key_wf(ms) ==> key_pair_ok(ms[n].0, ms[n].1));
                if label_of(ms[n].0) is None { lemma_key_bad_pair_no_dup(ms, n); }
            }»
            // The `ciborium` CBOR library does not police duplicate map keys.
            // RFC 8152 section 14 requires that COSE does police duplicates, so do it here.
            let label = Label::from_cbor_value(l)?;«
            proof { assert(label_of(ms[n].0) == Some(label)); }»
            if seen.contains(&label) {«
                proof {
                    let i0 = choose |i: int| 0 <= i < n && #[trigger] label_of(ms[i].0) == Some(label);
                    assert(label_of(ms[i0].0) == label_of(ms[n].0));
                    assert(!labels_distinct(ms));
                }»
                return Err(CoseError::DuplicateMapKey);
            }
            «proof { assert(!has_key_label(ms, n, label)); lemma_key_bad_pair_no_dup(ms, n); }»
            seen.insert(label.clone());
            match label {
                KTY => key.kty = KeyType::from_cbor_value(value)?,

                KID => {
                    key.key_id = value.try_as_nonempty_bytes()?;
                }

                ALG => key.alg = Some(Algorithm::from_cbor_value(value)?),

                KEY_OPS => {
                    let key_ops = value.try_as_array()?;«
                    let ghost ka = key_ops@;
                    proof { assert(key.key_ops@ == Set::<KeyOperation>::empty()); }»
                    for key_op in« it2:» key_ops.into_iter()«
                        invariant
                            0 <= it2.index@ <= ka.len(),
                            forall |j: int| 0 <= j < it2.index@ ==> (#[trigger] reg_of::<iana::KeyOperation>(ka[j])) is Some,
                            forall |j: int, k: int| 0 <= j < k < it2.index@ ==> #[trigger] reg_of::<iana::KeyOperation>(ka[j]) != #[trigger] reg_of::<iana::KeyOperation>(ka[k]),
                            forall |x: KeyOperation| key.key_ops@.contains(x) <==> exists |j: int| 0 <= j < it2.index@ && #[trigger] reg_of::<iana::KeyOperation>(ka[j]) == Some(x),
                            key.kty == key_pre.kty, key.key_id == key_pre.key_id, key.alg == key_pre.alg, key.base_iv == key_pre.base_iv, key.params == key_pre.params,» {«
                        let ghost j0 = it2.index@;
                        proof {
                            assert(key_op == ka[j0]);
                            assert(keyops_ok(v0) ==> reg_of::<iana::KeyOperation>(ka[j0]) is Some);
                        }»
                        if !key.key_ops.insert(KeyOperation::from_cbor_value(key_op)?) {«
                            proof {
                                let x = reg_of::<iana::KeyOperation>(ka[j0])->0;
                                let j1 = choose |j: int| 0 <= j < j0 && #[trigger] reg_of::<iana::KeyOperation>(ka[j]) == Some(x);
                                assert(reg_of::<iana::KeyOperation>(ka[j1]) == reg_of::<iana::KeyOperation>(ka[j0]));
                                assert(!keyops_ok(v0));
                            }»
                            return Err(CoseError::UnexpectedItem(
                                "repeated array entry",
                                "unique array label",
                            ));
                        }
                    }
                    if key.key_ops.is_empty() {«
                        proof {
                            if ka.len() > 0 { assert(key.key_ops@.contains(reg_of::<iana::KeyOperation>(ka[0])->0)); }
                            assert(!keyops_ok(v0));
                        }»
                        return Err(CoseError::UnexpectedItem("empty array", "non-empty array"));
                    }«
                    proof { assert(keyops_ok(v0)); assert(ops_dec_ok(key.key_ops@, v0)); }»
                }

                BASE_IV => {
                    key.base_iv = value.try_as_nonempty_bytes()?;
                }

                label => key.params.push((label, value)),
            }«
            proof {
                assert(key_pair_ok(ms[n].0, ms[n].1));
                let s1 = ms.subrange(0, n + 1);
                assert(s1.drop_last() =~= ms.subrange(0, n));
                assert(s1.last() == ms[n]);
                assert forall |i: int, j: int| 0 <= i < j < s1.len() implies #[trigger] label_of(s1[i].0) != #[trigger] label_of(s1[j].0) by {
                    if j < n { assert(label_of(ms.subrange(0, n)[i].0) != label_of(ms.subrange(0, n)[j].0)); }
                    else { if label_of(ms[i].0) == Some(label) { assert(false); } }»
        }«
            }
        }
        proof { lemma_key_all_distinct_no_dup(ms); assert(ms.subrange(0, ms.len() as int) =~= ms); }»
        // Check that key type has been set.
        if key.kty == KeyType::Assigned(iana::KeyType::Reserved) {«
            proof {
                assert forall |i: int| 0 <= i < ms.len() && #[trigger] label_of(ms[i].0) == Some(Label::Int(1)) implies reg_of::<iana::KeyType>(ms[i].1) == Some(KeyType::Assigned(iana::KeyType::Reserved)) by {}
                assert(!has_real_kty(ms));
            }»
            return Err(CoseError::UnexpectedItem(
                "no kty label",
                "mandatory kty label",
            ));
        }«
        proof {
            if forall |i: int| 0 <= i < ms.len() ==> #[trigger] label_of(ms[i].0) != Some(Label::Int(1)) { assert(false); }
            let i1 = choose |i: int| 0 <= i < ms.len() && #[trigger] label_of(ms[i].0) == Some(Label::Int(1));
            assert(reg_of::<iana::KeyType>(ms[i1].1) == Some(key.kty));
            assert(has_real_kty(ms));
        }»

        Ok(key)
    }«

    #[verifier::loop_isolation(false)]»

    fn to_cbor_value(self) -> Result<Value> {«
        broadcast use axiom_question_mark_uses_from;
        broadcast use vstd::std_specs::btree::group_btree_axioms;
        broadcast use axiom_derived_clone_label;
        broadcast use crate::util::axiom_iter_enc_err_btreeset;
        proof { lemma_label_obeys_cmp(); lemma_reglabel_obeys_cmp::<iana::KeyOperation>(); }
        let ghost k0 = self;»
        let mut map: Vec<(Value, Value)> = vec![(KTY.to_cbor_value()?, self.kty.to_cbor_value()?)];
        if !self.key_id.is_empty() {
            map.push((KID.to_cbor_value()?, Value::Bytes(self.key_id)));
        }
        if let Some(alg) = self.alg {
            map.push((ALG.to_cbor_value()?, alg.to_cbor_value()?));
        }
        if !self.key_ops.is_empty() {
            map.push((KEY_OPS.to_cbor_value()?, to_cbor_array(self.key_ops)?));«
            proof {
                broadcast use crate::util::axiom_iter_enc_ok_btreeset;
                let v = map@[map@.len() - 1].1;
                match v { Value::Array(a) => {
                    assert(crate::util::iter_enc_ok::<BTreeSet<KeyOperation>>(k0.key_ops, a@));
                    let is = choose |is: Seq<KeyOperation>| #![auto] is.len() == a@.len() && is.no_duplicates()
                        && (forall |x: KeyOperation| is.contains(x) <==> k0.key_ops@.contains(x))
                        && (forall |i: int| 0 <= i < a@.len() ==> (#[trigger] is[i]).enc_rel(Ok::<Value, CoseError>(a@[i])));
                    assert forall |i: int| 0 <= i < a@.len() implies (#[trigger] reg_of::<iana::KeyOperation>(a@[i])) == Some(is[i]) by {
                        assert(is[i].enc_rel(Ok::<Value, CoseError>(a@[i])));
                    }
                    assert forall |x: KeyOperation| k0.key_ops@.contains(x) implies exists |i: int| 0 <= i < a@.len() && #[trigger] reg_of::<iana::KeyOperation>(a@[i]) == Some(x) by {
                        assert(is.contains(x));
                        let i = choose |i: int| 0 <= i < is.len() && is[i] == x;
                        assert(reg_of::<iana::KeyOperation>(a@[i]) == Some(x));
                    }
                    assert forall |i: int| 0 <= i < a@.len() implies ((#[trigger] reg_of::<iana::KeyOperation>(a@[i])) matches Some(x) && k0.key_ops@.contains(x)) by {
                        assert(is.contains(is[i]));
                    }
                    assert(ops_enc_ok(k0.key_ops@, v));
                }, _ => {} }
            }»
        }
        if !self.base_iv.is_empty() {
            map.push((BASE_IV.to_cbor_value()?, Value::Bytes(self.base_iv)));
        }«
        let ghost head0 = map@;
        let ghost o_p = key_enc_off_p(k0);
        proof { assert(head0.len() == o_p); assert(key_head_ok(k0, head0)); lemma_key_head_labels(k0, head0); }»
        // Labels already emitted for the named fields also count as seen.
        let mut seen = BTreeSet::new();
        for (label, _value) in« it0:» map.iter()«
            invariant
                k0 == self, map@ == head0,
                vstd::laws_cmp::obeys_cmp::<Label>(),
                forall |i: int| 0 <= i < head0.len() ==> (#[trigger] label_of(head0[i].0)) is Some,
                forall |x: Label| seen@.contains(x) <==> exists |i: int| 0 <= i < it0.index@ && #[trigger] label_of(head0[i].0) == Some(x),» {«
            broadcast use axiom_question_mark_uses_from;
            broadcast use vstd::std_specs::btree::group_btree_axioms;
            proof { assert(*label == head0[it0.index@].0); }»
            seen.insert(Label::from_cbor_value(label.clone())?);
        }«
        let ghost ps = self.params@;»
        for (label, value) in« it:» self.params«
            invariant
                k0 == self, ps == k0.params@, ps == self.params@,
                vstd::laws_cmp::obeys_cmp::<Label>(),
                forall |x: Label| seen@.contains(x) <==> (key_typed_present(k0, x) || exists |i: int| 0 <= i < it.index@ && (#[trigger] ps[i]).0 == x),
                forall |i: int, j: int| 0 <= i < j < it.index@ ==> (#[trigger] ps[i]).0 != (#[trigger] ps[j]).0,
                forall |i: int| 0 <= i < it.index@ ==> !key_typed_present(k0, (#[trigger] ps[i]).0),
                0 <= it.index@ <= k0.params@.len(),
                map@.len() == o_p + it.index@,
                map@.subrange(0, o_p) == head0,
                forall |i: int| o_p <= i < map@.len() ==> label_of(#[trigger] map@[i].0) == Some(k0.params@[i - o_p].0) && map@[i].1 == k0.params@[i - o_p].1,» {«
            broadcast use axiom_question_mark_uses_from;
            broadcast use vstd::std_specs::btree::group_btree_axioms;
            broadcast use axiom_derived_clone_label;
            let ghost n = it.index@;
            proof { assert(label == k0.params@[it.index@].0 && value == k0.params@[it.index@].1); }»
            if seen.contains(&label) {«
                proof {
                    if key_typed_present(k0, label) { assert(!key_params_ok(k0)); }
                    else { let i = choose |i: int| 0 <= i < n && (#[trigger] ps[i]).0 == label; assert(ps[i].0 == ps[n].0); assert(!key_params_ok(k0)); }
                }»
                return Err(CoseError::DuplicateMapKey);
            }
            seen.insert(label.clone());«
            let ghost pre = map@;»
            map.push((label.to_cbor_value()?, value));«
            proof {
                assert(map@.subrange(0, o_p) =~= pre.subrange(0, o_p));
            }
        }
        proof {
            assert(forall |i: int| 0 <= i < o_p ==> map@[i] == map@.subrange(0, o_p)[i]);»
        }
        Ok(Value::Map(map))
    }«
}
pub open spec fn key_mem_wf(k: CoseKey) -> bool {
    k.kty != KeyType::Assigned(iana::KeyType::Reserved)
    && (k.alg matches Some(a) ==> wf_regp(a))
    && (forall |i: int, j: int| 0 <= i < j < k.params@.len() ==> #[trigger] k.params@[i].0 != #[trigger] k.params@[j].0)
    && (forall |j: int| 0 <= j < k.params@.len() ==> !is_typed_key_label(#[trigger] k.params@[j].0))
}
// ---- C20: a canonicalised key encodes with strictly ascending map keys
pub open spec fn key_sorted_lex(k: CoseKey) -> bool {
    forall |i: int, j: int| 0 <= i < j < k.params@.len() ==> !(crate::common::label_cmp((#[trigger] k.params@[i]).0, (#[trigger] k.params@[j]).0) is Greater)
}
/// KNOWN FINDING (C20): an extra parameter with label 0 sorts before kty=1 but is emitted after it; excluded here
pub open spec fn key_no_label0(k: CoseKey) -> bool { forall |j: int| 0 <= j < k.params@.len() ==> (#[trigger] k.params@[j]).0 != Label::Int(0) }
pub proof fn lemma_typed_before_extra(t: i64, l: Label)
    requires 1 <= t <= 5, !is_typed_key_label(l), l != Label::Int(0),
    ensures crate::common::label_cmp(Label::Int(t), l) is Less,
{}
pub proof fn lemma_canonical_lex_ascending(k: CoseKey, m: Seq<(Value, Value)>)
    requires key_mem_wf(k), key_no_label0(k), key_sorted_lex(k), key_enc_ok(k, m),
    ensures
        forall |i: int| 0 <= i < m.len() ==> (#[trigger] label_of(m[i].0)) is Some,
        forall |i: int, j: int| 0 <= i < j < m.len() ==> crate::common::label_cmp((#[trigger] label_of(m[i].0))->0, (#[trigger] label_of(m[j].0))->0) is Less,
{
    lemma_enc_labels(k, m);
    crate::common::lemma_label_cmp_laws();
    let o_alg = key_enc_off_alg(k); let o_ops = key_enc_off_ops(k); let o_biv = key_enc_off_biv(k); let o_p = key_enc_off_p(k);
    assert forall |i: int, j: int| 0 <= i < j < m.len() implies crate::common::label_cmp((#[trigger] label_of(m[i].0))->0, (#[trigger] label_of(m[j].0))->0) is Less by {
        let li = label_of(m[i].0)->0; let lj = label_of(m[j].0)->0;
        if i >= o_p {
            assert(label_of(m[i].0) == Some(k.params@[i - o_p].0)); assert(label_of(m[j].0) == Some(k.params@[j - o_p].0));
            assert(k.params@[i - o_p].0 != k.params@[j - o_p].0);
        } else if j >= o_p {
            assert(label_of(m[j].0) == Some(k.params@[j - o_p].0));
            assert(is_typed_key_label(li));
            let t = li->Int_0;
            lemma_typed_before_extra(t, lj);
        } else {
            assert(is_typed_key_label(li) && is_typed_key_label(lj));
        }
    }
}
pub open spec fn key_sorted_len_first(k: CoseKey) -> bool {
    forall |i: int, j: int| 0 <= i < j < k.params@.len() ==> !(crate::common::len_first_bytes_cmp(
        crate::vprelude::enc(crate::common::label_cv((#[trigger] k.params@[i]).0)), crate::vprelude::enc(crate::common::label_cv((#[trigger] k.params@[j]).0))) is Greater)
}
pub open spec fn key_texts_small(k: CoseKey) -> bool { forall |j: int| 0 <= j < k.params@.len() ==> crate::vcbor::small(utf8(crate::vcbor::label_text((#[trigger] k.params@[j]).0))) }
pub proof fn lemma_canonical_len_first_ascending(k: CoseKey, m: Seq<(Value, Value)>)
    requires key_mem_wf(k), key_no_label0(k), key_sorted_len_first(k), key_texts_small(k), key_enc_ok(k, m),
    ensures
        forall |i: int| 0 <= i < m.len() ==> (#[trigger] label_of(m[i].0)) is Some,
        forall |i: int, j: int| 0 <= i < j < m.len() ==>
            crate::vcbor::len_first_cmp(crate::vcbor::enc_label((#[trigger] label_of(m[i].0))->0), crate::vcbor::enc_label((#[trigger] label_of(m[j].0))->0)) is Less,
{
    lemma_enc_labels(k, m);
    let o_p = key_enc_off_p(k);
    assert forall |i: int, j: int| 0 <= i < j < m.len() implies
            crate::vcbor::len_first_cmp(crate::vcbor::enc_label((#[trigger] label_of(m[i].0))->0), crate::vcbor::enc_label((#[trigger] label_of(m[j].0))->0)) is Less by {
        let li = label_of(m[i].0)->0; let lj = label_of(m[j].0)->0;
        if i >= o_p {
            let a = k.params@[i - o_p].0; let b = k.params@[j - o_p].0;
            assert(label_of(m[i].0) == Some(a)); assert(label_of(m[j].0) == Some(b));
            assert(a != b);
            crate::vcbor::lemma_cmp_canonical_is_len_first(a, b);
            if crate::vcbor::len_first_cmp(crate::vcbor::enc_label(a), crate::vcbor::enc_label(b)) is Equal { crate::vcbor::lemma_len_first_equal_is_same(a, b); }
        } else if j >= o_p {
            assert(label_of(m[j].0) == Some(k.params@[j - o_p].0));
            assert(is_typed_key_label(li));
            crate::vcbor::lemma_len_first_typed_before_extra(li->Int_0, lj);
        } else {
            assert(is_typed_key_label(li) && is_typed_key_label(lj));
            let a = li->Int_0; let b = lj->Int_0;
            crate::vcbor::lemma_enc_label_small_int(a); crate::vcbor::lemma_enc_label_small_int(b);
            assert(a < b);
            reveal_with_fuel(lex_cmp, 2);
        }
    }
}
pub open spec fn key_view_eq(a: CoseKey, b: CoseKey) -> bool {
    a.kty == b.kty && a.key_id@ == b.key_id@ && a.alg == b.alg && a.key_ops@ == b.key_ops@ && a.base_iv@ == b.base_iv@ && a.params@ == b.params@
}
// which label sits at each position of an encoded key map
pub proof fn lemma_enc_labels(k: CoseKey, m: Seq<(Value, Value)>)
    requires key_mem_wf(k), key_enc_ok(k, m)
    ensures
        forall |i: int| 0 <= i < m.len() ==> (#[trigger] label_of(m[i].0)) is Some,
        forall |i: int| 0 <= i < key_enc_off_p(k) ==> is_typed_key_label((#[trigger] label_of(m[i].0))->0),
        forall |i: int| key_enc_off_p(k) <= i < m.len() ==> !is_typed_key_label((#[trigger] label_of(m[i].0))->0),
        forall |i: int| 0 <= i < m.len() ==> (#[trigger] label_of(m[i].0) == Some(Label::Int(1)) <==> i == 0),
        forall |i: int| 0 <= i < m.len() ==> (#[trigger] label_of(m[i].0) == Some(Label::Int(2)) <==> (k.key_id@.len() > 0 && i == 1)),
        forall |i: int| 0 <= i < m.len() ==> (#[trigger] label_of(m[i].0) == Some(Label::Int(3)) <==> (k.alg is Some && i == key_enc_off_alg(k))),
        forall |i: int| 0 <= i < m.len() ==> (#[trigger] label_of(m[i].0) == Some(Label::Int(4)) <==> (k.key_ops@.len() != 0 && i == key_enc_off_ops(k))),
        forall |i: int| 0 <= i < m.len() ==> (#[trigger] label_of(m[i].0) == Some(Label::Int(5)) <==> (k.base_iv@.len() > 0 && i == key_enc_off_biv(k))),
        labels_distinct(m),
{
    let o_p = key_enc_off_p(k);
    assert forall |i: int| 0 <= i < m.len() implies (#[trigger] label_of(m[i].0)) is Some by {
        if i >= o_p { assert(label_of(m[i].0) == Some(k.params@[i - o_p].0)); }
    }
    assert forall |i: int| o_p <= i < m.len() implies !is_typed_key_label((#[trigger] label_of(m[i].0))->0) by {
        assert(label_of(m[i].0) == Some(k.params@[i - o_p].0));
    }
    assert forall |i: int, j: int| 0 <= i < j < m.len() implies #[trigger] label_of(m[i].0) != #[trigger] label_of(m[j].0) by {
        if i >= o_p {
            assert(label_of(m[i].0) == Some(k.params@[i - o_p].0));
            assert(label_of(m[j].0) == Some(k.params@[j - o_p].0));
        } else if j >= o_p {
            assert(label_of(m[j].0) == Some(k.params@[j - o_p].0));
        }
    }
}
pub proof fn lemma_params_of_enc(k: CoseKey, m: Seq<(Value, Value)>, n: int)
    requires key_mem_wf(k), key_enc_ok(k, m), 0 <= n <= m.len()
    ensures params_of(m.subrange(0, n)) == (if n <= key_enc_off_p(k) { Seq::<(Label, Value)>::empty() } else { k.params@.subrange(0, n - key_enc_off_p(k)) })
    decreases n
{
    lemma_enc_labels(k, m);
    let o_p = key_enc_off_p(k);
    if n == 0 {
        assert(m.subrange(0, 0).len() == 0);
    } else {
        lemma_params_of_enc(k, m, n - 1);
        let s1 = m.subrange(0, n);
        assert(s1.drop_last() =~= m.subrange(0, n - 1));
        assert(s1.last() == m[n - 1]);
        if n - 1 >= o_p {
            assert(label_of(m[n - 1].0) == Some(k.params@[n - 1 - o_p].0));
            assert(k.params@.subrange(0, n - o_p) =~= k.params@.subrange(0, n - 1 - o_p).push(k.params@[n - 1 - o_p]));
        } else {
            assert(is_typed_key_label(label_of(m[n - 1].0)->0));
        }
    }
}
/// decode(encode(k)) == k for every well-formed in-memory key
pub proof fn lemma_key_roundtrip(k: CoseKey, v: Value, r2: Result<CoseKey>)
    requires key_mem_wf(k), k.enc_rel(Ok::<Value, CoseError>(v)), CoseKey::dec_rel(v, r2)
    ensures r2 matches Ok(k2) && key_view_eq(k2, k)
{
    match v { Value::Map(mv) => {
        let m = mv@;
        lemma_enc_labels(k, m);
        lemma_params_of_enc(k, m, m.len() as int);
        assert(m.subrange(0, m.len() as int) =~= m);
        // every pair is acceptable
        assert forall |i: int| 0 <= i < m.len() implies #[trigger] key_pair_ok(m[i].0, m[i].1) by {
            if i == key_enc_off_ops(k) && k.key_ops@.len() != 0 {
                let ov = m[i].1;
                match ov { Value::Array(a) => {
                    // non-empty because the set is non-empty and covered
                    let x = choose |x: KeyOperation| k.key_ops@.contains(x);
                    assert(k.key_ops@.contains(x)) by { if forall |y: KeyOperation| !k.key_ops@.contains(y) { assert(k.key_ops@ =~= Set::<KeyOperation>::empty()); } }
                }, _ => {} }
            }
        }
        assert(has_real_kty(m)) by { assert(label_of(m[0].0) == Some(Label::Int(1))); }
        assert(key_wf(m));
        let k2 = r2->Ok_0;
        assert(k2.params@ == k.params@) by { assert(k.params@.subrange(0, k.params@.len() as int) =~= k.params@); }
        assert(Some(k2.kty) == reg_of::<iana::KeyType>(m[0].1));
        if k.key_id@.len() > 0 { assert(label_of(m[1].0) == Some(Label::Int(2))); }
        if k.alg is Some { assert(label_of(m[key_enc_off_alg(k)].0) == Some(Label::Int(3))); }
        if k.base_iv@.len() > 0 { assert(label_of(m[key_enc_off_biv(k)].0) == Some(Label::Int(5))); }
        if k.key_ops@.len() != 0 {
            assert(label_of(m[key_enc_off_ops(k)].0) == Some(Label::Int(4)));
            assert(k2.key_ops@ =~= k.key_ops@);
        } else {
            assert(k.key_ops@ =~= Set::<KeyOperation>::empty());
        }
        assert(r2 is Ok);
        assert(k2.kty == k.kty);
        assert(k2.key_id@ == k.key_id@);
        assert(k2.alg == k.alg);
        assert(k2.key_ops@ == k.key_ops@);
        assert(k2.base_iv@ == k.base_iv@);
    }, _ => {} }
}
impl CoseKey {»
}

/// Builder for [`CoseKey`] objects.
#[derive(Debug, Default)]
pub struct CoseKeyBuilder(CoseKey);

impl CoseKeyBuilder {
    
        /// Constructor for builder.
        pub fn new() -> Self {
            Self(<CoseKey>::default())
        }
        /// Build the completed object.
        pub fn build(self) -> CoseKey {
            self.0
        }
    
    
        /// Set the associated field.
        #[must_use]
        pub fn kty(self, kty: KeyType) -> Self { let mut self_ = self;
            self_.0.kty = kty;
            self_
        }
    
    
        /// Set the associated field.
        #[must_use]
        pub fn key_id(self, key_id: Vec<u8>) -> Self { let mut self_ = self;
            self_.0.key_id = key_id;
            self_
        }
    
    
        /// Set the associated field.
        #[must_use]
        pub fn base_iv(self, base_iv: Vec<u8>) -> Self { let mut self_ = self;
            self_.0.base_iv = base_iv;
            self_
        }«pub open spec fn key_other_fields_default(k: CoseKey) -> bool {
        k.key_id@.len() == 0 && k.alg is None && k.key_ops@ == Set::<KeyOperation>::empty() && k.base_iv@.len() == 0
    }
    pub open spec fn is_int_value(v: Value, n: int) -> bool { v matches Value::Integer(i) && int_val(i) == n }»
    

    /// Constructor for an elliptic curve public key specified by `x` and `y` coordinates.
    pub fn new_ec2_pub_key(curve: iana::EllipticCurve, x: Vec<u8>, y: Vec<u8>) ->« (r:» Self«)
        ensures r.inner().kty == KeyType::Assigned(iana::KeyType::EC2), Self::key_other_fields_default(r.inner()),
            r.inner().params@.len() == 3,
            r.inner().params@[0].0 == Label::Int(-1i64) && Self::is_int_value(r.inner().params@[0].1, curve.spec_to_i64() as int),
            r.inner().params@[1] == (Label::Int(-2i64), Value::Bytes(x)), r.inner().params@[2] == (Label::Int(-3i64), Value::Bytes(y)),» {
        Self(CoseKey {
            kty: KeyType::Assigned(iana::KeyType::EC2),
            params: vec![
                (
                    Label::Int(iana::Ec2KeyParameter::Crv as i64),
                    Value::from(curve as u64),
                ),
                (Label::Int(iana::Ec2KeyParameter::X as i64), Value::Bytes(x)),
                (Label::Int(iana::Ec2KeyParameter::Y as i64), Value::Bytes(y)),
            ],
            ..Default::default()
        })
    }

    /// Constructor for an elliptic curve public key specified by `x` coordinate plus sign of `y`
    /// coordinate.
    pub fn new_ec2_pub_key_y_sign(curve: iana::EllipticCurve, x: Vec<u8>, y_sign: bool) ->« (r:» Self«)
        ensures r.inner().kty == KeyType::Assigned(iana::KeyType::EC2), Self::key_other_fields_default(r.inner()),
            r.inner().params@.len() == 3,
            r.inner().params@[0].0 == Label::Int(-1i64) && Self::is_int_value(r.inner().params@[0].1, curve.spec_to_i64() as int),
            r.inner().params@[1] == (Label::Int(-2i64), Value::Bytes(x)), r.inner().params@[2] == (Label::Int(-3i64), Value::Bool(y_sign)),» {
        Self(CoseKey {
            kty: KeyType::Assigned(iana::KeyType::EC2),
            params: vec![
                (
                    Label::Int(iana::Ec2KeyParameter::Crv as i64),
                    Value::from(curve as u64),
                ),
                (Label::Int(iana::Ec2KeyParameter::X as i64), Value::Bytes(x)),
                (
                    Label::Int(iana::Ec2KeyParameter::Y as i64),
                    Value::Bool(y_sign),
                ),
            ],
            ..Default::default()
        })
    }

    /// Constructor for an elliptic curve private key specified by `d`, together with public `x` and
    /// `y` coordinates.
    pub fn new_ec2_priv_key(
        curve: iana::EllipticCurve,
        x: Vec<u8>,
        y: Vec<u8>,
        d: Vec<u8>,
    ) ->« (r:» Self«)
        ensures r.inner().kty == KeyType::Assigned(iana::KeyType::EC2), Self::key_other_fields_default(r.inner()),
            r.inner().params@.len() == 4,
            r.inner().params@[0].0 == Label::Int(-1i64) && Self::is_int_value(r.inner().params@[0].1, curve.spec_to_i64() as int),
            r.inner().params@[1] == (Label::Int(-2i64), Value::Bytes(x)), r.inner().params@[2] == (Label::Int(-3i64), Value::Bytes(y)),
            r.inner().params@[3] == (Label::Int(-4i64), Value::Bytes(d)),» {
        let mut builder = Self::new_ec2_pub_key(curve, x, y);
        builder
            .0
            .params
            .push((Label::Int(iana::Ec2KeyParameter::D as i64), Value::Bytes(d)));
        builder
    }

    /// Constructor for a symmetric key specified by `k`.
    pub fn new_symmetric_key(k: Vec<u8>) ->« (r:» Self«)
        ensures r.inner().kty == KeyType::Assigned(iana::KeyType::Symmetric), Self::key_other_fields_default(r.inner()),
            r.inner().params@.len() == 1, r.inner().params@[0] == (Label::Int(-1i64), Value::Bytes(k)),» {
        Self(CoseKey {
            kty: KeyType::Assigned(iana::KeyType::Symmetric),
            params: vec![(
                Label::Int(iana::SymmetricKeyParameter::K as i64),
                Value::Bytes(k),
            )],
            ..Default::default()
        })
    }

    /// Constructor for a octet keypair key.
    pub fn new_okp_key() ->« (r:» Self«)
        ensures r.inner().kty == KeyType::Assigned(iana::KeyType::OKP), Self::key_other_fields_default(r.inner()), r.inner().params@.len() == 0,» {
        Self(CoseKey {
            kty: KeyType::Assigned(iana::KeyType::OKP),
            ..Default::default()
        })
    }

    /// Set the key type.
    #[must_use]
    pub fn key_type(self, key_type: iana::KeyType) ->« (r:» Self«)
        ensures r.inner() == (CoseKey { kty: KeyType::Assigned(key_type), ..self.inner() }),» { let mut self_ = self;
        self_.0.kty = KeyType::Assigned(key_type);
        self_
    }

    /// Set the algorithm.
    #[must_use]
    pub fn algorithm(self, alg: iana::Algorithm) ->« (r:» Self«)
        ensures r.inner() == (CoseKey { alg: Some(Algorithm::Assigned(alg)), ..self.inner() }),» { let mut self_ = self;
        self_.0.alg = Some(Algorithm::Assigned(alg));
        self_
    }

    /// Add a key operation.
    #[must_use]
    pub fn add_key_op(self, op: iana::KeyOperation) ->« (r:» Self«)
        ensures r.inner() == (CoseKey { key_ops: r.inner().key_ops, ..self.inner() }), r.inner().key_ops@ == self.inner().key_ops@.insert(KeyOperation::Assigned(op)),» { let mut self_ = self;«
        broadcast use vstd::std_specs::btree::group_btree_axioms;
        proof { lemma_reglabel_obeys_cmp::<iana::KeyOperation>(); }»
        self_.0.key_ops.insert(KeyOperation::Assigned(op));
        self_
    }

    /// Set a parameter value.
    ///
    /// # Panics
    ///
    /// This function will panic if it used to set a parameter label from the [`iana::KeyParameter`]
    /// range.
    #[must_use]
    pub fn param(self, label: i64, value: Value) ->« (r:» Self«)
        requires !(0 <= label <= 5),
        ensures r.inner() == (CoseKey { params: r.inner().params, ..self.inner() }), r.inner().params@ == self.inner().params@.push((Label::Int(label), value)),» { let mut self_ = self;
        if iana::KeyParameter::from_i64(label).is_some() {
            panic!("param() method used to set KeyParameter"); // safe: invalid input
        }
        self_.0.params.push((Label::Int(label), value));
        self_
    }
}
