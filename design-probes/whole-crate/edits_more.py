# post-processing of edits.EDITS (applied by gen.py after importing edits)
def patch(EDITS):
    def sub(m, needle, repl, count=1):
        hit=0
        for idx,(mm,old,new) in enumerate(EDITS):
            if mm==m and needle in new:
                EDITS[idx]=(mm,old,new.replace(needle,repl)); hit+=1
        assert hit==count, (m, needle[:50], hit)
    def add(m,old,new): EDITS.append((m,old,new))

    # --- trait-level relations
    add('common',"""pub trait AsCborValue: Sized {
    /// Convert a [`Value`] into an instance of the type.
    fn from_cbor_value(value: Value) -> Result<Self>;
    /// Convert the object into a [`Value`], consuming it along the way.
    fn to_cbor_value(self) -> Result<Value>;
}""","""pub trait AsCborValue: Sized {
    spec fn dec_rel(value: Value, r: Result<Self>) -> bool;
    spec fn enc_rel(self, r: Result<Value>) -> bool;
    /// Convert a [`Value`] into an instance of the type.
    fn from_cbor_value(value: Value) -> (r: Result<Self>) ensures Self::dec_rel(value, r);
    /// Convert the object into a [`Value`], consuming it along the way.
    fn to_cbor_value(self) -> (r: Result<Value>) ensures self.enc_rel(r);
}""")
    sub('common','''impl AsCborValue for Label {
    fn from_cbor_value(value: Value) -> (r: Result<Self>)
        ensures match value {
            Value::Integer(i) => if in_i64(int_val(i)) { r == Ok::<Label, CoseError>(Label::Int(int_val(i) as i64)) } else { r matches Err(e) && e is OutOfRangeIntegerValue },
            Value::Text(t) => r == Ok::<Label, CoseError>(Label::Text(t)),
            _ => r matches Err(e) && e is UnexpectedItem,
        }
    { broadcast use axiom_question_mark_uses_from;''','''impl AsCborValue for Label {
    open spec fn dec_rel(value: Value, r: Result<Self>) -> bool {
        match value {
            Value::Integer(i) => if in_i64(int_val(i)) { r == Ok::<Label, CoseError>(Label::Int(int_val(i) as i64)) } else { r matches Err(e) && e is OutOfRangeIntegerValue },
            Value::Text(t) => r == Ok::<Label, CoseError>(Label::Text(t)),
            _ => r matches Err(e) && e is UnexpectedItem,
        }
    }
    open spec fn enc_rel(self, r: Result<Value>) -> bool { r matches Ok(v) && label_of(v) == Some(self) }
    fn from_cbor_value(value: Value) -> (r: Result<Self>)
    { broadcast use axiom_question_mark_uses_from;''')
    sub('common','''impl<T: EnumI64> AsCborValue for RegisteredLabel<T> {
    fn from_cbor_value(value: Value) -> (r: Result<Self>)
        ensures match value {''','''impl<T: EnumI64> AsCborValue for RegisteredLabel<T> {
    open spec fn enc_rel(self, r: Result<Value>) -> bool { r matches Ok(v) && reg_of::<T>(v) == Some(self) }
    open spec fn dec_rel(value: Value, r: Result<Self>) -> bool { match value {''')
    sub('common','''            Value::Text(t) => r == Ok::<Self, CoseError>(RegisteredLabel::Text(t)),
            _ => r matches Err(e) && e is UnexpectedItem,
        }
    { broadcast use axiom_question_mark_uses_from;''','''            Value::Text(t) => r == Ok::<Self, CoseError>(RegisteredLabel::Text(t)),
            _ => r matches Err(e) && e is UnexpectedItem,
        } }
    fn from_cbor_value(value: Value) -> (r: Result<Self>)
    { broadcast use axiom_question_mark_uses_from;''')
    sub('common','''impl<T: EnumI64 + WithPrivateRange> AsCborValue for RegisteredLabelWithPrivate<T> {
    fn from_cbor_value(value: Value) -> (r: Result<Self>)
        ensures match value {''','''impl<T: EnumI64 + WithPrivateRange> AsCborValue for RegisteredLabelWithPrivate<T> {
    open spec fn enc_rel(self, r: Result<Value>) -> bool { r matches Ok(v) && (wf_regp(self) ==> regp_of::<T>(v) == Some(self)) }
    open spec fn dec_rel(value: Value, r: Result<Self>) -> bool { match value {''')
    sub('common','''            Value::Text(t) => r == Ok::<Self, CoseError>(RegisteredLabelWithPrivate::Text(t)),
            _ => r matches Err(e) && e is UnexpectedItem,
        }
    { broadcast use axiom_question_mark_uses_from;''','''            Value::Text(t) => r == Ok::<Self, CoseError>(RegisteredLabelWithPrivate::Text(t)),
            _ => r matches Err(e) && e is UnexpectedItem,
        } }
    fn from_cbor_value(value: Value) -> (r: Result<Self>)
    { broadcast use axiom_question_mark_uses_from;''')
    sub('common','''pub open spec fn nonempty_bytes(v: Value) -> bool { v matches Value::Bytes(b) && b@.len() > 0 }''','''pub open spec fn nonempty_bytes(v: Value) -> bool { v matches Value::Bytes(b) && b@.len() > 0 }
pub open spec fn wf_regp<T: EnumI64 + WithPrivateRange>(l: RegisteredLabelWithPrivate<T>) -> bool {
    l matches RegisteredLabelWithPrivate::PrivateUse(i) ==> (T::spec_from_i64(i) is None && T::spec_is_private(i))
}''')
    sub('common','''    reveal(vstd::laws_cmp::obeys_partial_cmp_spec_properties);
    lemma_lex_laws();
    lemma_label_eq_cmp();
}''','''    reveal(vstd::laws_cmp::obeys_partial_cmp_spec_properties);
    lemma_label_cmp_laws();
}''')
    add('common',"""    fn to_cbor_value(self) -> Result<Value> {
        Ok(match self {
            RegisteredLabel::Assigned(e) => Value::from(e.to_i64()),""","""    fn to_cbor_value(self) -> Result<Value> {
        proof { T::lemma_enum_laws(); }
        Ok(match self {
            RegisteredLabel::Assigned(e) => Value::from(e.to_i64()),""")
    add('common',"""    fn to_cbor_value(self) -> Result<Value> {
        Ok(match self {
            RegisteredLabelWithPrivate::PrivateUse(i) => Value::from(i),""","""    fn to_cbor_value(self) -> Result<Value> {
        proof { T::lemma_enum_laws(); }
        Ok(match self {
            RegisteredLabelWithPrivate::PrivateUse(i) => Value::from(i),""")
    # --- CoseKey decode: ensures -> dec_rel
    sub('key','''    #[verifier::loop_isolation(false)]
    fn from_cbor_value(value: Value) -> (r: Result<Self>)
        ensures
            !(value is Map) ==> r is Err,
            value matches Value::Map(mv) ==> (r is Ok <==> key_wf(mv@)),
            value matches Value::Map(mv) ==> (r matches Ok(key) ==> key.params@ == params_of(mv@)),
    {''','''    open spec fn dec_rel(value: Value, r: Result<Self>) -> bool {
            (!(value is Map) ==> r is Err)
            && (value matches Value::Map(mv) ==> (r is Ok <==> key_wf(mv@)))
            && (value matches Value::Map(mv) ==> (r matches Ok(key) ==> key.params@ == params_of(mv@) && key_fields_ok(key, mv@, mv@.len() as int)))
    }
    open spec fn enc_rel(self, r: Result<Value>) -> bool { r matches Ok(v) ==> (v matches Value::Map(mv) && key_enc_ok(self, mv@)) }
    #[verifier::loop_isolation(false)]
    fn from_cbor_value(value: Value) -> (r: Result<Self>)
    {''')
    sub('key','                (forall |i: int| 0 <= i < it.index@ ==> #[trigger] label_of(ms[i].0) != Some(Label::Int(4))) ==> key.key_ops@ == Set::<KeyOperation>::empty(),\n                (forall |i: int| 0 <= i < it.index@ ==> #[trigger] label_of(ms[i].0) != Some(Label::Int(1))) ==> key.kty == KeyType::Assigned(iana::KeyType::Reserved),\n                forall |i: int| 0 <= i < it.index@ && #[trigger] label_of(ms[i].0) == Some(Label::Int(1)) ==> Some(key.kty) == reg_of::<iana::KeyType>(ms[i].1),\n','                key_fields_ok(key, ms, it.index@),\n')
    sub('key','                    proof { assert(keyops_ok(v0)); }','                    proof { assert(keyops_ok(v0)); assert(ops_dec_ok(key.key_ops@, v0)); }')
    sub('key',"use crate::common::{label_of, reg_of, regp_of, nonempty_bytes,","use crate::common::{wf_regp, label_of, reg_of, regp_of, nonempty_bytes,")
    sub('key',"pub assume_specification [ <CoseKey as Default>::default ]","""pub open spec fn ops_enc_ok(s: Set<KeyOperation>, v: Value) -> bool {
    v matches Value::Array(a)
    && (forall |i: int| 0 <= i < a@.len() ==> ((#[trigger] reg_of::<iana::KeyOperation>(a@[i])) matches Some(x) && s.contains(x)))
    && (forall |i: int, j: int| 0 <= i < j < a@.len() ==> #[trigger] reg_of::<iana::KeyOperation>(a@[i]) != #[trigger] reg_of::<iana::KeyOperation>(a@[j]))
    && (forall |x: KeyOperation| s.contains(x) ==> exists |i: int| 0 <= i < a@.len() && #[trigger] reg_of::<iana::KeyOperation>(a@[i]) == Some(x))
}
pub open spec fn ops_dec_ok(s: Set<KeyOperation>, v: Value) -> bool {
    v matches Value::Array(a) && (forall |x: KeyOperation| s.contains(x) <==> exists |j: int| 0 <= j < a@.len() && #[trigger] reg_of::<iana::KeyOperation>(a@[j]) == Some(x))
}
// field mapping for the first n pairs of m
pub open spec fn key_fields_ok(key: CoseKey, m: Seq<(Value, Value)>, n: int) -> bool {
    (forall |i: int| 0 <= i < n && #[trigger] label_of(m[i].0) == Some(Label::Int(1)) ==> Some(key.kty) == reg_of::<iana::KeyType>(m[i].1))
    && ((forall |i: int| 0 <= i < n ==> #[trigger] label_of(m[i].0) != Some(Label::Int(1))) ==> key.kty == KeyType::Assigned(iana::KeyType::Reserved))
    && (forall |i: int| 0 <= i < n && #[trigger] label_of(m[i].0) == Some(Label::Int(2)) ==> m[i].1 == Value::Bytes(key.key_id))
    && ((forall |i: int| 0 <= i < n ==> #[trigger] label_of(m[i].0) != Some(Label::Int(2))) ==> key.key_id@.len() == 0)
    && (forall |i: int| 0 <= i < n && #[trigger] label_of(m[i].0) == Some(Label::Int(3)) ==> (key.alg is Some && key.alg == regp_of::<iana::Algorithm>(m[i].1)))
    && ((forall |i: int| 0 <= i < n ==> #[trigger] label_of(m[i].0) != Some(Label::Int(3))) ==> key.alg is None)
    && (forall |i: int| 0 <= i < n && #[trigger] label_of(m[i].0) == Some(Label::Int(4)) ==> ops_dec_ok(key.key_ops@, m[i].1))
    && ((forall |i: int| 0 <= i < n ==> #[trigger] label_of(m[i].0) != Some(Label::Int(4))) ==> key.key_ops@ == Set::<KeyOperation>::empty())
    && (forall |i: int| 0 <= i < n && #[trigger] label_of(m[i].0) == Some(Label::Int(5)) ==> m[i].1 == Value::Bytes(key.base_iv))
    && ((forall |i: int| 0 <= i < n ==> #[trigger] label_of(m[i].0) != Some(Label::Int(5))) ==> key.base_iv@.len() == 0)
}
pub open spec fn b2i(b: bool) -> int { if b { 1 } else { 0 } }
pub open spec fn key_enc_off_alg(k: CoseKey) -> int { 1 + b2i(k.key_id@.len() > 0) }
pub open spec fn key_enc_off_ops(k: CoseKey) -> int { key_enc_off_alg(k) + b2i(k.alg is Some) }
pub open spec fn key_enc_off_biv(k: CoseKey) -> int { key_enc_off_ops(k) + b2i(k.key_ops@.len() != 0) }
pub open spec fn key_enc_off_p(k: CoseKey) -> int { key_enc_off_biv(k) + b2i(k.base_iv@.len() > 0) }
pub open spec fn key_enc_ok(k: CoseKey, m: Seq<(Value, Value)>) -> bool {
    let o_alg = key_enc_off_alg(k); let o_ops = key_enc_off_ops(k); let o_biv = key_enc_off_biv(k); let o_p = key_enc_off_p(k);
    m.len() == o_p + k.params@.len()
    && label_of(m[0].0) == Some(Label::Int(1)) && reg_of::<iana::KeyType>(m[0].1) == Some(k.kty)
    && (k.key_id@.len() > 0 ==> label_of(m[1].0) == Some(Label::Int(2)) && m[1].1 == Value::Bytes(k.key_id))
    && (k.alg matches Some(a) ==> label_of(m[o_alg].0) == Some(Label::Int(3)) && (wf_regp(a) ==> regp_of::<iana::Algorithm>(m[o_alg].1) == Some(a)))
    && (k.key_ops@.len() != 0 ==> label_of(m[o_ops].0) == Some(Label::Int(4)) && ops_enc_ok(k.key_ops@, m[o_ops].1))
    && (k.base_iv@.len() > 0 ==> label_of(m[o_biv].0) == Some(Label::Int(5)) && m[o_biv].1 == Value::Bytes(k.base_iv))
    && (forall |i: int| o_p <= i < m.len() ==> label_of(#[trigger] m[i].0) == Some(k.params@[i - o_p].0) && m[i].1 == k.params@[i - o_p].1)
}
pub assume_specification [ <CoseKey as Default>::default ]""")

    # --- to_cbor_array contract
    orig=open('/repo/src/util/mod.rs').read()
    a=orig.index("pub fn to_cbor_array<C>(c: C) -> Result<Value>")
    b=orig.index("    ))\n}\n",a)+len("    ))\n}\n")
    add('util',orig[a:b],'''pub uninterp spec fn iter_enc_ok<C>(c: C, a: Seq<Value>) -> bool;
pub broadcast axiom fn axiom_iter_enc_ok_vec<T: AsCborValue>(v: Vec<T>, a: Seq<Value>)
    ensures #[trigger] iter_enc_ok::<Vec<T>>(v, a) ==> (a.len() == v@.len() && forall |i: int| 0 <= i < a.len() ==> (#[trigger] v@[i]).enc_rel(Ok::<Value, CoseError>(a[i])));
pub broadcast axiom fn axiom_iter_enc_ok_btreeset<T: AsCborValue + Ord>(s: alloc::collections::BTreeSet<T>, a: Seq<Value>)
    ensures #[trigger] iter_enc_ok::<alloc::collections::BTreeSet<T>>(s, a) ==> exists |is: Seq<T>| #![auto] is.len() == a.len() && is.no_duplicates()
        && (forall |x: T| is.contains(x) <==> s@.contains(x))
        && (forall |i: int| 0 <= i < a.len() ==> (#[trigger] is[i]).enc_rel(Ok::<Value, CoseError>(a[i])));
#[verifier::external_body]
pub fn to_cbor_array<C>(c: C) -> (r: Result<Value>)
where
    C: IntoIterator,
    C::Item: AsCborValue,
    ensures
        r matches Ok(v) ==> v is Array,
        r matches Ok(v) ==> (v matches Value::Array(a) ==> iter_enc_ok::<C>(c, a@)),
{
    Ok(Value::Array(
        c.into_iter()
            .map(|e| e.to_cbor_value())
            .collect::<Result<Vec<_>, _>>()?,
    ))
}
''')
    # --- CoseKey::to_cbor_value
    ok=open('/repo/src/key/mod.rs').read()
    a=ok.index("    fn to_cbor_value(self) -> Result<Value> {\n        let mut map: Vec<(Value, Value)> = vec![(KTY.to_cbor_value()?")
    b=ok.index("        Ok(Value::Map(map))\n    }\n",a)+len("        Ok(Value::Map(map))\n    }\n")
    add('key',ok[a:b],open(__import__('os').path.join(__import__('os').path.dirname(__file__),'key_enc.rs')).read())

    # --- Header::from_cbor_value
    hs=open('/repo/src/header/mod.rs').read()
    a=hs.index("impl AsCborValue for Header {\n    fn from_cbor_value(value: Value) -> Result<Self> {")
    b=hs.index("        Ok(headers)\n    }\n",a)+len("        Ok(headers)\n    }\n")
    old=hs[a:b].replace("CoseSignature::from_cbor_value(","crate::vstubs::sig_from_cbor_value__stub(").replace("text.matches('/').count()","crate::vprelude::str_count_matches(&text, '/')").replace("text.trim() != text","crate::vprelude::str_ne_string(text.trim(), text)")
    import os
    add('header',old,open(os.path.join(os.path.dirname(__file__),'hdr_dec.rs')).read())
