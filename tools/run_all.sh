#!/bin/bash
# run every registered check on the current tree (quick tier) and report; evidence files are rewritten
cd /verif
rc=0
for p in $(python3 -c "import json; print(' '.join(c['property_id'] for c in json.load(open('MANIFEST.json'))['checks']))"); do
  out=$(python3 tools/check.py $p --tier ${1:-quick} 2>&1); r=$?
  echo "$out" | grep -E "^OK|VIOLATION|UNDECIDED|KNOWN-FINDING" | cut -c1-160
  [ $r -ne 0 ] && rc=1
done
python3-vt - <<'PY'
import json, jsonschema, glob
s=json.load(open('/root/.vp/EVIDENCE.schema.json'))
for f in sorted(glob.glob('/verif/evidence/*.json')):
    e=json.load(open(f)); jsonschema.validate(e,s)
    c=e['coverage']
    assert c['obligations']==c['discharged'] and e.get('violations',0)==0, f
print('evidence valid')
PY
exit $rc
