// C20: canonicalising again is a no-op.  A sequence of pairs with pairwise distinct labels has exactly one arrangement that is
// sorted under a total order on labels, so the result of the second canonicalize (a sorted permutation of the first result,
// which is itself sorted) equals the first result.
mod videm {
use vstd::prelude::*;
use vstd::multiset::*;
use crate::*;
use crate::vprelude::*;
use crate::common::label_cmp;
use core::cmp::Ordering;
use ciborium::value::Value;
verus!{
pub open spec fn labels_distinct_p(a: Seq<(Label, Value)>) -> bool { forall |i: int, j: int| 0 <= i < j < a.len() ==> (#[trigger] a[i]).0 != (#[trigger] a[j]).0 }
pub open spec fn sorted_by(a: Seq<(Label, Value)>, cmp: spec_fn(Label, Label) -> Ordering) -> bool { forall |i: int, j: int| 0 <= i < j < a.len() ==> !(cmp((#[trigger] a[i]).0, (#[trigger] a[j]).0) is Greater) }
/// what uniqueness needs of the comparator: two labels neither of which is Greater than the other are the same label
pub open spec fn antisym(cmp: spec_fn(Label, Label) -> Ordering) -> bool { forall |x: Label, y: Label| !(#[trigger] cmp(x, y) is Greater) && !(cmp(y, x) is Greater) ==> x == y }
pub open spec fn lex_order() -> spec_fn(Label, Label) -> Ordering { |x: Label, y: Label| label_cmp(x, y) }
pub open spec fn len_first_order() -> spec_fn(Label, Label) -> Ordering { |x: Label, y: Label| crate::common::len_first_bytes_cmp(enc(crate::common::label_cv(x)), enc(crate::common::label_cv(y))) }
pub open spec fn sorted_lex(a: Seq<(Label, Value)>) -> bool { sorted_by(a, lex_order()) }
proof fn lemma_multiset_drop_last(a: Seq<(Label, Value)>)
    requires a.len() > 0,
    ensures a.drop_last().to_multiset() == a.to_multiset().remove(a.last()),
{
    broadcast use vstd::seq_lib::group_to_multiset_ensures;
    let d = a.drop_last();
    assert(a =~= d.push(a.last()));
    assert(d.push(a.last()).to_multiset() =~= d.to_multiset().insert(a.last()));
    assert(d.to_multiset().insert(a.last()).remove(a.last()) =~= d.to_multiset());
}
proof fn lemma_in_multiset_has_index(a: Seq<(Label, Value)>, x: (Label, Value)) -> (i: int)
    requires a.to_multiset().count(x) > 0,
    ensures 0 <= i < a.len(), a[i] == x,
{
    broadcast use vstd::seq_lib::group_to_multiset_ensures;
    assert(a.contains(x));
    choose |i: int| 0 <= i < a.len() && a[i] == x
}
pub proof fn lemma_sorted_perm_unique(a: Seq<(Label, Value)>, b: Seq<(Label, Value)>, cmp: spec_fn(Label, Label) -> Ordering)
    requires a.to_multiset() == b.to_multiset(), a.len() == b.len(), labels_distinct_p(a), sorted_by(a, cmp), sorted_by(b, cmp), antisym(cmp),
    ensures a == b,
    decreases a.len()
{
    broadcast use vstd::seq_lib::group_to_multiset_ensures;
    if a.len() == 0 { assert(a =~= b); } else {
        let n = a.len() - 1;
        // the last element of b occurs in a, and vice versa
        assert(b.contains(b.last())) by { assert(b[n] == b.last()); }
        assert(a.to_multiset().count(b.last()) > 0);
        let i = lemma_in_multiset_has_index(a, b.last());
        assert(a.contains(a.last())) by { assert(a[n] == a.last()); }
        assert(b.to_multiset().count(a.last()) > 0);
        let j = lemma_in_multiset_has_index(b, a.last());
        // b.last() <= a.last() and a.last() <= b.last()
        if i < n { assert(!(cmp(a[i].0, a[n].0) is Greater)); }
        if j < n { assert(!(cmp(b[j].0, b[n].0) is Greater)); }
        if i < n && j < n { assert(!(cmp(b[n].0, a[n].0) is Greater) && !(cmp(a[n].0, b[n].0) is Greater)); }
        assert(a[n].0 == b[n].0);
        if i < n { assert(a[i].0 != a[n].0); }
        assert(i == n);
        assert(a.last() == b.last());
        lemma_multiset_drop_last(a); lemma_multiset_drop_last(b);
        let a2 = a.drop_last(); let b2 = b.drop_last();
        assert forall |p: int, q: int| 0 <= p < q < a2.len() implies (#[trigger] a2[p]).0 != (#[trigger] a2[q]).0 by { assert(a2[p] == a[p] && a2[q] == a[q]); }
        assert forall |p: int, q: int| 0 <= p < q < a2.len() implies !(cmp((#[trigger] a2[p]).0, (#[trigger] a2[q]).0) is Greater) by { assert(a2[p] == a[p] && a2[q] == a[q]); }
        assert forall |p: int, q: int| 0 <= p < q < b2.len() implies !(cmp((#[trigger] b2[p]).0, (#[trigger] b2[q]).0) is Greater) by { assert(b2[p] == b[p] && b2[q] == b[q]); }
        lemma_sorted_perm_unique(a2, b2, cmp);
        assert(a =~= a2.push(a.last()));
        assert(b =~= b2.push(b.last()));
    }
}
/// C20: the postcondition of `canonicalize`, applied twice under the same ordering, forces the second result to equal the first
pub proof fn lemma_canonicalize_idempotent_by(k0: CoseKey, k1: CoseKey, k2: CoseKey, cmp: spec_fn(Label, Label) -> Ordering)
    requires
        labels_distinct_p(k0.params@), antisym(cmp),
        // first call (its contract)
        k1 == (CoseKey { params: k1.params, ..k0 }), k1.params@.len() == k0.params@.len(), k1.params@.to_multiset() == k0.params@.to_multiset(), sorted_by(k1.params@, cmp),
        // second call
        k2 == (CoseKey { params: k2.params, ..k1 }), k2.params@.len() == k1.params@.len(), k2.params@.to_multiset() == k1.params@.to_multiset(), sorted_by(k2.params@, cmp),
    ensures k2.params@ == k1.params@,
{
    broadcast use vstd::seq_lib::group_to_multiset_ensures;
    // distinct labels carry over to the permutation k1
    let a = k1.params@; let o = k0.params@;
    assert forall |i: int, j: int| 0 <= i < j < a.len() implies (#[trigger] a[i]).0 != (#[trigger] a[j]).0 by {
        if a[i].0 == a[j].0 {
            assert(a.contains(a[i])); assert(a.contains(a[j]));
            let p = lemma_in_multiset_has_index(o, a[i]);
            let q = lemma_in_multiset_has_index(o, a[j]);
            if p != q { if p < q { assert(o[p].0 != o[q].0); } else { assert(o[q].0 != o[p].0); } }
            assert(a[i] == a[j]);
            lemma_count_at_least_two(a, i, j);
            lemma_count_distinct_is_one(o, p);
        }
    }
    lemma_sorted_perm_unique(a, k2.params@, cmp);
}
/// lexicographic ordering: the comparator is the verified `Label::cmp` spec, antisymmetric by the proved order laws
pub proof fn lemma_canonicalize_lex_idempotent(k0: CoseKey, k1: CoseKey, k2: CoseKey)
    requires
        labels_distinct_p(k0.params@),
        k1 == (CoseKey { params: k1.params, ..k0 }), k1.params@.len() == k0.params@.len(), k1.params@.to_multiset() == k0.params@.to_multiset(), sorted_by(k1.params@, lex_order()),
        k2 == (CoseKey { params: k2.params, ..k1 }), k2.params@.len() == k1.params@.len(), k2.params@.to_multiset() == k1.params@.to_multiset(), sorted_by(k2.params@, lex_order()),
    ensures k2.params@ == k1.params@,
{
    crate::common::lemma_label_cmp_laws();
    assert(antisym(lex_order())) by {
        assert forall |x: Label, y: Label| !(#[trigger] lex_order()(x, y) is Greater) && !(lex_order()(y, x) is Greater) implies x == y by {
            assert(label_cmp(x, y) is Equal || label_cmp(x, y) is Less);
            if label_cmp(x, y) is Less { assert(label_cmp(y, x) is Greater); }
        }
    }
    lemma_canonicalize_idempotent_by(k0, k1, k2, lex_order());
}
/// length-first ordering: antisymmetric as soon as distinct labels have distinct encodings (true of any CBOR encoder; with S1
/// it is the injectivity of the deterministic encoder on labels)
pub proof fn lemma_canonicalize_len_first_idempotent(k0: CoseKey, k1: CoseKey, k2: CoseKey)
    requires
        labels_distinct_p(k0.params@),
        forall |x: Label, y: Label| #[trigger] enc(crate::common::label_cv(x)) == #[trigger] enc(crate::common::label_cv(y)) ==> x == y,
        k1 == (CoseKey { params: k1.params, ..k0 }), k1.params@.len() == k0.params@.len(), k1.params@.to_multiset() == k0.params@.to_multiset(), sorted_by(k1.params@, len_first_order()),
        k2 == (CoseKey { params: k2.params, ..k1 }), k2.params@.len() == k1.params@.len(), k2.params@.to_multiset() == k1.params@.to_multiset(), sorted_by(k2.params@, len_first_order()),
    ensures k2.params@ == k1.params@,
{
    lemma_lex_laws();
    assert(antisym(len_first_order())) by {
        assert forall |x: Label, y: Label| !(#[trigger] len_first_order()(x, y) is Greater) && !(len_first_order()(y, x) is Greater) implies x == y by {
            let ex = enc(crate::common::label_cv(x)); let ey = enc(crate::common::label_cv(y));
            if ex.len() != ey.len() { assert(false); }
            assert(lex_cmp(ex, ey) is Equal || lex_cmp(ex, ey) is Less);
            if lex_cmp(ex, ey) is Less { assert(lex_cmp(ey, ex) is Greater); }
            assert(ex == ey);
        }
    }
    lemma_canonicalize_idempotent_by(k0, k1, k2, len_first_order());
}
proof fn lemma_count_at_least_two(a: Seq<(Label, Value)>, i: int, j: int)
    requires 0 <= i < j < a.len(), a[i] == a[j],
    ensures a.to_multiset().count(a[i]) >= 2,
    decreases a.len()
{
    broadcast use vstd::seq_lib::group_to_multiset_ensures;
    let d = a.drop_last();
    lemma_multiset_drop_last(a);
    if j == a.len() - 1 {
        assert(d.contains(a[i])) by { assert(d[i] == a[i]); }
        assert(d.to_multiset().count(a[i]) >= 1);
        assert(a.last() == a[i]);
    } else {
        assert(d[i] == a[i] && d[j] == a[j]);
        lemma_count_at_least_two(d, i, j);
    }
}
proof fn lemma_count_distinct_is_one(o: Seq<(Label, Value)>, p: int)
    requires 0 <= p < o.len(), labels_distinct_p(o),
    ensures o.to_multiset().count(o[p]) == 1,
    decreases o.len()
{
    broadcast use vstd::seq_lib::group_to_multiset_ensures;
    let d = o.drop_last();
    lemma_multiset_drop_last(o);
    assert forall |x: int, y: int| 0 <= x < y < d.len() implies (#[trigger] d[x]).0 != (#[trigger] d[y]).0 by { assert(d[x] == o[x] && d[y] == o[y]); }
    if p == o.len() - 1 {
        if d.to_multiset().count(o[p]) > 0 { let q = lemma_in_multiset_has_index(d, o[p]); assert(o[q] == o[p]); assert(o[q].0 != o[p].0); }
    } else {
        assert(d[p] == o[p]);
        lemma_count_distinct_is_one(d, p);
        assert(o.last().0 != o[p].0);
    }
}
/// the statement on the REAL function: calling `CoseKey::canonicalize` twice leaves what the first call produced
pub fn check_canonicalize_twice_lex(k: &mut CoseKey)
    requires labels_distinct_p(old(k).params@),
{
    let ghost k0 = *k;
    k.canonicalize(CborOrdering::Lexicographic);
    let ghost k1 = *k;
    k.canonicalize(CborOrdering::Lexicographic);
    proof {
        assert(sorted_by(k1.params@, lex_order()));
        assert(sorted_by(k.params@, lex_order()));
        lemma_canonicalize_lex_idempotent(k0, k1, *k);
    }
    assert(k.params@ == k1.params@ && *k == (CoseKey { params: k.params, ..k1 }));
}
pub fn check_canonicalize_twice_len_first(k: &mut CoseKey)
    requires
        labels_distinct_p(old(k).params@),
        forall |x: Label, y: Label| #[trigger] enc(crate::common::label_cv(x)) == #[trigger] enc(crate::common::label_cv(y)) ==> x == y,
{
    let ghost k0 = *k;
    k.canonicalize(CborOrdering::LengthFirstLexicographic);
    let ghost k1 = *k;
    k.canonicalize(CborOrdering::LengthFirstLexicographic);
    proof {
        assert(sorted_by(k1.params@, len_first_order()));
        assert(sorted_by(k.params@, len_first_order()));
        lemma_canonicalize_len_first_idempotent(k0, k1, *k);
    }
    assert(k.params@ == k1.params@);
}
}
}
