use coset::CborSerializable;
fn head(major: u8, n: usize) -> Vec<u8> {
    let m = major << 5;
    if n < 24 { vec![m | n as u8] }
    else if n < 256 { vec![m | 24, n as u8] }
    else if n < 65536 { vec![m | 25, (n >> 8) as u8, n as u8] }
    else { let mut v = vec![m | 26]; v.extend_from_slice(&(n as u32).to_be_bytes()); v }
}
// header map {7: [ bstr(inner_hdr), {}, h'' ]}
fn nest(depth: usize) -> Vec<u8> {
    let mut inner: Vec<u8> = vec![0xa0]; // empty map
    for _ in 0..depth {
        let mut m = vec![0xa1, 0x07, 0x83];
        m.extend(head(2, inner.len())); m.extend(&inner);
        m.push(0xa0); m.push(0x40);
        inner = m;
    }
    inner
}
fn main() {
    let depth: usize = std::env::args().nth(1).unwrap().parse().unwrap();
    let hdr = nest(depth);
    // COSE_Sign1 = [ bstr(hdr), {}, nil, h'' ]
    let mut msg = vec![0x84];
    msg.extend(head(2, hdr.len())); msg.extend(&hdr);
    msg.extend([0xa0, 0xf6, 0x40]);
    eprintln!("depth {} input len {}", depth, msg.len());
    let t = std::time::Instant::now();
    let r = coset::CoseSign1::from_slice(&msg);
    eprintln!("decoded ok={} in {:?}", r.is_ok(), t.elapsed());
    if let Ok(v) = r { let t=std::time::Instant::now(); let c = v.clone(); eprintln!("clone {:?}", t.elapsed()); let _=c==v; let b = v.to_vec().unwrap(); eprintln!("reenc len {}", b.len()); }
}
