//! Replays concrete inputs against the REAL crate (path dependency on /repo).
//!   coset-replay finding <id>     exit 1 + "MANIFESTS ..." if the listed known finding still shows on the current tree, else exit 0
//!   coset-replay probe <property> deterministic probe set compared with an independent mini CBOR model; prints the first failing input, exit 1
mod probes;
use ciborium::value::Value;
use coset::{iana, AsCborValue, CborSerializable, CborOrdering, Label};

fn hex(b: &[u8]) -> String { b.iter().map(|x| format!("{:02x}", x)).collect() }
fn unhex(s: &str) -> Vec<u8> { (0..s.len() / 2).map(|i| u8::from_str_radix(&s[2 * i..2 * i + 2], 16).unwrap()).collect() }

/// independent reader: top-level map keys of a definite-length CBOR map, as raw encoded byte strings
pub fn map_key_encodings(b: &[u8]) -> Option<Vec<Vec<u8>>> {
    fn item_len(b: &[u8]) -> Option<usize> {
        let ib = *b.first()?;
        let (major, info) = (ib >> 5, ib & 0x1f);
        let (arg, hl): (u64, usize) = match info {
            0..=23 => (info as u64, 1),
            24 => (*b.get(1)? as u64, 2),
            25 => (u16::from_be_bytes([*b.get(1)?, *b.get(2)?]) as u64, 3),
            26 => (u32::from_be_bytes([*b.get(1)?, *b.get(2)?, *b.get(3)?, *b.get(4)?]) as u64, 5),
            27 => { let mut a = [0u8; 8]; a.copy_from_slice(b.get(1..9)?); (u64::from_be_bytes(a), 9) }
            _ => return None,
        };
        match major {
            0 | 1 | 7 => Some(hl),
            2 | 3 => Some(hl + arg as usize),
            4 => { let mut p = hl; for _ in 0..arg { p += item_len(b.get(p..)?)?; } Some(p) }
            5 => { let mut p = hl; for _ in 0..2 * arg { p += item_len(b.get(p..)?)?; } Some(p) }
            6 => Some(hl + item_len(b.get(hl..)?)?),
            _ => None,
        }
    }
    let ib = *b.first()?;
    if ib >> 5 != 5 { return None; }
    let (n, mut p) = match ib & 0x1f { x @ 0..=23 => (x as usize, 1usize), 24 => (*b.get(1)? as usize, 2), 25 => (u16::from_be_bytes([*b.get(1)?, *b.get(2)?]) as usize, 3), _ => return None };
    let mut keys = vec![];
    for _ in 0..n {
        let kl = item_len(b.get(p..)?)?;
        keys.push(b[p..p + kl].to_vec());
        p += kl;
        p += item_len(b.get(p..)?)?;
    }
    Some(keys)
}

fn finding(id: &str) -> i32 {
    match id {
        // C12 (encode): ClaimsSet::to_cbor_value has no duplicate check (pinned by cwt::tests::test_cwt_dup_claim)
        "C12-claims-dup" => {
            let c = coset::cwt::ClaimsSetBuilder::new()
                .claim(iana::CwtClaimName::AceProfile, Value::from(1))
                .claim(iana::CwtClaimName::AceProfile, Value::from(2))
                .build();
            match c.to_vec() {
                Ok(b) => {
                    let keys = map_key_encodings(&b).unwrap_or_default();
                    let dup = (0..keys.len()).any(|i| (0..i).any(|j| keys[i] == keys[j]));
                    if dup { println!("MANIFESTS ClaimsSet with claim 38 twice encodes to {} (duplicate map key emitted)", hex(&b)); 1 } else { 0 }
                }
                Err(_) => 0,
            }
        }
        // C20: extra parameter with label 0 is emitted after kty=1, so the canonicalised key is not ascending
        "C20-label0" => {
            let mut k = match coset::CoseKey::from_slice(&unhex("a201040005")) { Ok(k) => k, Err(_) => return 0 };
            let mut bad = false;
            let mut shown = String::new();
            for ord in [CborOrdering::Lexicographic, CborOrdering::LengthFirstLexicographic] {
                k.canonicalize(ord);
                if let Ok(b) = k.clone().to_vec() {
                    let keys = map_key_encodings(&b).unwrap_or_default();
                    if keys.windows(2).any(|w| !(w[0] < w[1])) { bad = true; shown = hex(&b); }
                }
            }
            if bad { println!("MANIFESTS key a201040005 canonicalises to {} (keys 01,00 not ascending)", shown); 1 } else { 0 }
        }
        _ => { eprintln!("unknown finding {}", id); 2 }
    }
}

fn head(major: u8, n: usize) -> Vec<u8> {
    let m = major << 5;
    if n < 24 { vec![m | n as u8] } else if n < 256 { vec![m | 24, n as u8] } else if n < 65536 { vec![m | 25, (n >> 8) as u8, n as u8] }
    else { let mut v = vec![m | 26]; v.extend_from_slice(&(n as u32).to_be_bytes()); v }
}
/// COSE_Sign1 whose protected header nests `depth` further protected headers through counter signatures
fn nested_protected(depth: usize, array_form: bool) -> Vec<u8> {
    let mut inner: Vec<u8> = vec![0xa0];
    for _ in 0..depth {
        // single counter signature {7: sig} or array form {7: [sig]}
        let mut m = if array_form { vec![0xa1, 0x07, 0x81, 0x83] } else { vec![0xa1, 0x07, 0x83] };
        m.extend(head(2, inner.len())); m.extend(&inner);
        m.push(0xa0); m.push(0x40);
        inner = m;
    }
    let mut msg = vec![0x84];
    msg.extend(head(2, inner.len())); msg.extend(&inner);
    msg.extend([0xa0, 0xf6, 0x40]);
    msg
}
/// COSE_Sign1 whose UNPROTECTED header nests counter signatures at the Value level (bounded by ciborium's recursion limit)
fn nested_unprotected(depth: usize) -> Vec<u8> {
    let mut inner: Vec<u8> = vec![0xa0];
    for _ in 0..depth {
        let mut m = vec![0xa1, 0x07, 0x83, 0x40];
        m.extend(&inner);
        m.push(0x40);
        inner = m;
    }
    let mut msg = vec![0x84, 0x40];
    msg.extend(&inner);
    msg.extend([0xf6, 0x40]);
    msg
}
/// C01 measurement stand-in (bounded, NOT a proof): decode the deepest accepted and much deeper rejected nestings on a 2 MiB stack
fn c01_measure() -> i32 {
    let h = std::thread::Builder::new().stack_size(2 * 1024 * 1024).spawn(|| {
        let mut bad = 0;
        for (d, want_ok, arr) in [(15usize, true, false), (16, false, false), (3000, false, false), (100000, false, false),
                                   (15, true, true), (16, false, true), (3000, false, true), (100000, false, true)] {
            let b = nested_protected(d, arr);
            let t = std::time::Instant::now();
            let r = coset::CoseSign1::from_slice(&b);
            let el = t.elapsed();
            println!("protected nesting {:6} {} ({} bytes): ok={} in {:?}", d, if arr { "array-form" } else { "single-form" }, b.len(), r.is_ok(), el);
            if r.is_ok() != want_ok || el.as_secs() >= 2 { bad += 1; }
            if let Ok(v) = r { let c = v.clone(); let _ = c == v; let e = v.to_vec().unwrap(); if e != b { bad += 1; } let _ = c.tbs_data(b"aad"); }
        }
        for d in [10usize, 60, 120, 200, 1000] {
            let b = nested_unprotected(d);
            let t = std::time::Instant::now();
            let r = coset::CoseSign1::from_slice(&b);
            println!("value-level nesting {:5} ({} bytes): ok={} in {:?}", d, b.len(), r.is_ok(), t.elapsed());
            if let Ok(v) = r { let c = v.clone(); let _ = c == v; let _ = v.to_vec(); }
        }
        // plain CBOR nesting (arrays / tags / maps) far beyond ciborium's recursion limit, through several entry points:
        // must come back as an error, quickly, on this 2 MiB stack
        for n in [255usize, 257, 100_000, 300_000] {
            for (name, unit, tail) in [("array", vec![0x81u8], vec![0x00u8]), ("tag", vec![0xc1], vec![0x00]), ("map", vec![0xa1, 0x00], vec![0x00])] {
                let mut b = Vec::with_capacity(n * unit.len() + 1);
                for _ in 0..n { b.extend_from_slice(&unit); }
                b.extend_from_slice(&tail);
                let t = std::time::Instant::now();
                let r1 = coset::CoseSign1::from_slice(&b).is_ok();
                let r2 = coset::Header::from_slice(&b).is_ok();
                let r3 = coset::CoseKey::from_slice(&b).is_ok();
                let r4 = <coset::CoseSign1 as coset::TaggedCborSerializable>::from_tagged_slice(&b).is_ok();
                let r5 = coset::cwt::ClaimsSet::from_slice(&b).is_ok();
                let el = t.elapsed();
                if n >= 100_000 || name != "array" { println!("plain {} nesting {:6}: accepted={} in {:?}", name, n, r1 || r2 || r3 || r4 || r5, el); }
                if (n > 256 && (r1 || r2 || r3 || r4 || r5)) || el.as_secs() >= 4 { bad += 1; }
            }
        }
        // long flat inputs: decode time must stay proportional to the input (each of these takes well under 0.3 s on the
        // unchanged crate; the bound is 6 s so that a loaded machine does not matter, a quadratic pass over 150 000 items does)
        {
            const N: usize = 150_000;
            let many = |prefix: &[u8], item: &[u8], suffix: &[u8]| { let mut b = prefix.to_vec(); for _ in 0..N { b.extend_from_slice(item); } b.extend_from_slice(suffix); b };
            let n4 = { let mut h = vec![0x9a]; h.extend_from_slice(&((N as u32) + 4).to_be_bytes()); h };
            let nn = |extra: usize| { let mut h = vec![0x9a]; h.extend_from_slice(&((N + extra) as u32).to_be_bytes()); h };
            let mn = |extra: usize| { let mut h = vec![0xba]; h.extend_from_slice(&((N + extra) as u32).to_be_bytes()); h };
            let mut cases: Vec<(&str, Vec<u8>, Box<dyn Fn(&[u8]) -> bool>)> = vec![];
            // COSE_KDF_Context with N trailing SuppPrivInfo byte strings
            { let mut p = n4.clone(); p.extend_from_slice(&[0x01, 0x83, 0xf6, 0xf6, 0xf6, 0x83, 0xf6, 0xf6, 0xf6, 0x82, 0x18, 0x80, 0x40]);
              cases.push(("COSE_KDF_Context with 150000 SuppPrivInfo entries", many(&p, &[0x40], &[]), Box::new(|b| coset::CoseKdfContext::from_slice(b).map(|c| { let _ = c.clone().to_vec(); }).is_ok()))); }
            // COSE_Sign with N signatures, COSE_Encrypt with N recipients
            { let mut p = vec![0x84, 0x40, 0xa0, 0xf6]; p.extend(nn(0));
              cases.push(("COSE_Sign with 150000 signatures", many(&p, &[0x83, 0x40, 0xa0, 0x40], &[]), Box::new(|b| coset::CoseSign::from_slice(b).map(|c| { let _ = c.clone().to_vec(); }).is_ok())));
              cases.push(("COSE_Encrypt with 150000 recipients", many(&p, &[0x83, 0x40, 0xa0, 0xf6], &[]), Box::new(|b| coset::CoseEncrypt::from_slice(b).map(|c| { let _ = c.clone().to_vec(); }).is_ok()))); }
            // header with N counter signatures, with a crit list of N entries
            { let mut p = vec![0xa1, 0x07]; p.extend(nn(0));
              cases.push(("header with 150000 counter signatures", many(&p, &[0x83, 0x40, 0xa0, 0x40], &[]), Box::new(|b| coset::Header::from_slice(b).map(|c| { let _ = c.clone().to_vec(); }).is_ok())));
              let mut p = vec![0xa1, 0x02]; p.extend(nn(0));
              cases.push(("header with a crit list of 150000 entries", many(&p, &[0x04], &[]), Box::new(|b| coset::Header::from_slice(b).map(|c| { let _ = c.clone().to_vec(); }).is_ok()))); }
            // key with a key_ops list of N (repeating -> rejected, but quickly), key set of N keys
            { let mut p = vec![0xa2, 0x01, 0x04, 0x04]; p.extend(nn(0));
              cases.push(("key with 150000 key_ops entries", many(&p, &[0x61, b'x'], &[]), Box::new(|b| { let _ = coset::CoseKey::from_slice(b); true })));
              cases.push(("key set of 150000 keys", many(&nn(0), &[0xa1, 0x01, 0x04], &[]), Box::new(|b| coset::CoseKeySet::from_slice(b).map(|c| { let _ = c.clone().to_vec(); }).is_ok()))); }
            // maps with N distinct extra entries: header, key, claims set (labels 1000.., two-byte heads)
            { let distinct = |prefix: Vec<u8>| { let mut b = prefix; for i in 0..N { b.push(0x1a); b.extend_from_slice(&(100_000u32 + i as u32).to_be_bytes()); b.push(0xf6); } b };
              cases.push(("header with 150000 extra parameters", distinct(mn(0)), Box::new(|b| coset::Header::from_slice(b).map(|c| { let _ = c.clone().to_vec(); }).is_ok())));
              let mut p = mn(1); p.extend_from_slice(&[0x01, 0x04]);
              cases.push(("key with 150000 extra parameters", distinct(p), Box::new(|b| coset::CoseKey::from_slice(b).map(|mut c| { c.canonicalize(coset::CborOrdering::Lexicographic); let _ = c.to_vec(); }).is_ok())));
              let negs = { let mut b = mn(0); for i in 0..N { b.push(0x3a); b.extend_from_slice(&(100_000u32 + i as u32).to_be_bytes()); b.push(0xf6); } b };
              cases.push(("claims set with 150000 private claims", negs, Box::new(|b| coset::cwt::ClaimsSet::from_slice(b).map(|c| { let _ = c.clone().to_vec(); }).is_ok()))); }
            for (name, input, run) in cases {
                let t = std::time::Instant::now();
                let ok = run(&input);
                let el = t.elapsed();
                println!("{} ({} bytes): ok={} in {:?}", name, input.len(), ok, el);
                if !ok { println!("FAILING-INPUT {}: rejected (a well-formed long input)", name); bad += 1; }
                if el.as_secs() >= 6 { println!("FAILING-INPUT {} ({} bytes): decoding took {:?}, more than proportional to the input", name, input.len(), el); bad += 1; }
            }
        }
        bad
    }).unwrap();
    match h.join() { Ok(0) => 0, Ok(_) => { println!("MEASUREMENT-MISMATCH"); 1 } Err(_) => { println!("PANIC in decode thread"); 1 } }
}

fn main() {
    let a: Vec<String> = std::env::args().collect();
    let rc = match a.get(1).map(|s| s.as_str()) {
        Some("finding") => finding(a.get(2).map(|s| s.as_str()).unwrap_or("")),
        Some("c01-measure") => c01_measure(),
        Some("probe") => match a.get(2).map(|s| s.as_str()) {
            Some("structures") => probes::probe_structures(),
            Some("headers") => probes::probe_headers(),
            Some("framing") => probes::probe_framing(),
            Some("integers") => probes::probe_integers(),
            Some("order") => probes::probe_order(),
            Some("keys") => probes::probe_keys(),
            Some("claims") => probes::probe_claims(),
            Some("builders") => probes::probe_builders(),
            Some("roundtrip") => probes::probe_roundtrip(),
            Some("messages") => probes::probe_messages(),
            _ => { eprintln!("unknown probe"); 2 }
        },
        _ => { eprintln!("usage: coset-replay finding <id>"); 2 }
    };
    let _ = (Label::Int(0), <Value as AsCborValue>::from_cbor_value(Value::Null));
    std::process::exit(rc);
}
