#!/usr/bin/env python3
"""Re-extract /repo/src/*/mod.rs into one Verus file and merge the contracts in.

Pipeline (run on every check, from the *current working tree* of /repo):

  1. rewrite(): the closed list of mechanical, purely syntactic rewrites R1-R8
     (DESIGN.md section 2.2) turns each src/<m>/mod.rs into text Verus accepts.
     Function bodies, types, consts, trait and impl items are otherwise copied
     character for character.
  2. merge(): /verif/contracts/<m>.rs is an annotated copy of the rewritten
     module in which every piece of ghost text (requires/ensures/invariants/
     proof blocks/spec fns/lemmas) is enclosed in guillemets.  The ghost
     pieces are *insertions*: they are located in the annotated copy by the
     real-code tokens around them and are then inserted at the corresponding
     token positions of the text produced by step 1 from the CURRENT source.
     The annotated copy is never verified itself; if /repo changes, the changed
     code is what reaches Verus, with the contracts attached to it.
  3. self-check: deleting every inserted region from the output gives back the
     rewritten current source byte for byte.

Inserted regions are written to the generated file between /*<<*/ and /*>>*/.
"""
import re, sys, os, json, hashlib, difflib

REPO = os.environ.get('COSET_REPO', '/repo')
VERIF = os.path.dirname(os.path.dirname(os.path.abspath(__file__)))
MODS = ['util', 'cwt', 'iana', 'common', 'context', 'encrypt', 'header', 'key', 'mac', 'sign']
OPEN, CLOSE = '«', '»'          # guillemets in the sidecar
GOPEN, GCLOSE = '/*<<*/', '/*>>*/'        # markers in the generated file


class ExtractError(Exception):
    pass


# --------------------------------------------------------------------------
# small helpers
def match_brace(s, i, o='{', c='}'):
    """index of the bracket matching s[i] (== o); ignores strings/comments crudely but
    sufficient for this code base (no braces inside string literals of the sources)."""
    d = 0
    j = i
    n = len(s)
    while j < n:
        ch = s[j]
        if ch == o:
            d += 1
        elif ch == c:
            d -= 1
            if d == 0:
                return j
        j += 1
    raise ExtractError('unbalanced %s at %d' % (o, i))


TOKEN_RE = re.compile(r'''
    (?P<ws>\s+)
  | (?P<lc>//[^\n]*)
  | (?P<bc>/\*.*?\*/)
  | (?P<rstr>b?r\#*"(?:.|\n)*?"\#*)
  | (?P<str>b?"(?:\\.|[^"\\])*")
  | (?P<chr>b?'(?:\\.[^']*|[^'\\])')
  | (?P<life>'[A-Za-z_][A-Za-z0-9_]*)
  | (?P<id>[A-Za-z_][A-Za-z0-9_]*)
  | (?P<num>[0-9][A-Za-z0-9_]*(?:\.[0-9][A-Za-z0-9_]*)?)
  | (?P<p>.)
''', re.X | re.S)


def tokenize(text):
    """-> list of (start, end, string) for code tokens (whitespace and comments dropped)."""
    toks = []
    for m in TOKEN_RE.finditer(text):
        k = m.lastgroup
        if k in ('ws', 'lc', 'bc'):
            continue
        toks.append((m.start(), m.end(), m.group()))
    return toks


# --------------------------------------------------------------------------
# R5: macro expansion by substitution, from the macro definitions in the current source
def macro_def(src, name):
    i = src.index('macro_rules! ' + name + ' {')
    b = src.index('{', i)
    e = match_brace(src, b)
    body = src[b + 1:e]
    p0 = body.index('(')
    p1 = match_brace(body, p0, '(', ')')
    x0 = body.index('{', p1)
    x1 = match_brace(body, x0)
    return body[p0 + 1:p1].strip(), body[x0 + 1:x1], (i, e + 1)


AUTO_SETTERS = {}


def expand_builders(src, util_src, counts):
    """expand the four builder macros; each expanded method gets placeholder comments (invisible to the
    token merge) that add_auto() later turns into the generated contract for that invocation"""
    targets = dict(re.findall(r'pub struct (\w+)\((\w+)\);', src))
    private = set()
    for sm in re.finditer(r'pub struct (\w+) \{', src):
        body = src[sm.end():match_brace(src, sm.end() - 1)]
        for ln in body.split('\n'):
            ln = ln.strip()
            if ln and not ln.startswith('//') and not ln.startswith('#') and not ln.startswith('pub ') and re.match(r'\w+\s*:', ln):
                private.add(sm.group(1))
    setters = {}
    for name in ['builder_set_protected', 'builder_set_optional', 'builder_set', 'builder']:
        pat, exp, _ = macro_def(util_src, name)
        res = []
        pos = 0
        for m in re.finditer(r'\b' + name + r'!\s*\{([^}]*)\}', src):
            counts['R5'] += 1
            impls = re.findall(r'\bimpl (\w+) \{', src[:m.start()])
            b = impls[-1] if impls else '?'
            t_ = targets.get(b, '?')
            arg = m.group(1).strip()
            t = exp
            if name == 'builder':
                t = t.replace('$otype', arg)
                t = t.replace('pub fn new() -> Self {', 'pub fn new() ->/*@A:ro*/ Self/*@A:new:%s:%s:_*/ {' % (b, t_), 1)
                t = re.sub(r'pub fn build\(self\) -> ([^{]+?) \{', lambda mm: 'pub fn build(self) ->/*@A:ro*/ %s/*@A:build:%s:%s:_*/ {' % (mm.group(1), b, t_), t, count=1)
            elif name == 'builder_set_protected':
                t = t.replace('$name', arg).replace('$crate', 'crate')
                kind = 'prot'
                if t_ in private:
                    setters.setdefault(b, []).append((kind, arg, 'crate::Header'))
                    kind = 'cprot'
                t = t.replace(' -> Self {', ' ->/*@A:ro*/ Self/*@A:%s:%s:%s:%s*/ {' % (kind, b, t_, arg), 1)
            else:
                n, ty = arg.split(':', 1)
                t = t.replace('$name', n.strip()).replace('$ftype', ty.strip())
                kind = 'set' if name == 'builder_set' else 'opt'
                if t_ in private:
                    setters.setdefault(b, []).append((kind, n.strip(), ty.strip()))
                    kind = 'c' + kind
                t = t.replace(' -> Self {', ' ->/*@A:ro*/ Self/*@A:%s:%s:%s:%s*/ {' % (kind, b, t_, n.strip()), 1)
            res.append(src[pos:m.start()])
            res.append(t)
            pos = m.end()
        res.append(src[pos:])
        src = ''.join(res)
    # inner() accessor for every builder newtype
    def inner(mm):
        b, t_ = mm.group(2), mm.group(3)
        extra = ''.join('_%s_%s_%s' % (k, n, re.sub(r'\W', 'Q', ty)) for k, n, ty in setters.get(b, []))
        AUTO_SETTERS[b] = setters.get(b, [])
        return mm.group(1) + '/*@A:inner:%s:%s:_*/' % (b, t_)
    src = re.sub(r'(pub struct (\w+)\((\w+)\);)', inner, src)
    return src


def strip_macros(src):
    while 'macro_rules!' in src:
        i = src.index('macro_rules!')
        b = src.index('{', i)
        e = match_brace(src, b)
        pre = src[:i]
        pre = re.sub(r'(\s*///[^\n]*\n)+\s*$', '\n', pre)
        src = pre + src[e + 1:]
    return src


def split_repetitions(t):
    """split transcriber text into [('text', s) | ('rep', inner, sep)] at top-level $( ... )sep* groups"""
    out = []
    pos = 0
    while True:
        i = t.find('$(', pos)
        if i < 0:
            out.append(('text', t[pos:]))
            return out
        out.append(('text', t[pos:i]))
        j = match_brace(t, i + 1, '(', ')')
        k = j + 1
        sep = ''
        while t[k] not in '*+':
            sep += t[k]
            k += 1
        out.append(('rep', t[i + 2:j], sep))
        pos = k + 1


def expand_iana(src, registries, counts):
    """expand every iana_registry! invocation with the transcriber of the macro as found in src"""
    pat, exp, (mi, me) = macro_def(src, 'iana_registry')
    src2 = src[:mi] + src[me:]
    res = []
    pos = 0
    for m in re.finditer(r'iana_registry!\s*\{', src2):
        counts['R5'] += 1
        b = m.end() - 1
        e = match_brace(src2, b)
        inner = src2[b + 1:e]
        mm = re.search(r'\n\s*([A-Za-z0-9_]+)\s*\{', inner)
        ename = mm.group(1)
        k = inner.index('{', mm.start(1))
        attrs = inner[:mm.start(1)]
        entries = inner[k + 1:inner.rindex('}')]
        ents = []
        cur = []
        for line in entries.split('\n'):
            ls = line.strip()
            if not ls:
                continue
            if ls.startswith('//') or ls.startswith('#['):
                cur.append(line)
                continue
            em = re.match(r'([A-Za-z0-9_]+)\s*:\s*(.+?)\s*,\s*$', ls)
            if not em:
                raise ExtractError('iana_registry entry not understood: ' + ls)
            ents.append(('\n'.join(cur), em.group(1), em.group(2)))
            cur = []
        registries.append((ename, [(n, v) for _, n, v in ents]))

        def expand(t, env):
            o = []
            for part in split_repetitions(t):
                if part[0] == 'text':
                    s = part[1]
                    for key, val in env.items():
                        s = s.replace(key, val)
                    o.append(s)
                else:
                    inner_t = part[1]
                    if '$name' in inner_t or '$val' in inner_t:
                        for at, n, v in ents:
                            o.append(expand(inner_t, dict(env, **{'$name': n, '$val': v, '@fattr': at})) + part[2] + '\n')
                    elif '$fattr' in inner_t:
                        o.append(env.get('@fattr', '') + '\n')
                    elif '$attr' in inner_t:
                        o.append(attrs)
                    else:
                        raise ExtractError('unknown repetition in iana_registry!: ' + inner_t)
            return ''.join(o)
        t = expand(exp, {'$enum_name': ename})
        # placeholder (a comment: invisible to the token merge) for the generated spec members
        t = re.sub(r'(impl EnumI64 for ' + ename + r'\s*\{)', r'\1/*@AUTO:iana_spec:' + ename + '*/', t)
        res.append(src2[pos:m.start()])
        res.append(t)
        pos = e + 1
    res.append(src2[pos:])
    return ''.join(res)


def eval_int(expr):
    return int(expr.replace('_', ''), 0)


def iana_spec_text(ename, ents):
    sfrom = ' else '.join('if i == %di64 { Some(Self::%s) }' % (eval_int(v), n) for n, v in ents) + ' else { None }'
    sto = '\n'.join('                Self::%s => %di64,' % (n, eval_int(v)) for n, v in ents)
    return '''
            open spec fn spec_from_i64(i: i64) -> Option<Self> { %s }
            open spec fn spec_to_i64(&self) -> i64 { match self {
%s
            } }
            proof fn lemma_enum_laws() {}
''' % (sfrom, sto)


# --------------------------------------------------------------------------
# R2: mut self
def rw_mut_self(src, counts):
    res = []
    pos = 0
    for m in re.finditer(r'\((\s*)mut self\b', src):
        if m.start() < pos:
            continue
        counts['R2'] += 1
        res.append(src[pos:m.start()])
        res.append('(' + m.group(1) + 'self')
        i = src.index('{', m.end())
        j = match_brace(src, i)
        res.append(src[m.end():i + 1])
        body = src[i + 1:j]
        body = re.sub(r'\bself\b', 'self_', body)
        res.append(' let mut self_ = self;' + body)
        pos = j
    res.append(src[pos:])
    return ''.join(res)


HDR_VALS = {'Alg': 1, 'Crit': 2, 'ContentType': 3, 'Kid': 4, 'Iv': 5, 'PartialIv': 6, 'CounterSignature': 7}
KEY_VALS = {'Kty': 1, 'Kid': 2, 'Alg': 3, 'KeyOps': 4, 'BaseIv': 5}


ALL_SRC = {}


def rewrite(m, src, util_src, registries, counts):
    """R1-R8 on one module.  counts: dict rule -> number of applications."""
    src = src.replace('#[cfg(test)]\nmod tests;\n', '')
    src = re.sub(r"^//!.*$", "", src, flags=re.M)
    if m == 'iana':
        src = expand_iana(src, registries, counts)
    src = expand_builders(src, util_src, counts)
    src = strip_macros(src)
    src = rw_mut_self(src, counts)
    # R9: `for i in (A..B).rev() { body }`  ->  `{ let mut i__ = B; while i__ > A { i__ -= 1; let i = i__; body } }`
    # (vstd gives Rev<Range<usize>> no usable ghost-iterator relation between the loop variable and the index)
    while True:
        mm = re.search(r'for (\w+) in \((\w+)\.\.([^()]+(?:\(\))?)\)\.rev\(\) \{', src)
        if not mm:
            break
        b = mm.end() - 1
        e = match_brace(src, b)
        body = src[b + 1:e]
        if re.search(r'\bcontinue\b', body):
            raise ExtractError('R9: reverse range loop with `continue` is not supported')
        counts['R9'] += 1
        v, lo, hi = mm.group(1), mm.group(2), mm.group(3)
        src = src[:mm.start()] + '{ let mut %s__ = %s; while %s__ > %s { %s__ -= 1; let %s = %s__;%s} }' % (v, hi, v, lo, v, v, v, body) + src[e + 1:]
    n = [0]

    def r1(mm):
        n[0] += 1
        counts['R1'] += 1
        return '%s_p%d:' % (mm.group(1), n[0])
    src = re.sub(r'([(,]\s*)_:', r1, src)

    def cnt(rule, pattern, repl, s, regex=False):
        if regex:
            s2, k = re.subn(pattern, repl, s)
        else:
            k = s.count(pattern)
            s2 = s.replace(pattern, repl)
        counts[rule] += k
        return s2
    src = cnt('R3', r'(?:crate::)?cbor::ser::into_writer\(', 'crate::vprelude::into_writer_vec(', src, regex=True)
    src = cnt('R3', r'(?:crate::)?cbor::de::from_reader\(', 'crate::vprelude::from_reader_slice(', src, regex=True)
    # a reader passed by value (`from_reader(&data[..])`) reads from a temporary: same result, the rest is discarded
    pos = 0
    while True:
        i = src.find('crate::vprelude::from_reader_slice(', pos)
        if i < 0:
            break
        b = i + len('crate::vprelude::from_reader_slice')
        e = match_brace(src, b, '(', ')')
        arg = src[b + 1:e].strip()
        if not arg.startswith('&mut'):
            src = src[:b + 1] + '&mut (' + arg + ')' + src[e:]
        pos = b + 1
    # (either operand order, `!=` or `==`: str/String comparison is content comparison)
    src = cnt('R4', r"\b(\w+)\.trim\(\)\s*!=\s*(\w+)\b(?![.(])", r"crate::vprelude::str_ne_string(\1.trim(), \2)", src, regex=True)
    src = cnt('R4', r"\b(\w+)\s*!=\s*(\w+)\.trim\(\)", r"crate::vprelude::str_ne_string(\1, \2.trim())", src, regex=True)
    src = cnt('R4', r"\b(\w+)\.trim\(\)\s*==\s*(\w+)\b(?![.(])", r"!crate::vprelude::str_ne_string(\1.trim(), \2)", src, regex=True)
    src = cnt('R4', r"\b(\w+)\s*==\s*(\w+)\.trim\(\)", r"!crate::vprelude::str_ne_string(\1, \2.trim())", src, regex=True)
    # R13: a one-field tuple constructor passed as a function value to an Option / Result combinator (`.map(Value::Bytes)`)
    # is eta-expanded to a closure (`.map(|x__| Value::Bytes(x__))`, the same function); add_auto() gives that closure the
    # `ensures` that says so.  The constructor table comes from the enum / tuple-struct definitions of the current source.
    ctors = set(['Some', 'Ok', 'Err', 'Integer', 'Bytes', 'Float', 'Text', 'Bool', 'Array', 'Map'])
    allsrc = ALL_SRC.get('text') or src
    for em in re.finditer(r'\benum\s+[A-Z][A-Za-z0-9_]*(?:<[^>{]*>)?\s*(?:where[^{]*)?\{', allsrc):
        try:
            ee = match_brace(allsrc, em.end() - 1)
        except Exception:
            continue
        for vm in re.finditer(r'\b([A-Z][A-Za-z0-9_]*)\s*\(([^(),]*(?:<[^()]*>)?[^(),]*)\)\s*,', allsrc[em.end():ee]):
            ctors.add(vm.group(1))
    tuple_structs = set(re.findall(r'\bstruct\s+([A-Z][A-Za-z0-9_]*)\s*\(\s*(?:pub(?:\([a-z]+\))?\s+)?[^(),]+\)\s*;', allsrc))
    ctors |= tuple_structs

    def r13(mm):
        path = mm.group(3)
        last = path.split('::')[-1]
        if last == 'Self':
            encl = [im.group(1) for im in re.finditer(r'\bimpl(?:<[^>]*>)?\s+(?:[A-Za-z0-9_:<>, ]+?\s+for\s+)?([A-Za-z0-9_]+)', src[:mm.start()])]
            if not encl or encl[-1] not in tuple_structs:
                return mm.group(0)
        elif last not in ctors:
            return mm.group(0)
        counts['R13'] += 1
        return '%s%s|x__| /*@AUTO:eta:%s*/ { %s(x__) }%s' % (mm.group(1), mm.group(2), path, path, mm.group(4))
    src = re.sub(r'(\.\s*(?:map|map_err|and_then)\s*\()(\s*)((?:[A-Za-z_][A-Za-z0-9_]*::)*[A-Z][A-Za-z0-9_]*)(\s*\))', r13, src)
    src = re.sub(r'(\.\s*map_or\s*\((?:[^(),]|\([^()]*\))*,)(\s*)((?:[A-Za-z_][A-Za-z0-9_]*::)*[A-Z][A-Za-z0-9_]*)(\s*\))', r13, src)
    # R12: a reference type in a `const` / `static` item has the elided lifetime 'static; Verus wants it written
    def r12(mm):
        ty = re.sub(r"&(?!\s*')", "&'static ", mm.group(3))
        if ty != mm.group(3):
            counts['R12'] += 1
        return mm.group(1) + mm.group(2) + ty + mm.group(4)
    src = re.sub(r"(\b(?:const|static)\s+[A-Z][A-Z0-9_]*\s*:)(\s*)([^=;]*?)(\s*=)", r12, src)
    src = cnt('R4', r"(\w+)\.matches\('/'\)\.count\(\)", r"crate::vprelude::str_count_matches(&\1, '/')", src, regex=True)

    def cr(mm):
        counts['R8'] += 1
        tab = HDR_VALS if 'HeaderParameter' in mm.group(2) else KEY_VALS
        v = tab.get(mm.group(3))
        if v is None:
            raise ExtractError('label constant %s names %s::%s which the oracle table does not know' % (mm.group(1), mm.group(2), mm.group(3)))
        return 'exec const %s: Label ensures %s == Label::Int(%d) { Label::Int(%s::%s as i64) }' % (
            mm.group(1), mm.group(1), v, mm.group(2), mm.group(3))
    src = re.sub(r'const (\w+): Label = Label::Int\((iana::\w+)::(\w+) as i64\);', cr, src)
    src = cnt('R8', r'(\n\s*)const TAG: u64 = ', r'\1#[verifier::external_body] const TAG: u64 = ', src, regex=True)
    src = cnt('R7', r'(#\[derive\(Clone, Debug, Default, PartialEq\)\])', r'#[verifier::external_derive(Clone)]\n\1', src, regex=True)
    if m == 'header':
        src = cnt('R6', "self_.counter_signatures.remove(0).to_cbor_value()?",
                  "crate::vstubs::sig_to_cbor_value__stub(self_.counter_signatures.remove(0))?", src)
        src = cnt('R6', "to_cbor_array(self_.counter_signatures)?",
                  "crate::vstubs::sigs_to_cbor_array__stub(self_.counter_signatures)?", src)
    if m == 'encrypt':
        i = src.find("impl AsCborValue for CoseRecipient {")
        j = src.find("impl CoseRecipient {")
        if i >= 0 and j > i:
            blk = src[i:j]
            blk = cnt('R6', ".try_as_array_then_convert(CoseRecipient::from_cbor_value)?",
                      ".try_as_array_then_convert(crate::vstubs::recipient_from_cbor_value__stub)?", blk)
            blk = cnt('R6', "to_cbor_array(self.recipients)?", "crate::vstubs::recipients_to_cbor_array__stub(self.recipients)?", blk)
            src = src[:i] + blk + src[j:]
    if m == 'common':
        # R11: Vec<u8> comparison -> pass-through shim (the generic `impl Ord for Vec<T, A>` cannot be given a byte-level spec)
        src = cnt('R11', 'encoded_self.cmp(&encoded_other)', 'crate::vprelude::bytes_cmp(&encoded_self, &encoded_other)', src)
    if m == 'cwt':
        # R10: BTreeSet<ClaimName> operations -> pass-through shims (vstd's BTreeSet specs need Ord laws on ALL values of the
        # key type; RegisteredLabelWithPrivate only obeys them on well-formed labels, so the set semantics is assumed there)
        src = cnt('R10', 'seen.contains(&name)', 'crate::vprelude::regp_set_contains(&seen, &name)', src)
        src = cnt('R10', 'seen.insert(name.clone())', 'crate::vprelude::regp_set_insert(&mut seen, name.clone())', src)
    if m == 'util':
        i = src.find('/// Check for an expected error.')
        j = src.find('// Macros to reduce boilerplate')
        if i >= 0 and j > i:
            src = src[:i] + src[j:]
    if m == 'common':
        src = src.replace("    fn from(e: cbor::de::Error<T>) -> Self {", "    #[verifier::external_body]\n    fn from(e: cbor::de::Error<T>) -> Self {")
        src = src.replace("    fn from(_e: cbor::ser::Error<T>) -> Self {", "    #[verifier::external_body]\n    fn from(_e: cbor::ser::Error<T>) -> Self {")
        src = src.replace("    fn fmt_msg(&self", "    #[verifier::external]\n    fn fmt_msg(&self")
        src = src.replace("impl core::fmt::Debug for CoseError {", "#[verifier::external]\nimpl core::fmt::Debug for CoseError {")
        src = src.replace("impl core::fmt::Display for CoseError {", "#[verifier::external]\nimpl core::fmt::Display for CoseError {")
        src = src.replace('#[cfg(feature = "std")]\nimpl std::error::Error for CoseError {}\n', '')
    return src


# --------------------------------------------------------------------------
# sidecar handling
def split_sidecar(a_text):
    """annotated copy -> (base text B, [(char offset in B, inserted text)])"""
    out = []
    ins = []
    pos = 0
    blen = 0
    while True:
        i = a_text.find(OPEN, pos)
        if i < 0:
            out.append(a_text[pos:])
            break
        out.append(a_text[pos:i])
        blen += i - pos
        j = a_text.find(CLOSE, i)
        if j < 0:
            raise ExtractError('unterminated insertion in sidecar at offset %d' % i)
        if OPEN in a_text[i + 1:j]:
            raise ExtractError('nested insertion marker in sidecar at offset %d' % i)
        ins.append((blen, a_text[i + 1:j]))
        pos = j + 1
    return ''.join(out), ins


def lines_of(toks, text):
    """group token indices by source line -> list of (key tuple, [token indices])"""
    groups = []
    cur_line = None
    line_no = 0
    last = 0
    for idx, (s, e, t) in enumerate(toks):
        line_no += text.count('\n', last, s)
        last = s
        if cur_line != line_no:
            groups.append([])
            cur_line = line_no
        groups[-1].append(idx)
    return [(tuple(toks[i][2] for i in g), g) for g in groups]


def token_map(btoks, btext, ctoks, ctext):
    """M[k] = index in ctoks matched to btoks[k], or None"""
    M = [None] * len(btoks)
    bl = lines_of(btoks, btext)
    cl = lines_of(ctoks, ctext)
    sm = difflib.SequenceMatcher(None, [k for k, _ in bl], [k for k, _ in cl], autojunk=False)
    ops = [list(o) for o in sm.get_opcodes()]
    # diff "slider": a deleted block whose first line equals the line that follows the block is pushed down,
    # so that the code BEFORE a removed block keeps its ghost text (e.g. the `}` closing the previous statement)
    for n_, o in enumerate(ops):
        if o[0] == 'delete' and n_ + 1 < len(ops) and ops[n_ + 1][0] == 'equal' and n_ > 0 and ops[n_ - 1][0] == 'equal':
            nxt, prv = ops[n_ + 1], ops[n_ - 1]
            while o[1] < o[2] and nxt[1] < nxt[2] and bl[o[1]][0] == bl[nxt[1]][0]:
                o[1] += 1; o[2] += 1; o[3] += 1; o[4] += 1
                prv[2] += 1; prv[4] += 1
                nxt[1] += 1; nxt[3] += 1
    for tag, i1, i2, j1, j2 in ops:
        if tag == 'equal':
            for di in range(i2 - i1):
                for x, y in zip(bl[i1 + di][1], cl[j1 + di][1]):
                    M[x] = y
        elif tag == 'replace':
            bi = [x for _, g in bl[i1:i2] for x in g]
            ci = [y for _, g in cl[j1:j2] for y in g]
            # common prefix / suffix of the hunk are the same code, whatever their length
            pre = 0
            while pre < len(bi) and pre < len(ci) and btoks[bi[pre]][2] == ctoks[ci[pre]][2]:
                M[bi[pre]] = ci[pre]
                pre += 1
            suf = 0
            while suf < len(bi) - pre and suf < len(ci) - pre and btoks[bi[-1 - suf]][2] == ctoks[ci[-1 - suf]][2]:
                M[bi[-1 - suf]] = ci[-1 - suf]
                suf += 1
            bi = bi[pre:len(bi) - suf]
            ci = ci[pre:len(ci) - suf]
            sm2 = difflib.SequenceMatcher(None, [btoks[x][2] for x in bi], [ctoks[y][2] for y in ci], autojunk=False)
            for a, b, size in sm2.get_matching_blocks():
                # inside a changed hunk only runs of >= 3 tokens count as "the same code" (single brackets, dots and
                # semicolons match anywhere and would attach ghost text to unrelated code)
                if size < 3 and not (size == len(bi) == len(ci)):
                    continue
                for d in range(size):
                    M[bi[a + d]] = ci[b + d]
    return M


IDENT_RE = re.compile(r'^[A-Za-z_][A-Za-z0-9_]*$')
KEYWORDS = set('as break const continue crate else enum extern false fn for if impl in let loop match mod move mut pub ref return self Self static struct super trait true type unsafe use where while dyn'.split())


def fn_ranges(toks):
    """[(first token index, last token index)] of every `fn` item with a body, innermost last"""
    out = []
    for i, (_, _, t) in enumerate(toks):
        if t != 'fn':
            continue
        j = i + 1
        depth = 0
        while j < len(toks):
            x = toks[j][2]
            if x in '([':
                depth += 1
            elif x in ')]':
                depth -= 1
            elif x == ';' and depth == 0:
                j = None
                break
            elif x == '{' and depth == 0:
                break
            j += 1
        if j is None or j >= len(toks):
            continue
        d = 0
        k = j
        while k < len(toks):
            if toks[k][2] == '{':
                d += 1
            elif toks[k][2] == '}':
                d -= 1
                if d == 0:
                    break
            k += 1
        out.append((i, min(k, len(toks) - 1), j))
    return out


def param_names(toks, fn_idx):
    """[(name, type tokens)] of the parameters of the fn item at token fn_idx (self parameters skipped)"""
    j = fn_idx + 1
    while j < len(toks) and toks[j][2] != '(':
        if toks[j][2] in '{;':
            return []
        j += 1
    depth = 0
    cur = []
    params = []
    k = j
    while k < len(toks):
        t = toks[k][2]
        if t in '([<':
            depth += 1
            if depth > 1:
                cur.append(t)
        elif t in ')]>' and not (t == '>' and k > 0 and toks[k - 1][2] == '-'):
            depth -= 1
            if depth == 0:
                if cur:
                    params.append(cur)
                break
            cur.append(t)
        elif t == ',' and depth == 1:
            params.append(cur)
            cur = []
        else:
            cur.append(t)
        k += 1
    out = []
    for p_ in params:
        if ':' not in p_:
            continue
        c = p_.index(':')
        nm = [x for x in p_[:c] if x not in ('mut', '&', 'ref')]
        if len(nm) == 1 and IDENT_RE.match(nm[0]) and nm[0] != 'self':
            out.append((nm[0], tuple(p_[c + 1:])))
    return out


def local_renames(btoks, ctoks, M):
    """Consistent 1:1 renamings of local identifiers inside one function: {(b fn range): {old: new}}.
    A candidate is a single unmatched identifier token whose two neighbours are matched to the two neighbours of a single
    unmatched identifier token of the current text.  It counts when, inside that function, every such pair agrees, the old
    name no longer occurs in the current function and the new name did not occur in the old one (no capture)."""
    res = {}
    ranges = fn_ranges(btoks)
    if not ranges:
        return res
    cand = {}
    for k in range(1, len(btoks) - 1):
        if M[k] is not None or M[k - 1] is None or M[k + 1] is None:
            continue
        if M[k + 1] - M[k - 1] != 2:
            continue
        o, n = btoks[k][2], ctoks[M[k - 1] + 1][2]
        if not (IDENT_RE.match(o) and IDENT_RE.match(n)) or o in KEYWORDS or n in KEYWORDS or o == n:
            continue
        if btoks[k - 1][2] in ('.', '::') or btoks[k + 1][2] == '::':
            continue
        encl = [r for r in ranges if r[0] <= k <= r[1]]
        if not encl:
            continue
        r = max(encl, key=lambda r: r[1] - r[0])    # the outermost fn item (closures and nested fns share its locals' names)
        cand.setdefault(r[:2], []).append((k, o, n))
    for r, lst in cand.items():
        mp = {}
        bad = set()
        for k, o, n in lst:
            if mp.setdefault(o, n) != n:
                bad.add(o)
        c_lo = next((M[x] for x in range(r[0], r[1] + 1) if M[x] is not None), None)
        c_hi = next((M[x] for x in range(r[1], r[0] - 1, -1) if M[x] is not None), None)
        if c_lo is None or c_hi is None:
            continue
        # occurrences as a variable (not `.field`, not `path::segment`)
        def var_words(toks, lo, hi):
            return [toks[x][2] for x in range(lo, hi + 1) if not (x > 0 and toks[x - 1][2] in ('.', '::'))]
        cwords = set(var_words(ctoks, c_lo, c_hi))
        bl_ = var_words(btoks, r[0], r[1])
        bwords = set(bl_)
        ok = {}
        for o, n in mp.items():
            if o in bad or o in cwords or n in bwords:
                continue

            if len(set(mp.values())) != len(mp):
                continue
            ok[o] = n
        if ok:
            res[r] = ok
            for k, o, n in lst:
                if o in ok:
                    M[k] = M[k - 1] + 1
    return res


def param_renames(btoks, ctoks, M):
    """{(b fn idx, b body-open idx): {old param: new param}} for functions whose parameter list kept its types and arity"""
    res = {}
    for r in fn_ranges(btoks):
        if M[r[0]] is None:
            continue
        bp = param_names(btoks, r[0])
        cp = param_names(ctoks, M[r[0]])
        if len(bp) != len(cp) or not bp:
            continue
        if any(a[1] != b[1] for a, b in zip(bp, cp)):
            continue
        mp = {a[0]: b[0] for a, b in zip(bp, cp) if a[0] != b[0]}
        if mp:
            res[(r[0], r[2], r[1])] = mp
    return res


def apply_renames(text, mp):
    """simultaneous whole-word renaming (a swap of two names stays a swap); not a `.field`, a `path::segment`, or a
    struct-literal field label `name: value`"""
    if not mp:
        return text
    alt = '|'.join(re.escape(o) for o in sorted(mp, key=len, reverse=True))
    return re.sub(r'(?<![A-Za-z0-9_.])(?<!::)(' + alt + r')(?![A-Za-z0-9_])(?!\s*::)(?!\s*:(?!:))', lambda m: mp[m.group(1)], text)


def lost_functions(b_text, btoks, lost):
    """names of the functions (in the sidecar's base text) that contained a lost insertion"""
    names = []
    for k, _ in lost:
        off = btoks[min(k, len(btoks) - 1)][0] if btoks else 0
        fns = list(re.finditer(r'\bfn\s+([A-Za-z0-9_]+)', b_text[:off]))
        names.append(fns[-1].group(1) if fns else '?')
    return sorted(set(names))


def merge(a_text, c_text, modname):
    """insert the ghost regions of the annotated copy into the current rewritten text"""
    b_text, ins = split_sidecar(a_text)
    btoks = tokenize(b_text)
    ctoks = tokenize(c_text)
    same = [t[2] for t in btoks] == [t[2] for t in ctoks]
    if same:
        M = list(range(len(btoks)))
    else:
        M = token_map(btoks, b_text, ctoks, c_text)
    renames = {} if same else local_renames(btoks, ctoks, M)
    ren_by_char = [((btoks[r[0]][0], btoks[r[1]][1]), mp) for r, mp in renames.items()]
    prenames = {} if same else param_renames(btoks, ctoks, M)
    # a renamed parameter: the contract in the signature follows the parameter; inside the body the local renaming (if
    # any) wins, else the parameter renaming applies there too
    pren_sig = [((btoks[r[0]][0], btoks[r[1]][0]), mp) for r, mp in prenames.items()]
    pren_body = [((btoks[r[1]][0], btoks[r[2]][1]), mp) for r, mp in prenames.items()]
    ends = [e for _, e, _ in btoks]
    import bisect
    placed = {}   # c token index (insert before) -> [(offset within the trivia, text)]
    displaced = 0
    lost = []

    def trivia(toks, text, j):
        lo = toks[j - 1][1] if j > 0 else 0
        hi = toks[j][0] if j < len(toks) else len(text)
        return text[lo:hi]
    for off, text in ins:
        in_sig = False
        for (lo_, hi_), mp_ in pren_sig:
            if lo_ <= off <= hi_:
                text = apply_renames(text, mp_)
                in_sig = True
        if not in_sig:
            done = set()
            for (lo_, hi_), mp_ in ren_by_char:
                if lo_ <= off <= hi_:
                    text = apply_renames(text, mp_)
                    done.update(mp_)
            for (lo_, hi_), mp_ in pren_body:
                if lo_ <= off <= hi_:
                    text = apply_renames(text, {o: n for o, n in mp_.items() if o not in done})
        k = bisect.bisect_right(ends, off)       # number of B tokens that end at or before off
        rel = off - (ends[k - 1] if k > 0 else 0)
        j = None
        prev_ok = k > 0 and M[k - 1] is not None
        next_ok = k < len(btoks) and M[k] is not None
        # text that only makes sense glued to its neighbour: `(r:` / `)` around a return type, `it:` after `in`,
        # `: T` on a closure parameter, a contract clause in front of the body brace
        glued_prev = text.strip().startswith((')', ':', ',')) or text.strip() in ('it:', 'it0:', 'it2:', 'it3:')
        glued_next = text.strip().endswith(('(r:', '{', 'let r =', 'match')) or text.lstrip().startswith(('invariant', 'requires', 'ensures', 'decreases'))
        if (not prev_ok and not next_ok) or (glued_prev and not prev_ok) or (glued_next and not next_ok):
            lost.append((k, text.strip()[:60]))
            continue
        if prev_ok and next_ok and M[k] != M[k - 1] + 1:
            # code was inserted between the two anchors: keep statement-level ghost text next to the code that FOLLOWS it
            # when it ends a line in the sidecar, else next to the code that precedes it
            j = M[k - 1] + 1 if not text.endswith('\n') else M[k]
            displaced += 1
        elif prev_ok:
            j = M[k - 1] + 1
        else:
            j = M[k]
            displaced += 1
        # keep the position inside the whitespace/comments only when that text is unchanged
        if trivia(btoks, b_text, k) != trivia(ctoks, c_text, j):
            rel = 0
        placed.setdefault(j, []).append((rel, text))
    out = []
    pos = 0
    for j in range(len(ctoks) + 1):
        if j in placed:
            base = ctoks[j - 1][1] if j > 0 else 0
            for rel, t in placed[j]:
                cut = base + rel
                out.append(c_text[pos:cut])
                pos = cut
                tail = t.rsplit('\n', 1)[-1]
                if '//' in tail:
                    t = t + '\n'
                out.append(GOPEN + t + GCLOSE)
    out.append(c_text[pos:])
    return ''.join(out), {'insertions': len(ins), 'displaced': displaced, 'base_matches_current': same, 'lost': lost,
                          'renamed_locals': sorted('%s->%s' % (o, n) for mp in renames.values() for o, n in mp.items()),
                          'renamed_params': sorted('%s->%s' % (o, n) for mp in prenames.values() for o, n in mp.items()),
                          'lost_in': lost_functions(b_text, btoks, lost)}


def strip_generated(text):
    """remove inserted regions and AUTO placeholders from generated text"""
    text = re.sub(re.escape(GOPEN) + r'.*?' + re.escape(GCLOSE), '', text, flags=re.S)
    text = re.sub(r'/\*@AUTO:[A-Za-z_:0-9]*\*/', '', text)
    text = re.sub(r'/\*@A:[A-Za-z_:0-9?]*\*/', '', text)
    return text


def add_auto(text, registries):
    """generator-made ghost members: registry spec functions and default relations"""
    regs = dict(registries)

    def rep(m):
        return GOPEN + iana_spec_text(m.group(1), regs[m.group(1)]) + GCLOSE
    text = re.sub(r'/\*@AUTO:iana_spec:([A-Za-z0-9_]+)\*/', rep, text)
    text = re.sub(r'/\*@AUTO:eta:([A-Za-z0-9_:]+)\*/', lambda m: GOPEN + '-> (r__: _) ensures equal(r__, %s(x__))' % m.group(1) + GCLOSE, text)

    def rep2(m):
        kind, b, t, n = m.group(1), m.group(2), m.group(3), m.group(4)
        if kind == 'ro':
            return GOPEN + ' (r:' + GCLOSE
        if kind == 'inner':
            fns = ''
            for k2, n2, ty2 in AUTO_SETTERS.get(b, []):
                val = {'set': n2, 'opt': 'Some(%s)' % n2, 'prot': 'crate::ProtectedHeader { original_data: None, header: %s }' % n2}[k2]
                fns += '\n    pub closed spec fn after_%s(self, %s: %s) -> %s { %s { %s: %s, ..self.0 } }' % (n2, n2, ty2, t, t, n2, val)
            return GOPEN + '\nimpl %s { pub closed spec fn inner(self) -> %s { self.0 }%s }' % (b, t, fns) + GCLOSE
        if kind == 'new':
            body = 'r.inner().is_default()'
        elif kind == 'build':
            body = 'r == self.inner()'
        elif kind == 'set':
            body = 'r.inner() == (%s { %s: %s, ..self.inner() })' % (t, n, n)
        elif kind == 'opt':
            body = 'r.inner() == (%s { %s: Some(%s), ..self.inner() })' % (t, n, n)
        elif kind in ('cset', 'copt'):
            body = 'r.inner() == self.after_%s(%s)' % (n, n)
        elif kind == 'cprot':
            body = 'r.inner() == self.after_%s(hdr)' % n
        elif kind == 'prot':
            body = 'r.inner() == (%s { %s: crate::ProtectedHeader { original_data: None, header: hdr }, ..self.inner() })' % (t, n)
        else:
            raise ExtractError('unknown auto contract ' + kind)
        return GOPEN + ')\n            ensures ' + body + GCLOSE
    text = re.sub(r'/\*@A:(ro)\*/', lambda m: GOPEN + ' (r:' + GCLOSE, text)
    text = re.sub(r'/\*@A:([a-z]+):([A-Za-z0-9_?]+):([A-Za-z0-9_?]+):([A-Za-z0-9_]+)\*/', rep2, text)
    parts = re.split(r'(impl(?:<[^>]*>)? AsCborValue for [^{]+\{)', text)
    out = [parts[0]]
    for k in range(1, len(parts), 2):
        hdr = parts[k]
        body = parts[k + 1]
        e = match_brace(hdr[-1] + body, 0)
        seg = body[:e]
        add = ''
        if 'spec fn dec_rel' not in seg:
            add += '\n    open spec fn dec_rel(value: Value, r: crate::Result<Self>) -> bool { true }'
        if 'spec fn enc_rel' not in seg:
            add += '\n    open spec fn enc_rel(self, r: crate::Result<Value>) -> bool { true }'
        out.append(hdr + (GOPEN + add + GCLOSE if add else '') + body)
    return ''.join(out)



# --------------------------------------------------------------------------
# necessity copies (DESIGN.md 2.3): a mechanical copy of a function with ONE documented precondition removed
# (and its ensures dropped) must FAIL verification at the documented panic.  If an edit deletes the guard,
# the copy verifies and the refusal clause of the property is reported violated.
NECESSITY = [
    # (module, inherent impl type, fn name, requires-conjunct to drop (exact text), id)
    ('mac', 'CoseMac', 'tbm', 'self.payload is Some', 'payload'),
    ('mac', 'CoseMac0', 'tbm', 'self.payload is Some', 'payload'),
    ('encrypt', 'CoseRecipient', 'decrypt', 'self.ciphertext is Some', 'ciphertext'),
    ('encrypt', 'CoseRecipient', 'decrypt', 'is_recipient_ctx(context)', 'context'),
    ('encrypt', 'CoseEncrypt', 'decrypt', 'self.ciphertext is Some', 'ciphertext'),
    ('encrypt', 'CoseEncrypt0', 'decrypt', 'self.ciphertext is Some', 'ciphertext'),
    ('encrypt', 'CoseRecipientBuilder', 'aad', 'is_recipient_ctx(context)', 'context'),
    ('sign', 'CoseSign1', 'tbs_detached_data', 'self.payload is None', 'payload'),
    ('sign', 'CoseSign', 'tbs_detached_data', 'self.payload is None', 'payload'),
    ('sign', 'CoseSign', 'verify_signature', 'which < self.signatures@.len()', 'index'),
    ('sign', 'CoseSign', 'verify_detached_signature', 'which < self.signatures@.len()', 'index'),
    ('header', 'HeaderBuilder', 'value', '!(1 <= label <= 7)', 'reserved'),
    ('key', 'CoseKeyBuilder', 'param', '!(0 <= label <= 5)', 'reserved'),
    ('cwt', 'ClaimsSetBuilder', 'claim', '!(1 <= name.spec_to_i64() <= 7)', 'reserved'),
    ('cwt', 'ClaimsSetBuilder', 'private_claim', 'id < -65536', 'private'),
    # the callers that document the same panic themselves
    ('mac', 'CoseMac', 'verify_tag', 'self.payload is Some', 'payload'),
    ('mac', 'CoseMac0', 'verify_tag', 'self.payload is Some', 'payload'),
    ('mac', 'CoseMacBuilder', 'create_tag', 'self.inner().payload is Some', 'payload'),
    ('mac', 'CoseMacBuilder', 'try_create_tag', 'self.inner().payload is Some', 'payload'),
    ('mac', 'CoseMac0Builder', 'create_tag', 'self.inner().payload is Some', 'payload'),
    ('mac', 'CoseMac0Builder', 'try_create_tag', 'self.inner().payload is Some', 'payload'),
    ('encrypt', 'CoseRecipientBuilder', 'create_ciphertext', 'is_recipient_ctx(context)', 'context'),
    ('encrypt', 'CoseRecipientBuilder', 'try_create_ciphertext', 'is_recipient_ctx(context)', 'context'),
    ('sign', 'CoseSign', 'verify_detached_signature', 'self.payload is None', 'payload'),
    ('sign', 'CoseSign1', 'verify_detached_signature', 'self.payload is None', 'payload'),
    ('sign', 'CoseSignBuilder', 'add_detached_signature', 'self.inner().payload is None', 'payload'),
    ('sign', 'CoseSignBuilder', 'try_add_detached_signature', 'self.inner().payload is None', 'payload'),
    ('sign', 'CoseSign1Builder', 'create_detached_signature', 'self.inner().payload is None', 'payload'),
    ('sign', 'CoseSign1Builder', 'try_create_detached_signature', 'self.inner().payload is None', 'payload'),
]


def necessity_copies(m, text, skip=()):
    """append the must-fail copies for module m (text = generated module text incl. inserted regions)"""
    out = text
    made = []
    for mod, ty, fn, drop, nid in NECESSITY:
        if mod != m or fn in skip:
            continue
        # all inherent impl blocks of ty
        found = None
        for im in re.finditer(r'\bimpl %s \{' % re.escape(ty), out):
            b = im.end() - 1
            e = match_brace(out, b)
            fm = re.search(r'(?:pub(?:\([a-z]+\))? )?fn %s\b' % re.escape(fn), out[b:e])
            if fm:
                found = (b + fm.start(), e)
                break
        if not found:
            raise ExtractError('necessity target %s::%s::%s not found' % (mod, ty, fn))
        start, impl_end = found
        # body start: first '{' after start that is outside inserted regions
        i = start
        depth_ins = 0
        body = None
        while i < impl_end:
            if out.startswith(GOPEN, i):
                j = out.index(GCLOSE, i)
                i = j + len(GCLOSE)
                continue
            if out[i] == '{':
                body = i
                break
            i += 1
        if body is None:
            raise ExtractError('necessity target body not found: ' + fn)
        end = match_brace(out, body)
        sig = out[start:body]
        if drop not in sig:
            raise ExtractError('necessity conjunct %r not in the contract of %s::%s' % (drop, ty, fn))
        sig2 = sig.replace(drop, 'true', 1)
        # drop the ensures clause(s): everything from 'ensures' to the end of that inserted region
        sig2 = re.sub(r'\bensures\b.*?(?=' + re.escape(GCLOSE) + ')', '', sig2, flags=re.S)
        sig2 = re.sub(r'fn %s\b' % re.escape(fn), 'fn %s__nec_%s' % (fn, nid), sig2, count=1)
        copy = '\n    #[allow(dead_code)] ' + sig2 + out[body:end + 1] + '\n'
        # refusal copy: the same body under the NEGATED conjunct with `ensures false`.  It must fail, and fail only at the
        # documented panic: a "postcondition not satisfied" there means some call outside the precondition returns normally.
        sig3 = sig.replace(drop, '!(' + drop + ')', 1)
        sig3 = re.sub(r'\bensures\b.*?(?=' + re.escape(GCLOSE) + ')', 'ensures false, ', sig3, count=1, flags=re.S)
        sig3 = re.sub(r'fn %s\b' % re.escape(fn), 'fn %s__ref_%s' % (fn, nid), sig3, count=1)
        if 'ensures false' not in sig3:
            # a contract without ensures (e.g. only requires): add one in front of the body
            sig3 = sig3.rstrip()
            if sig3.endswith(GCLOSE):
                sig3 = sig3[:-len(GCLOSE)] + ' ensures false, ' + GCLOSE
            else:
                sig3 = sig3 + ' ensures false, '
        copy3 = '\n    #[allow(dead_code)] ' + sig3 + out[body:end + 1] + '\n'
        out = out[:end + 1] + GOPEN + copy.replace(GOPEN, '').replace(GCLOSE, '') + copy3.replace(GOPEN, '').replace(GCLOSE, '') + GCLOSE + out[end + 1:]
        made.append('%s::%s::%s__nec_%s' % (mod, ty, fn, nid))
        made.append('%s::%s::%s__ref_%s' % (mod, ty, fn, nid))
    return out, made

def fn_occurrences(g, name):
    """offsets of `fn name` OUTSIDE inserted regions (i.e. real functions of the module), in order"""
    occ = []
    i = 0
    pat = re.compile(r'\bfn\s+%s\b' % re.escape(name))
    while i < len(g):
        if g.startswith(GOPEN, i):
            i = g.index(GCLOSE, i) + len(GCLOSE)
            continue
        m = pat.match(g, i)
        if m and (i == 0 or not (g[i - 1].isalnum() or g[i - 1] == '_')):
            occ.append(i)
            i = m.end()
            continue
        i += 1
    return occ


def degrade_fn(g, name, ordinal, level=1):
    """Give up on the BODY of one real function for this run: its body ghost text is dropped and the function is marked
    external_body, so that Verus neither type-checks nor verifies the body; its contract (signature insertions) stays and
    is ASSUMED for this run.  Used when the current body cannot be processed (ghost text naming a local that no longer
    exists, a std function without specification, ...).  -> new text, or None if the function is not found."""
    if name.startswith('const:'):
        cm = re.search(r'^(\s*)((?:pub(?:\([a-z]+\))? )?const\s+%s\s*:)' % re.escape(name[6:]), g, flags=re.M)
        if not cm or '/*degraded*/' in g[max(0, cm.start() - 80):cm.start(2)]:
            return None
        return g[:cm.start(2)] + GOPEN + '#[verifier::external_body] /*degraded*/ ' + GCLOSE + g[cm.start(2):]
    occ = fn_occurrences(g, name)
    if ordinal >= len(occ):
        return None
    start = occ[ordinal]
    i = start
    depth = 0
    body = None
    while i < len(g):
        if g.startswith(GOPEN, i):
            i = g.index(GCLOSE, i) + len(GCLOSE)
            continue
        ch = g[i]
        if ch in '([':
            depth += 1
        elif ch in ')]':
            depth -= 1
        elif ch == ';' and depth == 0:
            return None
        elif ch == '{' and depth == 0:
            body = i
            break
        i += 1
    if body is None:
        return None
    end = match_brace(g, body)
    inner = re.sub(re.escape(GOPEN) + r'.*?' + re.escape(GCLOSE), '', g[body:end + 1], flags=re.S)
    # the attribute goes in front of the item (before `pub`, other attributes stay where they are)
    ls = g.rfind('\n', 0, start) + 1
    gc = g.rfind(GCLOSE, 0, start)
    if gc >= 0 and gc + len(GCLOSE) > ls:
        ls = gc + len(GCLOSE)          # never inside an inserted region (an attribute inserted on the previous line)
    qm = re.search(r'(?:pub(?:\([a-z]+\))?\s+)?(?:const\s+)?(?:unsafe\s+)?$', g[ls:start])
    if qm:
        ls = ls + qm.start()
    sig = g[ls:body]
    if level >= 2:
        # level 2: the contract itself no longer fits the signature (a renamed parameter): drop it too.  The function then
        # has NO contract for this run (a trait method keeps the trait's); callers that need one fail and are reported undecided.
        sig = re.sub(re.escape(GOPEN) + r'.*?' + re.escape(GCLOSE), '', sig, flags=re.S)
    return g[:ls] + GOPEN + '#[verifier::external_body] /*degraded*/ ' + GCLOSE + sig + inner + g[end + 1:]


HEADER = '''#![allow(unused_imports, dead_code, unused_macros, unreachable_patterns, unused_variables, unused_mut, non_camel_case_types, unused_parens, unused_braces, unused_attributes)]
#![cfg_attr(verus_keep_ghost, verifier::allow(autoderive_clone_without_spec))]
extern crate alloc;
use vstd::prelude::*;
pub use ciborium as cbor;
'''


def sha(s):
    return hashlib.sha256(s.encode()).hexdigest()


def generate(repo=REPO, contracts_dir=None, with_contracts=True, degrade=()):
    """-> (generated text, info dict).  degrade: [(module, fn name, ordinal)] functions whose body is given up (degrade_fn)"""
    contracts_dir = contracts_dir or os.path.join(VERIF, 'contracts')
    info = {'inputs': {}, 'rewrites': {}, 'merge': {}, 'registries': {}}
    util_src = open(os.path.join(repo, 'src/util/mod.rs')).read()
    registries = []
    out = [HEADER]
    prelude = open(os.path.join(contracts_dir, 'prelude.rs')).read()
    out.append(prelude)
    info['inputs']['contracts/prelude.rs'] = sha(prelude)
    plain = {}
    ALL_SRC['text'] = '\n'.join(open(os.path.join(repo, 'src', m_, 'mod.rs')).read() for m_ in MODS)
    for m in MODS:
        path = os.path.join(repo, 'src', m, 'mod.rs')
        src = open(path).read()
        info['inputs']['src/%s/mod.rs' % m] = sha(src)
        counts = {k: 0 for k in ['R1', 'R2', 'R3', 'R4', 'R5', 'R6', 'R7', 'R8', 'R9', 'R10', 'R11', 'R12', 'R13']}
        c = rewrite(m, src, util_src, registries, counts)
        info['rewrites'][m] = counts
        plain[m] = c
        side = os.path.join(contracts_dir, m + '.rs')
        if with_contracts and os.path.exists(side):
            a = open(side).read()
            info['inputs']['contracts/%s.rs' % m] = sha(a)
            g, mi = merge(a, c, m)
            info['merge'][m] = mi
            info.setdefault('base_fns', {})[m] = sorted(set(re.findall(r'\bfn\s+([A-Za-z0-9_]+)', split_sidecar(a)[0])))
            info.setdefault('base_text', {})[m] = split_sidecar(a)[0]
        else:
            g = c
        g = add_auto(g, registries)
        # functions the proofs TRUST (external_body in the sidecar / by rewrite): the trust is in the body that was reviewed;
        # if the current body differs from the sidecar's base text the function is reported as changed
        if with_contracts and os.path.exists(side):
            base_plain = split_sidecar(open(side).read())[0]
            for tm in re.finditer(r'#\[verifier::external_body\](?! /\*degraded\*/)\s*(?:' + re.escape(GCLOSE) + r')?(?:\s|///[^\n]*\n|#\[[^\]]*\])*((?:pub(?:\([a-z]+\))? )?fn\s+([A-Za-z0-9_]+))', g):
                nm = tm.group(2)
                def body_of(txt, name, plain_txt):
                    outb = []
                    for fm in re.finditer(r'\bfn\s+%s\b' % re.escape(name), plain_txt):
                        b = plain_txt.find('{', fm.end())
                        sc = plain_txt.find(';', fm.end())
                        if b < 0 or (0 <= sc < b):
                            continue
                        try:
                            e = match_brace(plain_txt, b)
                        except Exception:
                            continue
                        outb.append(re.sub(r'\s+', '', re.sub(r'//[^\n]*', '', plain_txt[fm.start():e + 1])))
                    return sorted(outb)
                cur_b = body_of(g, nm, strip_generated(g).replace('#[verifier::external_body]', ''))
                base_b = body_of(base_plain, nm, base_plain.replace('#[verifier::external_body]', ''))
                if cur_b != base_b:
                    info.setdefault('trusted_changed', []).append('%s::%s' % (m, nm))
        for dg in sorted(degrade, key=lambda x: (x[0], x[1], -x[2])):
            dm, dn, do = dg[:3]
            lvl = dg[3] if len(dg) > 3 else 1
            if dm == m:
                g2 = degrade_fn(g, dn, do, lvl)
                if g2 is not None:
                    g = g2
                    info.setdefault('degraded', []).append('%s::%s#%d%s' % (dm, dn, do, '(no contract)' if lvl >= 2 else ''))
        if with_contracts:
            g, made = necessity_copies(m, g, skip=set(dg[1] for dg in degrade if dg[0] == m))
            info.setdefault('necessity', []).extend(made)
        if strip_generated(g) != strip_generated(c):
            raise ExtractError('self-check failed: stripping the insertions from module %s does not give back the rewritten source' % m)
        vis = {'util': 'pub(crate) mod', 'cwt': 'pub mod', 'iana': 'pub mod'}.get(m, 'mod')
        out.append('%s %s {\nuse vstd::prelude::*;\nverus! {\n%s\n} // verus!\n}\n' % (vis, m, g))
        if m not in ('util', 'cwt', 'iana'):
            out.append('pub use %s::*;\n' % m)
    for extra in sorted(os.listdir(contracts_dir)):
        if extra.startswith('x_') and extra.endswith('.rs'):
            t = open(os.path.join(contracts_dir, extra)).read()
            info['inputs']['contracts/' + extra] = sha(t)
            out.append(t)
    out.append('fn main(){}\n')
    info['registries'] = {n: [(a, eval_int(b)) for a, b in e] for n, e in registries}
    text = ''.join(out)
    info['generated_sha256'] = sha(text)
    info['plain'] = plain
    return text, info


if __name__ == '__main__':
    import argparse
    ap = argparse.ArgumentParser()
    ap.add_argument('--out', default=os.path.join(VERIF, 'build/gen/coset_verus.rs'))
    ap.add_argument('--plain', action='store_true', help='no contracts: rewritten source only')
    ap.add_argument('--dump-plain', help='directory to write the rewritten modules to (to start a sidecar)')
    ap.add_argument('--resync', action='store_true', help='rewrite every sidecar as the annotated copy of the CURRENT rewritten source')
    a = ap.parse_args()
    if a.resync:
        util_src = open(os.path.join(REPO, 'src/util/mod.rs')).read()
        regs = []
        for m in MODS:
            counts = {k: 0 for k in ['R1', 'R2', 'R3', 'R4', 'R5', 'R6', 'R7', 'R8', 'R9', 'R10', 'R11', 'R12', 'R13']}
            c = rewrite(m, open(os.path.join(REPO, 'src', m, 'mod.rs')).read(), util_src, regs, counts)
            side = os.path.join(VERIF, 'contracts', m + '.rs')
            g, mi = merge(open(side).read(), c, m)
            g = re.sub(r'/\*@AUTO:[A-Za-z_:0-9]*\*/', '', g)
            g = re.sub(r'/\*@A:[A-Za-z_:0-9?]*\*/', '', g)
            open(side, 'w').write(g.replace(GOPEN, OPEN).replace(GCLOSE, CLOSE))
            print(m, mi)
        sys.exit(0)
    text, info = generate(with_contracts=not a.plain)
    os.makedirs(os.path.dirname(a.out), exist_ok=True)
    open(a.out, 'w').write(text)
    if a.dump_plain:
        os.makedirs(a.dump_plain, exist_ok=True)
        for m, c in info['plain'].items():
            open(os.path.join(a.dump_plain, m + '.rs'), 'w').write(c)
    del info['plain']
    print(json.dumps({k: info[k] for k in ('rewrites', 'merge', 'generated_sha256')}, indent=1))
