#[cfg(kani)]
mod proofs {
    use coset::{Label, iana, iana::EnumI64};
    use core::cmp::Ordering;
    fn head(major: u8, v: u64) -> ([u8; 9], usize) {
        let m = major << 5;
        let b = v.to_be_bytes();
        if v < 24 { ([m | v as u8,0,0,0,0,0,0,0,0], 1) }
        else if v < 0x100 { ([m|24, b[7],0,0,0,0,0,0,0], 2) }
        else if v < 0x10000 { ([m|25, b[6],b[7],0,0,0,0,0,0], 3) }
        else if v < 0x1_0000_0000 { ([m|26, b[4],b[5],b[6],b[7],0,0,0,0], 5) }
        else { ([m|27, b[0],b[1],b[2],b[3],b[4],b[5],b[6],b[7]], 9) }
    }
    fn enc(i: i64) -> ([u8; 9], usize) {
        if i >= 0 { head(0, i as u64) } else { head(1, (-1 - i) as u64) }
    }
    fn lex(a: &([u8;9], usize), b: &([u8;9], usize)) -> Ordering {
        let mut k = 0;
        while k < 9 {
            if k >= a.1 || k >= b.1 { break; }
            if a.0[k] != b.0[k] { return a.0[k].cmp(&b.0[k]); }
            k += 1;
        }
        a.1.cmp(&b.1)
    }
    #[kani::proof]
    #[kani::unwind(11)]
    fn label_int_order() {
        let a: i64 = kani::any();
        let b: i64 = kani::any();
        let got = Label::Int(a).cmp(&Label::Int(b));
        assert!(got == lex(&enc(a), &enc(b)));
    }
    #[kani::proof]
    fn alg_roundtrip() {
        let i: i64 = kani::any();
        if let Some(a) = iana::Algorithm::from_i64(i) { assert!(a.to_i64() == i); }
        assert!(iana::Algorithm::from_i64(-7) == Some(iana::Algorithm::ES256));
    }
}
#[cfg(kani)]
mod bad {
    use coset::Label;
    #[kani::proof]
    fn wrong_claim() {
        let a: i64 = kani::any();
        let b: i64 = kani::any();
        // deliberately false: numeric order
        assert!(Label::Int(a).cmp(&Label::Int(b)) == a.cmp(&b));
    }
}
