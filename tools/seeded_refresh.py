#!/usr/bin/env python3
"""Refresh /verif/seeded/<id>/meta.json and seeded/README.md from the eval.json files that tools/seeded_eval.py wrote.
usage: seeded_refresh.py <dir holding <id>/eval.json of the latest run> [<dir of an earlier (first) run>]
(<id> may be stored without the r2- prefix)"""
import json, os, re, sys
VERIF = os.path.dirname(os.path.dirname(os.path.abspath(__file__)))
latest = sys.argv[1]
first = sys.argv[2] if len(sys.argv) > 2 else None


def load(src, name):
    for n in (name, name[3:] if name.startswith(('r2-', 'r3-', 'r4-', 'r5-', 'r6-', 'r7-', 'r8-', 'r9-', 'r10')) else name):
        p = os.path.join(src, n, 'eval.json')
        if os.path.exists(p):
            return json.load(open(p))
    return None


def verdict(e, pid):
    c = e['checks'][pid]
    failed = [re.search(r'obligation=(\S+)', l).group(1) for l in c['lines'] if l.startswith('FAILED-OBLIGATION')]
    vio = [l for l in c['lines'] if l.startswith('VIOLATION')]
    if failed:
        by = 'verus/kani obligation' + (' (no failing input found)' if vio and vio[0].endswith('no-failing-input-found') else ' + failing input replayed on the real crate')
    elif vio and 'measure' in vio[0]:
        by = 'bounded measurement on the real crate'
    elif vio and 'probe' in vio[0]:
        by = 'probe (failing input found after the verifier could not decide the changed tree)'
    elif c['rc'] == 2:
        by = 'NOT caught: undecided'
    elif c['rc'] == 0:
        by = 'NOT caught: check passed'
    else:
        by = 'exit %d' % c['rc']
    return {'exit': c['rc'], 'failed_obligations': failed, 'lines': c['lines'][:8], 'caught_by': by}


rows = []
for name in sorted(os.listdir(os.path.join(VERIF, 'seeded'))):
    d = os.path.join(VERIF, 'seeded', name)
    if not os.path.isdir(d) or not os.path.exists(os.path.join(d, 'meta.json')):
        continue
    meta = json.load(open(os.path.join(d, 'meta.json')))
    pid = meta['property']
    e = load(latest, name)
    if e is not None:
        meta['confirmed_by_me'] = {'scratch_worktree': '/tmp/wt-eval (removed)', 'tests_with_patch': e['tests'], 'demo_exit_unchanged': e['demo_unchanged_rc'],
                                   'demo_exit_with_patch': e['demo_changed_rc'],
                                   'ran': 'tools/seeded_eval.py: git worktree add; cargo test --offline with the patch; demo built against the worktree with and without the patch; then git -C /repo apply, python3 tools/check.py %s, git -C /repo checkout -- .' % pid}
        meta['check_result'] = verdict(e, pid)
    if first:
        e1 = load(first, name)
        if e1 is not None:
            meta['check_result_first_run'] = verdict(e1, pid)
    json.dump(meta, open(os.path.join(d, 'meta.json'), 'w'), indent=1)
    cr = meta.get('check_result', {})
    fr = meta.get('check_result_first_run', {})
    rows.append((name, pid, meta.get('summary', ''), meta.get('needs', ''), cr.get('exit'), cr.get('caught_by', ''), ', '.join(cr.get('failed_obligations', [])[:3]), fr.get('caught_by', '')))

out = ['# Seeded property-breaking changes', '',
       'Written by independent sub-agents that were given only the text of a property and a scratch git worktree of /repo (nothing from /verif).',
       'Each change compiles and keeps the 117 unit tests + doctest green; each `demo.rs` exits 0 on the unchanged crate and non-zero with the patch.',
       'I re-confirmed all of that in a scratch worktree (`tools/seeded_eval.py`), then applied each patch to /repo, ran the property\'s check and undid the patch.',
       '`C01-1 … C20-6` are round 1 (used while building the machinery); `r2-*` are round 2 and `r3-*` round 3 (written after it existed; "first run" is the result before the repairs that run prompted).', '']
for title, sel in (('Round 1', lambda n: not n.startswith(('r2-', 'r3-', 'r4-', 'r5-', 'r6-', 'r7-', 'r8-', 'r9-', 'r10'))), ('Round 2', lambda n: n.startswith('r2-')), ('Round 3', lambda n: n.startswith('r3-')), ('Round 4', lambda n: n.startswith('r4-')), ('Round 5', lambda n: n.startswith('r5-')), ('Round 6', lambda n: n.startswith('r6-')), ('Round 7', lambda n: n.startswith('r7-')), ('Round 8', lambda n: n.startswith('r8-')), ('Round 9', lambda n: n.startswith('r9-')), ('Round 10', lambda n: n.startswith('r10-'))):
    rs = [r for r in rows if sel(r[0])]
    if not rs:
        continue
    caught = sum(1 for r in rs if r[4] == 1)
    out += ['## %s: %d of %d reported (exit 1)' % (title, caught, len(rs)), '',
            '| id | property | change | needs | check exit | caught by | failed obligations | first run |', '|---|---|---|---|---|---|---|---|']
    for r in rs:
        out.append('| %s | %s | %s | %s | %s | %s | %s | %s |' % (r[0], r[1], r[2].replace('|', '/'), r[3][:200].replace('|', '/'), r[4], r[5], r[6], r[7]))
    out.append('')
out += ['Reading the table: "verus/kani obligation" means a contracted function, lemma or harness that is discharged on the unchanged tree failed on the changed tree; where the probes',
        'of that property also found a concrete failing input it is attached to the replay file, else the VIOLATION line ends with no-failing-input-found.',
        '"probe" means the changed code left the reach of the verifier (a hand-rolled encoder using `to_be_bytes`, a closure or helper the contracts do not annotate, ...), the verifier answered UNDECIDED,',
        'and the replay probes then found a concrete failing input on the real crate, which is reported as the violation with that input. Without a failing input such a tree stays UNDECIDED (exit 2), never an alarm.', '']
open(os.path.join(VERIF, 'seeded', 'README.md'), 'w').write('\n'.join(out))
print(len(rows), 'rows')
