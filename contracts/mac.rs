// Copyright 2021 Google LLC
//
// Licensed under the Apache License, Version 2.0 (the "License");
// you may not use this file except in compliance with the License.
// You may obtain a copy of the License at
//
//      http://www.apache.org/licenses/LICENSE-2.0
//
// Unless required by applicable law or agreed to in writing, software
// distributed under the License is distributed on an "AS IS" BASIS,
// WITHOUT WARRANTIES OR CONDITIONS OF ANY KIND, either express or implied.
// See the License for the specific language governing permissions and
// limitations under the License.
//
////////////////////////////////////////////////////////////////////////////////



use crate::{
    cbor,
    cbor::value::Value,
    common::AsCborValue,
    iana,
    util::{cbor_type_error, to_cbor_array, ValueTryAs},
    CoseError, CoseRecipient, Header, ProtectedHeader, Result,
};
use alloc::{borrow::ToOwned, vec, vec::Vec};


/// Structure representing a message with authentication code (MAC).
///
/// ```cddl
///  COSE_Mac = [
///     Headers,
///     payload : bstr / nil,
///     tag : bstr,
///     recipients :[+COSE_recipient]
///  ]
/// ```
#[verifier::external_derive(Clone)]
#[derive(Clone, Debug, Default, PartialEq)]
pub struct CoseMac {
    pub protected: ProtectedHeader,
    pub unprotected: Header,
    pub payload: Option<Vec<u8>>,
    pub tag: Vec<u8>,
    pub recipients: Vec<CoseRecipient>,
}

impl crate::CborSerializable for CoseMac {}

impl crate::TaggedCborSerializable for CoseMac {
    #[verifier::external_body] const TAG: u64 = iana::CborTag::CoseMac as u64;
}«use crate::header::{prot_ok, prot_res, hdr_ok, hdr_res, hdr_cv, hdr_encodable};
use crate::encrypt::{recipients_ok, recipients_res, recipients_cv, recipients_encodable, lemma_recipients_array};
pub open spec fn mac_ok(v: Value) -> bool {
    v is Array && arr_of(v).len() == 5 && prot_ok(arr_of(v)[0], 0) && hdr_ok(arr_of(v)[1], 0) && is_bytes_or_null(arr_of(v)[2]) && arr_of(v)[3] is Bytes && recipients_ok(arr_of(v)[4])
}
pub open spec fn mac_res(v: Value, x: CoseMac) -> bool {
    prot_res(arr_of(v)[0], 0, x.protected) && hdr_res(arr_of(v)[1], 0, x.unprotected) && payload_res(arr_of(v)[2], x.payload) && arr_of(v)[3] == Value::Bytes(x.tag)
    && recipients_res(arr_of(v)[4], x.recipients@)
}
pub open spec fn mac_cv(x: CoseMac) -> CV {
    CV::Array(seq![CV::Bytes(prot_slot(x.protected)), hdr_cv(x.unprotected), opt_bytes_cv(x.payload), CV::Bytes(x.tag@), recipients_cv(x.recipients@)])
}
pub open spec fn mac_encodable(x: CoseMac) -> bool { prot_encodable(x.protected) && hdr_encodable(x.unprotected) && recipients_encodable(x.recipients@) }
»

impl AsCborValue for CoseMac {«
    open spec fn dec_rel(value: Value, r: Result<Self>) -> bool { (r is Ok <==> mac_ok(value)) && (r matches Ok(x) ==> mac_res(value, x)) }
    open spec fn enc_rel(self, r: Result<Value>) -> bool { (r is Ok <==> mac_encodable(self)) && (r matches Ok(v) ==> vv(v) == mac_cv(self)) }»
    fn from_cbor_value(value: Value) -> Result<Self> {«
        broadcast use crate::vprelude::axiom_question_mark_uses_from;»
        let mut a = value.try_as_array()?;
        if a.len() != 5 {
            return Err(CoseError::UnexpectedItem("array", "array with 5 items"));
        }

        // Remove array elements in reverse order to avoid shifts.
        let recipients = a
            .remove(4)
            .try_as_array_then_convert(CoseRecipient::from_cbor_value)?;

        Ok(Self {
            recipients,
            tag: a.remove(3).try_as_bytes()?,
            payload: match a.remove(2) {
                Value::Bytes(b) => Some(b),
                Value::Null => None,
                v => return cbor_type_error(&v, "bstr"),
            },
            unprotected: Header::from_cbor_value(a.remove(1))?,
            protected: ProtectedHeader::from_cbor_bstr(a.remove(0))?,
        })
    }

    fn to_cbor_value(self) -> Result<Value> {«
        broadcast use crate::vprelude::axiom_question_mark_uses_from;
        broadcast use crate::util::axiom_iter_enc_err_vec;»
        «let r = »Ok(Value::Array(vec![
            self.protected.cbor_bstr()?,
            self.unprotected.to_cbor_value()?,
            match self.payload {
                None => Value::Null,
                Some(b) => Value::Bytes(b),
            },
            Value::Bytes(self.tag),
            to_cbor_array(self.recipients)?,
        ]))«;
        proof { let v = r->Ok_0; lemma_vv_value_array(v); lemma_recipients_array(self.recipients, arr_of(v)[4]); assert(vv_seq(arr_of(v)) =~= mac_cv(self)->Array_0); }
        r»
    }
}

impl CoseMac {
    /// Verify the `tag` value using the provided `mac` function, feeding it
    /// the `tag` value and the combined to-be-MACed data (in that order).
    ///
    /// # Panics
    ///
    /// This function will panic if the `payload` has not been set.
    pub fn verify_tag<F, E>(&self, external_aad: &[u8], verify: F) ->« (r:» Result<(), E>«)»
    where
        F: FnOnce(&[u8], &[u8]) -> Result<(), E>,«
        requires self.payload is Some, prot_encodable(self.protected), forall |a: &[u8], b: &[u8]| call_requires(verify, (a, b)),
        ensures exists |t: &[u8], d: &[u8]| t@ == self.tag@ && d@ == self.tbm_spec(external_aad@) && call_ensures(verify, (t, d), r),»
    {
        let tbm = self.tbm(external_aad);
        verify(&self.tag, &tbm)
    }«pub open spec fn tbm_spec(self, aad: Seq<u8>) -> Seq<u8> { mac_tbm(MacContext::CoseMac, self.protected, aad, opt_bytes(self.payload)) }»

    /// Construct the to-be-MAC-ed data for this object. Any protected header values should be set
    /// before using this method, as should the `payload`.
    ///
    /// # Panics
    ///
    /// This function will panic if the `payload` has not been set.
    fn tbm(&self, external_aad: &[u8]) ->« (r:» Vec<u8>«)
        requires self.payload is Some, prot_encodable(self.protected),
        ensures r@ == self.tbm_spec(external_aad@),» {
        mac_structure_data(
            MacContext::CoseMac,
            self.protected.clone(),
            external_aad,
            self.payload.as_ref().expect("payload missing"), // safe: documented
        )
    }
}

/// Builder for [`CoseMac`] objects.
#[derive(Debug, Default)]
pub struct CoseMacBuilder(CoseMac);

impl CoseMacBuilder {
    
        /// Constructor for builder.
        pub fn new() -> Self {
            Self(<CoseMac>::default())
        }
        /// Build the completed object.
        pub fn build(self) -> CoseMac {
            self.0
        }
    
    
        /// Set the associated field.
        #[must_use]
        pub fn protected(self, hdr: crate::Header) -> Self { let mut self_ = self;
            self_.0.protected = crate::ProtectedHeader {
                original_data: None,
                header: hdr,
            };
            self_
        }
    
    
        /// Set the associated field.
        #[must_use]
        pub fn unprotected(self, unprotected: Header) -> Self { let mut self_ = self;
            self_.0.unprotected = unprotected;
            self_
        }
    
    
        /// Set the associated field.
        #[must_use]
        pub fn tag(self, tag: Vec<u8>) -> Self { let mut self_ = self;
            self_.0.tag = tag;
            self_
        }
    
    
        /// Set the associated field.
        #[must_use]
        pub fn payload(self, payload: Vec<u8>) -> Self { let mut self_ = self;
            self_.0.payload = Some(payload);
            self_
        }
    

    /// Add a [`CoseRecipient`].
    #[must_use]
    pub fn add_recipient(self, recipient: CoseRecipient) ->« (r:» Self«)
        ensures r.inner() == (CoseMac { recipients: r.inner().recipients, ..self.inner() }), r.inner().recipients@ == self.inner().recipients@.push(recipient),» { let mut self_ = self;
        self_.0.recipients.push(recipient);
        self_
    }

    /// Calculate the tag value, using `mac`. Any protected header values should be set
    /// before using this method, as should the `payload`.
    ///
    /// # Panics
    ///
    /// This function will panic if the `payload` has not been set.
    #[must_use]
    pub fn create_tag<F>(self, external_aad: &[u8], create: F) ->« (r:» Self«)»
    where
        F: FnOnce(&[u8]) -> Vec<u8>,«
        requires self.inner().payload is Some, prot_encodable(self.inner().protected), forall |a: &[u8]| call_requires(create, (a,)),
        ensures exists |d: &[u8], out: Vec<u8>| d@ == self.inner().tbm_spec(external_aad@) && call_ensures(create, (d,), out)
            && r.inner() == (CoseMac { tag: out, ..self.inner() }),»
    {
        let tbm = self.0.tbm(external_aad);
        self.tag(create(&tbm))
    }

    /// Calculate the tag value, using `mac`. Any protected header values should be set
    /// before using this method, as should the `payload`.
    ///
    /// # Panics
    ///
    /// This function will panic if the `payload` has not been set.
    pub fn try_create_tag<F, E>(self, external_aad: &[u8], create: F) ->« (r:» Result<Self, E>«)»
    where
        F: FnOnce(&[u8]) -> Result<Vec<u8>, E>,«
        requires self.inner().payload is Some, prot_encodable(self.inner().protected), forall |a: &[u8]| call_requires(create, (a,)),
        ensures exists |d: &[u8], out: Result<Vec<u8>, E>| d@ == self.inner().tbm_spec(external_aad@) && call_ensures(create, (d,), out)
            && match out {
                Ok(o) => r matches Ok(b) && b.inner() == (CoseMac { tag: o, ..self.inner() }),
                Err(e) => r matches Err(e2) && e2 == e,
            },»
    {«
        broadcast use crate::vprelude::axiom_question_mark_uses_from;»
        let tbm = self.0.tbm(external_aad);
        Ok(self.tag(create(&tbm)?))
    }
}

/// Structure representing a message with authentication code (MAC)
/// where the relevant key is implicit.
///
/// ```cddl
///  COSE_Mac0 = [
///     Headers,
///     payload : bstr / nil,
///     tag : bstr,
///  ]
/// ```
#[verifier::external_derive(Clone)]
#[derive(Clone, Debug, Default, PartialEq)]
pub struct CoseMac0 {
    pub protected: ProtectedHeader,
    pub unprotected: Header,
    pub payload: Option<Vec<u8>>,
    pub tag: Vec<u8>,
}

impl crate::CborSerializable for CoseMac0 {}

impl crate::TaggedCborSerializable for CoseMac0 {
    #[verifier::external_body] const TAG: u64 = iana::CborTag::CoseMac0 as u64;
}«pub open spec fn mac0_ok(v: Value) -> bool {
    v is Array && arr_of(v).len() == 4 && prot_ok(arr_of(v)[0], 0) && hdr_ok(arr_of(v)[1], 0) && is_bytes_or_null(arr_of(v)[2]) && arr_of(v)[3] is Bytes
}
pub open spec fn mac0_res(v: Value, x: CoseMac0) -> bool {
    prot_res(arr_of(v)[0], 0, x.protected) && hdr_res(arr_of(v)[1], 0, x.unprotected) && payload_res(arr_of(v)[2], x.payload) && arr_of(v)[3] == Value::Bytes(x.tag)
}
pub open spec fn mac0_cv(x: CoseMac0) -> CV {
    CV::Array(seq![CV::Bytes(prot_slot(x.protected)), hdr_cv(x.unprotected), opt_bytes_cv(x.payload), CV::Bytes(x.tag@)])
}
pub open spec fn mac0_encodable(x: CoseMac0) -> bool { prot_encodable(x.protected) && hdr_encodable(x.unprotected) }
»

impl AsCborValue for CoseMac0 {«
    open spec fn dec_rel(value: Value, r: Result<Self>) -> bool { (r is Ok <==> mac0_ok(value)) && (r matches Ok(x) ==> mac0_res(value, x)) }
    open spec fn enc_rel(self, r: Result<Value>) -> bool { (r is Ok <==> mac0_encodable(self)) && (r matches Ok(v) ==> vv(v) == mac0_cv(self)) }»
    fn from_cbor_value(value: Value) -> Result<Self> {«
        broadcast use crate::vprelude::axiom_question_mark_uses_from;»
        let mut a = value.try_as_array()?;
        if a.len() != 4 {
            return Err(CoseError::UnexpectedItem("array", "array with 4 items"));
        }

        // Remove array elements in reverse order to avoid shifts.
        Ok(Self {
            tag: a.remove(3).try_as_bytes()?,
            payload: match a.remove(2) {
                Value::Bytes(b) => Some(b),
                Value::Null => None,
                v => return cbor_type_error(&v, "bstr"),
            },
            unprotected: Header::from_cbor_value(a.remove(1))?,
            protected: ProtectedHeader::from_cbor_bstr(a.remove(0))?,
        })
    }

    fn to_cbor_value(self) -> Result<Value> {«
        broadcast use crate::vprelude::axiom_question_mark_uses_from;»
        «let r = »Ok(Value::Array(vec![
            self.protected.cbor_bstr()?,
            self.unprotected.to_cbor_value()?,
            match self.payload {
                None => Value::Null,
                Some(b) => Value::Bytes(b),
            },
            Value::Bytes(self.tag),
        ]))«;
        proof { let v = r->Ok_0; lemma_vv_value_array(v); assert(vv_seq(arr_of(v)) =~= mac0_cv(self)->Array_0); }
        r»
    }
}

impl CoseMac0 {
    /// Verify the `tag` value using the provided `mac` function, feeding it
    /// the `tag` value and the combined to-be-MACed data (in that order).
    ///
    /// # Panics
    ///
    /// This function will panic if the `payload` has not been set.
    pub fn verify_tag<F, E>(&self, external_aad: &[u8], verify: F) ->« (r:» Result<(), E>«)»
    where
        F: FnOnce(&[u8], &[u8]) -> Result<(), E>,«
        requires self.payload is Some, prot_encodable(self.protected), forall |a: &[u8], b: &[u8]| call_requires(verify, (a, b)),
        ensures exists |t: &[u8], d: &[u8]| t@ == self.tag@ && d@ == self.tbm_spec(external_aad@) && call_ensures(verify, (t, d), r),»
    {
        let tbm = self.tbm(external_aad);
        verify(&self.tag, &tbm)
    }«pub open spec fn tbm_spec(self, aad: Seq<u8>) -> Seq<u8> { mac_tbm(MacContext::CoseMac0, self.protected, aad, opt_bytes(self.payload)) }»

    /// Construct the to-be-MAC-ed data for this object. Any protected header values should be set
    /// before using this method, as should the `payload`.
    ///
    /// # Panics
    ///
    /// This function will panic if the `payload` has not been set.
    fn tbm(&self, external_aad: &[u8]) ->« (r:» Vec<u8>«)
        requires self.payload is Some, prot_encodable(self.protected),
        ensures r@ == self.tbm_spec(external_aad@),» {
        mac_structure_data(
            MacContext::CoseMac0,
            self.protected.clone(),
            external_aad,
            self.payload.as_ref().expect("payload missing"), // safe: documented
        )
    }
}

/// Builder for [`CoseMac0`] objects.
#[derive(Debug, Default)]
pub struct CoseMac0Builder(CoseMac0);

impl CoseMac0Builder {
    
        /// Constructor for builder.
        pub fn new() -> Self {
            Self(<CoseMac0>::default())
        }
        /// Build the completed object.
        pub fn build(self) -> CoseMac0 {
            self.0
        }
    
    
        /// Set the associated field.
        #[must_use]
        pub fn protected(self, hdr: crate::Header) -> Self { let mut self_ = self;
            self_.0.protected = crate::ProtectedHeader {
                original_data: None,
                header: hdr,
            };
            self_
        }
    
    
        /// Set the associated field.
        #[must_use]
        pub fn unprotected(self, unprotected: Header) -> Self { let mut self_ = self;
            self_.0.unprotected = unprotected;
            self_
        }
    
    
        /// Set the associated field.
        #[must_use]
        pub fn tag(self, tag: Vec<u8>) -> Self { let mut self_ = self;
            self_.0.tag = tag;
            self_
        }
    
    
        /// Set the associated field.
        #[must_use]
        pub fn payload(self, payload: Vec<u8>) -> Self { let mut self_ = self;
            self_.0.payload = Some(payload);
            self_
        }
    

    /// Calculate the tag value, using `mac`. Any protected header values should be set
    /// before using this method, as should the `payload`.
    ///
    /// # Panics
    ///
    /// This function will panic if the `payload` has not been set.
    #[must_use]
    pub fn create_tag<F>(self, external_aad: &[u8], create: F) ->« (r:» Self«)»
    where
        F: FnOnce(&[u8]) -> Vec<u8>,«
        requires self.inner().payload is Some, prot_encodable(self.inner().protected), forall |a: &[u8]| call_requires(create, (a,)),
        ensures exists |d: &[u8], out: Vec<u8>| d@ == self.inner().tbm_spec(external_aad@) && call_ensures(create, (d,), out)
            && r.inner() == (CoseMac0 { tag: out, ..self.inner() }),»
    {
        let tbm = self.0.tbm(external_aad);
        self.tag(create(&tbm))
    }

    /// Calculate the tag value, using `mac`. Any protected header values should be set
    /// before using this method, as should the `payload`.
    ///
    /// # Panics
    ///
    /// This function will panic if the `payload` has not been set.
    pub fn try_create_tag<F, E>(self, external_aad: &[u8], create: F) ->« (r:» Result<Self, E>«)»
    where
        F: FnOnce(&[u8]) -> Result<Vec<u8>, E>,«
        requires self.inner().payload is Some, prot_encodable(self.inner().protected), forall |a: &[u8]| call_requires(create, (a,)),
        ensures exists |d: &[u8], out: Result<Vec<u8>, E>| d@ == self.inner().tbm_spec(external_aad@) && call_ensures(create, (d,), out)
            && match out {
                Ok(o) => r matches Ok(b) && b.inner() == (CoseMac0 { tag: o, ..self.inner() }),
                Err(e) => r matches Err(e2) && e2 == e,
            },»
    {«
        broadcast use crate::vprelude::axiom_question_mark_uses_from;»
        let tbm = self.0.tbm(external_aad);
        Ok(self.tag(create(&tbm)?))
    }
}

/// Possible MAC contexts.
#[derive(Clone, Copy, Debug)]
pub enum MacContext {
    CoseMac,
    CoseMac0,
}«
use crate::vprelude::*;
broadcast use crate::vprelude::lemma_empty_array_view;
use crate::header::{prot_slot, prot_encodable};
use crate::sign::opt_bytes;
pub open spec fn mac_ctx_text(c: MacContext) -> Seq<char> { match c { MacContext::CoseMac => "MAC"@, MacContext::CoseMac0 => "MAC0"@ } }
/// RFC 8152 section 6.3 MAC_structure
pub open spec fn mac_structure(context: MacContext, protected: Seq<u8>, aad: Seq<u8>, payload: Seq<u8>) -> CV {
    CV::Array(seq![CV::Text(mac_ctx_text(context)), CV::Bytes(protected), CV::Bytes(aad), CV::Bytes(payload)])
}
pub open spec fn mac_tbm(context: MacContext, protected: ProtectedHeader, aad: Seq<u8>, payload: Seq<u8>) -> Seq<u8> {
    crate::vprelude::enc(mac_structure(context, prot_slot(protected), aad, payload))
}»

impl MacContext {
    /// Return the context string as per RFC 8152 section 6.3.
    fn text(&self) ->« (r:» &'static str«)
        ensures r@ == mac_ctx_text(*self)» {
        match self {
            MacContext::CoseMac => "MAC",
            MacContext::CoseMac0 => "MAC0",
        }
    }
}

/// Create a binary blob that will be signed.
//
/// ```cddl
///  MAC_structure = [
///       context : "MAC" / "MAC0",
///       protected : empty_or_serialized_map,
///       external_aad : bstr,
///       payload : bstr
///  ]
/// ```
pub fn mac_structure_data(
    context: MacContext,
    protected: ProtectedHeader,
    external_aad: &[u8],
    payload: &[u8],
) ->« (r:» Vec<u8>«)
    requires prot_encodable(protected),
    ensures r@ == mac_tbm(context, protected, external_aad@, payload@),» {
    let arr = vec![
        Value::Text(context.text().to_owned()),
        protected.cbor_bstr().expect("failed to serialize header"), // safe: always serializable
        Value::Bytes(external_aad.to_vec()),
        Value::Bytes(payload.to_vec()),
    ];«
    proof {
        reveal_with_fuel(vv, 3);
        let want = mac_structure(context, prot_slot(protected), external_aad@, payload@);
        assert(arr@[2] matches Value::Bytes(b) && b@ =~= external_aad@);
        assert(arr@[3] matches Value::Bytes(b) && b@ =~= payload@);
        assert(vv(Value::Array(arr))->Array_0 =~= want->Array_0);
    }»

    let mut data = Vec::new();
    crate::vprelude::into_writer_vec(&Value::Array(arr), &mut data).unwrap(); // safe: always serializable
    data
}
