// Copyright 2021 Google LLC
//
// Licensed under the Apache License, Version 2.0 (the "License");
// you may not use this file except in compliance with the License.
// You may obtain a copy of the License at
//
//      http://www.apache.org/licenses/LICENSE-2.0
//
// Unless required by applicable law or agreed to in writing, software
// distributed under the License is distributed on an "AS IS" BASIS,
// WITHOUT WARRANTIES OR CONDITIONS OF ANY KIND, either express or implied.
// See the License for the specific language governing permissions and
// limitations under the License.
//
////////////////////////////////////////////////////////////////////////////////



use crate::{
    cbor::value::Value,
    common::AsCborValue,
    iana,
    util::{cbor_type_error, ValueTryAs},
    Algorithm, CoseError, ProtectedHeader, Result,
};
use alloc::{vec, vec::Vec};
use core::convert::TryInto;


/// A nonce value.
#[derive(Clone, Debug, Eq, PartialEq)]
pub enum Nonce {
    Bytes(Vec<u8>),
    Integer(i64),
}

/// Structure representing a party involved in key derivation.
///
/// ```cddl
///  PartyInfo = (
///      identity : bstr / nil,
///      nonce : bstr / int / nil,
///      other : bstr / nil
///  )
///  ```
#[derive(Clone, Debug, Default, Eq, PartialEq)]
pub struct PartyInfo {
    pub identity: Option<Vec<u8>>,
    pub nonce: Option<Nonce>,
    pub other: Option<Vec<u8>>,
}

impl crate::CborSerializable for PartyInfo {}«use crate::vprelude::*;
use crate::header::{prot_ok, prot_res, prot_slot, prot_encodable};
use crate::common::{regp_of, regp_cv, wf_regp};
// PartyInfo = ( identity: bstr / nil, nonce: bstr / int / nil, other: bstr / nil )
pub open spec fn nonce_of(v: Value) -> Option<Option<Nonce>> {
    match v {
        Value::Null => Some(None),
        Value::Bytes(b) => Some(Some(Nonce::Bytes(b))),
        Value::Integer(i) => if in_i64(int_val(i)) { Some(Some(Nonce::Integer(int_val(i) as i64))) } else { None },
        _ => None,
    }
}
pub open spec fn party_ok(v: Value) -> bool {
    v is Array && arr_of(v).len() == 3 && is_bytes_or_null(arr_of(v)[0]) && nonce_of(arr_of(v)[1]) is Some && is_bytes_or_null(arr_of(v)[2])
}
pub open spec fn party_res(v: Value, x: PartyInfo) -> bool {
    payload_res(arr_of(v)[0], x.identity) && nonce_of(arr_of(v)[1]) == Some(x.nonce) && payload_res(arr_of(v)[2], x.other)
}
pub open spec fn nonce_cv(n: Option<Nonce>) -> CV { match n { None => CV::Null, Some(Nonce::Bytes(b)) => CV::Bytes(b@), Some(Nonce::Integer(i)) => CV::Int(i as int) } }
pub open spec fn party_cv(x: PartyInfo) -> CV { CV::Array(seq![opt_bytes_cv(x.identity), nonce_cv(x.nonce), opt_bytes_cv(x.other)]) }
»

impl AsCborValue for PartyInfo {«
    open spec fn dec_rel(value: Value, r: Result<Self>) -> bool { (r is Ok <==> party_ok(value)) && (r matches Ok(x) ==> party_res(value, x)) }
    open spec fn enc_rel(self, r: Result<Value>) -> bool { r matches Ok(v) && vv(v) == party_cv(self) }»
    fn from_cbor_value(value: Value) -> Result<Self> {«
        broadcast use axiom_question_mark_uses_from;»
        let mut a = value.try_as_array()?;
        if a.len() != 3 {
            return Err(CoseError::UnexpectedItem("array", "array with 3 items"));
        }

        // Remove array elements in reverse order to avoid shifts.
        Ok(Self {
            other: match a.remove(2) {
                Value::Null => None,
                Value::Bytes(b) => Some(b),
                v => return cbor_type_error(&v, "bstr / nil"),
            },
            nonce: match a.remove(1) {
                Value::Null => None,
                Value::Bytes(b) => Some(Nonce::Bytes(b)),
                Value::Integer(u) => Some(Nonce::Integer(u.try_into()?)),
                v => return cbor_type_error(&v, "bstr / int / nil"),
            },
            identity: match a.remove(0) {
                Value::Null => None,
                Value::Bytes(b) => Some(b),
                v => return cbor_type_error(&v, "bstr / nil"),
            },
        })
    }

    fn to_cbor_value(self) -> Result<Value> {
        «let r = »Ok(Value::Array(vec![
            match self.identity {
                None => Value::Null,
                Some(b) => Value::Bytes(b),
            },
            match self.nonce {
                None => Value::Null,
                Some(Nonce::Bytes(b)) => Value::Bytes(b),
                Some(Nonce::Integer(i)) => Value::from(i),
            },
            match self.other {
                None => Value::Null,
                Some(b) => Value::Bytes(b),
            },
        ]))«;
        proof { let v = r->Ok_0; reveal_with_fuel(vv, 2); lemma_vv_value_array(v); assert(vv_seq(arr_of(v)) =~= party_cv(self)->Array_0); }
        r»
    }
}

/// Builder for [`PartyInfo`] objects.
#[derive(Debug, Default)]
pub struct PartyInfoBuilder(PartyInfo);

impl PartyInfoBuilder {
    
        /// Constructor for builder.
        pub fn new() -> Self {
            Self(<PartyInfo>::default())
        }
        /// Build the completed object.
        pub fn build(self) -> PartyInfo {
            self.0
        }
    
    
        /// Set the associated field.
        #[must_use]
        pub fn identity(self, identity: Vec<u8>) -> Self { let mut self_ = self;
            self_.0.identity = Some(identity);
            self_
        }
    
    
        /// Set the associated field.
        #[must_use]
        pub fn nonce(self, nonce: Nonce) -> Self { let mut self_ = self;
            self_.0.nonce = Some(nonce);
            self_
        }
    
    
        /// Set the associated field.
        #[must_use]
        pub fn other(self, other: Vec<u8>) -> Self { let mut self_ = self;
            self_.0.other = Some(other);
            self_
        }
    
}

/// Structure representing supplemental public information.
///
/// ```cddl
///  SuppPubInfo : [
///      keyDataLength : uint,
///      protected : empty_or_serialized_map,
///      ? other : bstr
///  ],
///  ```
#[verifier::external_derive(Clone)]
#[derive(Clone, Debug, Default, PartialEq)]
pub struct SuppPubInfo {
    pub key_data_length: u64,
    pub protected: ProtectedHeader,
    pub other: Option<Vec<u8>>,
}

impl crate::CborSerializable for SuppPubInfo {}«// SuppPubInfo = [ keyDataLength: uint, protected: empty_or_serialized_map, ? other: bstr ]
pub open spec fn kdl_of(v: Value) -> Option<u64> { match v { Value::Integer(i) => if 0 <= int_val(i) <= u64::MAX { Some(int_val(i) as u64) } else { None }, _ => None } }
pub open spec fn supp_pub_ok(v: Value) -> bool {
    v is Array && (arr_of(v).len() == 2 || arr_of(v).len() == 3) && kdl_of(arr_of(v)[0]) is Some && prot_ok(arr_of(v)[1], 0)
    && (arr_of(v).len() == 3 ==> arr_of(v)[2] is Bytes)
}
pub open spec fn supp_pub_res(v: Value, x: SuppPubInfo) -> bool {
    kdl_of(arr_of(v)[0]) == Some(x.key_data_length) && prot_res(arr_of(v)[1], 0, x.protected)
    && (if arr_of(v).len() == 3 { x.other matches Some(b) && arr_of(v)[2] == Value::Bytes(b) } else { x.other is None })
}
pub open spec fn supp_pub_cv(x: SuppPubInfo) -> CV {
    match x.other {
        None => CV::Array(seq![CV::Int(x.key_data_length as int), CV::Bytes(prot_slot(x.protected))]),
        Some(b) => CV::Array(seq![CV::Int(x.key_data_length as int), CV::Bytes(prot_slot(x.protected)), CV::Bytes(b@)]),
    }
}
»

impl AsCborValue for SuppPubInfo {«
    open spec fn dec_rel(value: Value, r: Result<Self>) -> bool { (r is Ok <==> supp_pub_ok(value)) && (r matches Ok(x) ==> supp_pub_res(value, x)) }
    open spec fn enc_rel(self, r: Result<Value>) -> bool { (r is Ok <==> prot_encodable(self.protected)) && (r matches Ok(v) ==> vv(v) == supp_pub_cv(self)) }»
    fn from_cbor_value(value: Value) -> Result<Self> {«
        broadcast use axiom_question_mark_uses_from;»
        let mut a = value.try_as_array()?;
        if a.len() != 2 && a.len() != 3 {
            return Err(CoseError::UnexpectedItem(
                "array",
                "array with 2 or 3 items",
            ));
        }

        // Remove array elements in reverse order to avoid shifts.
        Ok(Self {
            other: {
                if a.len() == 3 {
                    Some(a.remove(2).try_as_bytes()?)
                } else {
                    None
                }
            },
            protected: ProtectedHeader::from_cbor_bstr(a.remove(1))?,
            key_data_length: a.remove(0).try_as_integer()?.try_into()?,
        })
    }

    fn to_cbor_value(self) -> Result<Value> {«
        broadcast use axiom_question_mark_uses_from;»
        let mut v = vec![
            Value::from(self.key_data_length),
            self.protected.cbor_bstr()?,
        ];
        if let Some(other) = self.other {
            v.push(Value::Bytes(other));
        }«
        proof { reveal_with_fuel(vv, 2); lemma_vv_array(v); assert(vv_seq(v@) =~= supp_pub_cv(self)->Array_0); }»
        Ok(Value::Array(v))
    }
}

/// Builder for [`SuppPubInfo`] objects.
#[derive(Debug, Default)]
pub struct SuppPubInfoBuilder(SuppPubInfo);

impl SuppPubInfoBuilder {
    
        /// Constructor for builder.
        pub fn new() -> Self {
            Self(<SuppPubInfo>::default())
        }
        /// Build the completed object.
        pub fn build(self) -> SuppPubInfo {
            self.0
        }
    
    
        /// Set the associated field.
        #[must_use]
        pub fn key_data_length(self, key_data_length: u64) -> Self { let mut self_ = self;
            self_.0.key_data_length = key_data_length;
            self_
        }
    
    
        /// Set the associated field.
        #[must_use]
        pub fn protected(self, hdr: crate::Header) -> Self { let mut self_ = self;
            self_.0.protected = crate::ProtectedHeader {
                original_data: None,
                header: hdr,
            };
            self_
        }
    
    
        /// Set the associated field.
        #[must_use]
        pub fn other(self, other: Vec<u8>) -> Self { let mut self_ = self;
            self_.0.other = Some(other);
            self_
        }
    
}

/// Structure representing a a key derivation context.
/// ```cdl
///  COSE_KDF_Context = [
///      AlgorithmID : int / tstr,
///      PartyUInfo : [ PartyInfo ],
///      PartyVInfo : [ PartyInfo ],
///      SuppPubInfo : [
///          keyDataLength : uint,
///          protected : empty_or_serialized_map,
///          ? other : bstr
///      ],
///      ? SuppPrivInfo : bstr
///  ]
/// ```
#[verifier::external_derive(Clone)]
#[derive(Clone, Debug, Default, PartialEq)]
pub struct CoseKdfContext {
    algorithm_id: Algorithm,
    party_u_info: PartyInfo,
    party_v_info: PartyInfo,
    supp_pub_info: SuppPubInfo,
    supp_priv_info: Vec<Vec<u8>>,
}
«
impl CoseKdfContext { pub closed spec fn is_default(self) -> bool {
    self.algorithm_id == Algorithm::Assigned(iana::Algorithm::Reserved) && self.party_u_info.is_default() && self.party_v_info.is_default()
    && self.supp_pub_info.is_default() && self.supp_priv_info@.len() == 0 } }
»
impl crate::CborSerializable for CoseKdfContext {}«// COSE_KDF_Context = [ AlgorithmID, PartyUInfo, PartyVInfo, SuppPubInfo, * SuppPrivInfo: bstr ]
pub open spec fn kdf_ok(v: Value) -> bool {
    v is Array && arr_of(v).len() >= 4 && regp_of::<iana::Algorithm>(arr_of(v)[0]) is Some && party_ok(arr_of(v)[1]) && party_ok(arr_of(v)[2])
    && supp_pub_ok(arr_of(v)[3]) && forall |i: int| 4 <= i < arr_of(v).len() ==> (#[trigger] arr_of(v)[i]) is Bytes
}
pub closed spec fn kdf_res(v: Value, x: CoseKdfContext) -> bool {
    Some(x.algorithm_id) == regp_of::<iana::Algorithm>(arr_of(v)[0]) && party_res(arr_of(v)[1], x.party_u_info) && party_res(arr_of(v)[2], x.party_v_info)
    && supp_pub_res(arr_of(v)[3], x.supp_pub_info) && x.supp_priv_info@.len() == arr_of(v).len() - 4
    && forall |j: int| 0 <= j < x.supp_priv_info@.len() ==> arr_of(v)[4 + j] == Value::Bytes(#[trigger] x.supp_priv_info@[j])
}
pub closed spec fn kdf_cv(x: CoseKdfContext) -> CV {
    CV::Array(seq![regp_cv(x.algorithm_id), party_cv(x.party_u_info), party_cv(x.party_v_info), supp_pub_cv(x.supp_pub_info)]
        + Seq::new(x.supp_priv_info@.len(), |j: int| CV::Bytes(x.supp_priv_info@[j]@)))
}
pub closed spec fn kdf_encodable(x: CoseKdfContext) -> bool { prot_encodable(x.supp_pub_info.protected) }
// ---- C07 for the KDF-context types: the re-encoding of a decoded value is accepted and decodes to the same value; decode
// results are unique up to Vec identity; such values encode identically
use crate::vroundtrip::{lemma_vv_array_shape, lemma_vv_int, lemma_vv_bytes, lemma_bytes_slot, lemma_prot_slot_same, lemma_payload_slot, lemma_regp_of_cv, opt_same, prot_eqv, lemma_prot_res_deterministic, lemma_prot_slot_eqv};
pub proof fn lemma_party_reenc(v: Value, x: PartyInfo, w: Value)
    requires party_ok(v), party_res(v, x), vv(w) == party_cv(x),
    ensures w == v,
{
    broadcast use axiom_vv_injective;
    let a = arr_of(v);
    lemma_vv_array_shape(w, party_cv(x)->Array_0);
    let aw = arr_of(w);
    lemma_payload_slot(a[0], x.identity, aw[0]);
    lemma_payload_slot(a[2], x.other, aw[2]);
    assert(vv(a[1]) == nonce_cv(x.nonce)) by { reveal_with_fuel(vv, 1); }
    assert(aw[1] == a[1]);
    assert(vv(w) == vv(v)) by {
        reveal_with_fuel(vv, 1);
        match v { Value::Array(av) => { lemma_vv_array(av); assert(vv_seq(av@) =~= party_cv(x)->Array_0) by {
            assert forall |j: int| 0 <= j < 3 implies vv_seq(av@)[j] == (party_cv(x)->Array_0)[j] by { assert(vv_seq(av@)[j] == vv(av@[j])); assert(av@[j] == aw[j]); }
        } } _ => {} }
    }
}
pub open spec fn nonce_same(a: Option<Nonce>, b: Option<Nonce>) -> bool {
    match (a, b) { (None, None) => true, (Some(Nonce::Bytes(x)), Some(Nonce::Bytes(y))) => x@ == y@, (Some(Nonce::Integer(x)), Some(Nonce::Integer(y))) => x == y, _ => false }
}
pub open spec fn party_same(a: PartyInfo, b: PartyInfo) -> bool { opt_same(a.identity, b.identity) && nonce_same(a.nonce, b.nonce) && opt_same(a.other, b.other) }
pub proof fn lemma_party_deterministic(v: Value, x1: PartyInfo, x2: PartyInfo)
    requires party_res(v, x1), party_res(v, x2),
    ensures party_same(x1, x2), party_cv(x1) == party_cv(x2),
{ assert(party_cv(x1)->Array_0 =~= party_cv(x2)->Array_0); }
pub proof fn lemma_supp_pub_reenc(v: Value, x: SuppPubInfo, w: Value)
    requires supp_pub_ok(v), supp_pub_res(v, x), vv(w) == supp_pub_cv(x),
    ensures supp_pub_ok(w), supp_pub_res(w, x),
{
    let a = arr_of(v);
    lemma_vv_array_shape(w, supp_pub_cv(x)->Array_0);
    let aw = arr_of(w);
    lemma_vv_int(aw[0], x.key_data_length as int);
    lemma_prot_slot_same(a[1], 0, x.protected, aw[1]);
    if x.other is Some { lemma_bytes_slot(a[2], x.other->0, aw[2]); }
}
pub open spec fn supp_pub_same(a: SuppPubInfo, b: SuppPubInfo) -> bool { a.key_data_length == b.key_data_length && prot_eqv(a.protected, b.protected) && opt_same(a.other, b.other) }
pub proof fn lemma_supp_pub_deterministic(v: Value, x1: SuppPubInfo, x2: SuppPubInfo)
    requires supp_pub_res(v, x1), supp_pub_res(v, x2),
    ensures supp_pub_same(x1, x2), supp_pub_cv(x1) == supp_pub_cv(x2),
{
    lemma_prot_res_deterministic(arr_of(v)[1], 0, x1.protected, x2.protected);
    lemma_prot_slot_eqv(x1.protected, x2.protected);
    assert(supp_pub_cv(x1)->Array_0 =~= supp_pub_cv(x2)->Array_0);
}
pub proof fn lemma_supp_pub_fixed_point(v: Value, x: SuppPubInfo, v1: Value, x1: SuppPubInfo)
    requires supp_pub_ok(v), supp_pub_res(v, x), vv(v1) == supp_pub_cv(x), supp_pub_res(v1, x1),
    ensures prot_encodable(x.protected), supp_pub_ok(v1), supp_pub_res(v1, x), supp_pub_same(x1, x), supp_pub_cv(x1) == supp_pub_cv(x),
{
    lemma_supp_pub_reenc(v, x, v1);
    lemma_supp_pub_deterministic(v1, x1, x);
}
proof fn lemma_regp_of_wf(v: Value, a: Algorithm)
    requires regp_of::<iana::Algorithm>(v) == Some(a),
    ensures wf_regp(a), vv(v) == regp_cv(a),
{ reveal_with_fuel(vv, 1); <iana::Algorithm as crate::iana::EnumI64>::lemma_enum_laws(); }
pub proof fn lemma_kdf_reenc(v: Value, x: CoseKdfContext, w: Value)
    requires kdf_ok(v), kdf_res(v, x), vv(w) == kdf_cv(x),
    ensures kdf_ok(w), kdf_res(w, x),
{
    let a = arr_of(v);
    let cv = kdf_cv(x)->Array_0;
    lemma_vv_array_shape(w, cv);
    let aw = arr_of(w);
    assert(aw.len() == a.len());
    lemma_regp_of_wf(a[0], x.algorithm_id);
    assert(vv(aw[0]) == cv[0]);
    lemma_regp_of_cv::<iana::Algorithm>(aw[0], x.algorithm_id);
    assert(vv(aw[1]) == cv[1]); assert(vv(aw[2]) == cv[2]); assert(vv(aw[3]) == cv[3]);
    lemma_party_reenc(a[1], x.party_u_info, aw[1]);
    lemma_party_reenc(a[2], x.party_v_info, aw[2]);
    lemma_supp_pub_reenc(a[3], x.supp_pub_info, aw[3]);
    assert forall |j: int| 0 <= j < x.supp_priv_info@.len() implies aw[4 + j] == Value::Bytes(#[trigger] x.supp_priv_info@[j]) by {
        assert(vv(aw[4 + j]) == cv[4 + j]);
        lemma_bytes_slot(a[4 + j], x.supp_priv_info@[j], aw[4 + j]);
    }
    assert forall |i: int| 4 <= i < aw.len() implies (#[trigger] aw[i]) is Bytes by { assert(aw[4 + (i - 4)] == Value::Bytes(x.supp_priv_info@[i - 4])); }
}
pub closed spec fn kdf_same(a: CoseKdfContext, b: CoseKdfContext) -> bool {
    a.algorithm_id == b.algorithm_id && party_same(a.party_u_info, b.party_u_info) && party_same(a.party_v_info, b.party_v_info) && supp_pub_same(a.supp_pub_info, b.supp_pub_info)
    && a.supp_priv_info@.len() == b.supp_priv_info@.len() && forall |j: int| 0 <= j < a.supp_priv_info@.len() ==> (#[trigger] a.supp_priv_info@[j])@ == b.supp_priv_info@[j]@
}
pub proof fn lemma_kdf_deterministic(v: Value, x1: CoseKdfContext, x2: CoseKdfContext)
    requires kdf_res(v, x1), kdf_res(v, x2),
    ensures kdf_same(x1, x2), kdf_cv(x1) == kdf_cv(x2),
{
    let a = arr_of(v);
    lemma_party_deterministic(a[1], x1.party_u_info, x2.party_u_info);
    lemma_party_deterministic(a[2], x1.party_v_info, x2.party_v_info);
    lemma_supp_pub_deterministic(a[3], x1.supp_pub_info, x2.supp_pub_info);
    assert forall |j: int| 0 <= j < x1.supp_priv_info@.len() implies (#[trigger] x1.supp_priv_info@[j])@ == x2.supp_priv_info@[j]@ by {
        assert(a[4 + j] == Value::Bytes(x1.supp_priv_info@[j])); assert(a[4 + j] == Value::Bytes(x2.supp_priv_info@[j]));
    }
    assert(kdf_cv(x1)->Array_0 =~= kdf_cv(x2)->Array_0);
}
/// C07 for COSE_KDF_Context (and through it PartyInfo / SuppPubInfo)
pub proof fn lemma_kdf_fixed_point(v: Value, x: CoseKdfContext, v1: Value, x1: CoseKdfContext)
    requires kdf_ok(v), kdf_res(v, x), vv(v1) == kdf_cv(x), kdf_res(v1, x1),
    ensures kdf_encodable(x), kdf_ok(v1), kdf_res(v1, x), kdf_same(x1, x), kdf_cv(x1) == kdf_cv(x),
{
    lemma_kdf_reenc(v, x, v1);
    lemma_kdf_deterministic(v1, x1, x);
}
»

impl AsCborValue for CoseKdfContext {«
    open spec fn dec_rel(value: Value, r: Result<Self>) -> bool { (r is Ok <==> kdf_ok(value)) && (r matches Ok(x) ==> kdf_res(value, x)) }
    open spec fn enc_rel(self, r: Result<Value>) -> bool { (r is Ok <==> kdf_encodable(self)) && (r matches Ok(v) ==> vv(v) == kdf_cv(self)) }»
    fn from_cbor_value(value: Value) -> Result<Self> {«
        broadcast use axiom_question_mark_uses_from;»
        let mut a = value.try_as_array()?;«
        let ghost a0 = a@;»
        if a.len() < 4 {
            return Err(CoseError::UnexpectedItem(
                "array",
                "array with at least 4 items",
            ));
        }

        // Remove array elements in reverse order to avoid shifts.
        let mut supp_priv_info = Vec::with_capacity(a.len() - 4);
        { let mut i__ = a.len(); while i__ > 4« invariant 4 <= i__ <= a0.len(), a@.len() == i__, a@ == a0.subrange(0, i__ as int), a0 == arr_of(value), value is Array,
                supp_priv_info@.len() == a0.len() - i__,
                forall |j: int| 0 <= j < supp_priv_info@.len() ==> a0[a0.len() - 1 - j] == Value::Bytes(#[trigger] supp_priv_info@[j]),
            decreases i__» { i__ -= 1; let i = i__;«
            broadcast use axiom_question_mark_uses_from;
            let ghost sp = supp_priv_info@;
            proof { assert(a@[i as int] == a0[i as int]); assert(kdf_ok(value) ==> a0[i as int] is Bytes); }»
            supp_priv_info.push(a.remove(i).try_as_bytes()?);«
            proof { assert(a@ =~= a0.subrange(0, i as int)); }»
        } }«
        let ghost sp0 = supp_priv_info@;»
        supp_priv_info.reverse();«
        proof {
            assert(a@ =~= a0.subrange(0, 4));
            assert forall |j: int| 0 <= j < supp_priv_info@.len() implies a0[4 + j] == Value::Bytes(#[trigger] supp_priv_info@[j]) by {
                assert(supp_priv_info@[j] == sp0[sp0.len() - 1 - j]);
            }
            assert forall |i: int| 4 <= i < a0.len() implies (#[trigger] a0[i]) is Bytes by {
                assert(a0[4 + (i - 4)] == Value::Bytes(supp_priv_info@[i - 4]));
            }
        }»

        Ok(Self {
            supp_priv_info,
            supp_pub_info: SuppPubInfo::from_cbor_value(a.remove(3))?,
            party_v_info: PartyInfo::from_cbor_value(a.remove(2))?,
            party_u_info: PartyInfo::from_cbor_value(a.remove(1))?,
            algorithm_id: Algorithm::from_cbor_value(a.remove(0))?,
        })
    }

    fn to_cbor_value(self) -> Result<Value> {«
        broadcast use axiom_question_mark_uses_from;
        let ghost x0 = self;»
        let mut v = vec![
            self.algorithm_id.to_cbor_value()?,
            self.party_u_info.to_cbor_value()?,
            self.party_v_info.to_cbor_value()?,
            self.supp_pub_info.to_cbor_value()?,
        ];«let ghost sp = self.supp_priv_info@;
        let ghost head = seq![regp_cv(x0.algorithm_id), party_cv(x0.party_u_info), party_cv(x0.party_v_info), supp_pub_cv(x0.supp_pub_info)];
        proof { assert(vv_seq(v@) =~= head); }»
        for supp_priv_info in« it:» self.supp_priv_info«
            invariant x0 == self, sp == x0.supp_priv_info@, sp == self.supp_priv_info@, 0 <= it.index@ <= sp.len(),
                head == seq![regp_cv(x0.algorithm_id), party_cv(x0.party_u_info), party_cv(x0.party_v_info), supp_pub_cv(x0.supp_pub_info)],
                vv_seq(v@) == head + Seq::new(it.index@ as nat, |j: int| CV::Bytes(sp[j]@)),» {«
            let ghost n = it.index@; let ghost vp = v@;
            proof { assert(supp_priv_info == sp[n]); }»
            v.push(Value::Bytes(supp_priv_info));«
            proof { lemma_vv_seq_push(vp, v@.last()); assert(vv_seq(v@) =~= head + Seq::new((n + 1) as nat, |j: int| CV::Bytes(sp[j]@))); }»
        }«
        proof { lemma_vv_array(v); assert(Seq::new(sp.len(), |j: int| CV::Bytes(sp[j]@)) =~= Seq::new(x0.supp_priv_info@.len(), |j: int| CV::Bytes(x0.supp_priv_info@[j]@))); }»
        Ok(Value::Array(v))
    }
}

/// Builder for [`CoseKdfContext`] objects.
#[derive(Debug, Default)]
pub struct CoseKdfContextBuilder(CoseKdfContext);«impl CoseKdfContextBuilder {
    // CoseKdfContext has private fields: the documented effects are stated through closed spec functions
    pub closed spec fn after_algorithm_id(self, alg: iana::Algorithm) -> CoseKdfContext { CoseKdfContext { algorithm_id: Algorithm::Assigned(alg), ..self.0 } }
    pub closed spec fn after_add_supp_priv_info(self, r: Self, x: Vec<u8>) -> bool {
        r.0 == (CoseKdfContext { supp_priv_info: r.0.supp_priv_info, ..self.0 }) && r.0.supp_priv_info@ == self.0.supp_priv_info@.push(x)
    }
}
»

impl CoseKdfContextBuilder {
    
        /// Constructor for builder.
        pub fn new() -> Self {
            Self(<CoseKdfContext>::default())
        }
        /// Build the completed object.
        pub fn build(self) -> CoseKdfContext {
            self.0
        }
    
    
        /// Set the associated field.
        #[must_use]
        pub fn party_u_info(self, party_u_info: PartyInfo) -> Self { let mut self_ = self;
            self_.0.party_u_info = party_u_info;
            self_
        }
    
    
        /// Set the associated field.
        #[must_use]
        pub fn party_v_info(self, party_v_info: PartyInfo) -> Self { let mut self_ = self;
            self_.0.party_v_info = party_v_info;
            self_
        }
    
    
        /// Set the associated field.
        #[must_use]
        pub fn supp_pub_info(self, supp_pub_info: SuppPubInfo) -> Self { let mut self_ = self;
            self_.0.supp_pub_info = supp_pub_info;
            self_
        }
    

    /// Set the algorithm.
    #[must_use]
    pub fn algorithm(self, alg: iana::Algorithm) ->« (r:» Self«)
        ensures r.inner() == self.after_algorithm_id(alg),» { let mut self_ = self;
        self_.0.algorithm_id = Algorithm::Assigned(alg);
        self_
    }

    /// Add supplemental private info.
    #[must_use]
    pub fn add_supp_priv_info(self, supp_priv_info: Vec<u8>) ->« (r:» Self«)
        ensures self.after_add_supp_priv_info(r, supp_priv_info),» { let mut self_ = self;
        self_.0.supp_priv_info.push(supp_priv_info);
        self_
    }
}
