#!/bin/bash
# usage: evalw.sh <k> <prop>
k=$1; p=$2; wt=/tmp/sa$k; out=/tmp/evalw$k.log
exec >$out 2>&1
cd $wt
git apply --check -R patch.diff || { git checkout -- src; git apply patch.diff; }
rm -rf tests; mkdir -p tests; cp demo.rs tests/demo.rs
export CARGO_TARGET_DIR=/tmp/tg$k
echo "== with patch: demo"; cargo test --offline --test demo 2>&1 | grep "test result"
rm -rf tests
echo "== with patch: suite"; cargo test --offline 2>&1 | grep "test result"
git apply -R patch.diff
mkdir -p tests; cp demo.rs tests/demo.rs
echo "== without patch: demo"; cargo test --offline --test demo 2>&1 | grep "test result"
git apply patch.diff
rm -rf tests target /tmp/tg$k
unset CARGO_TARGET_DIR
rsync -a --delete --exclude .git /verif/ /tmp/vs$k/
cd /tmp/vs$k
echo "== check"
COSET_REPO=$wt VERIF_EVIDENCE_DIR=/tmp/mut-evidence$k python3 tools/check.py $p; echo "rc=$?"
