pub mod vprelude {
use vstd::prelude::*;
use vstd::std_specs::cmp::*;
use ciborium::value::{Value, Integer};
use crate::cbor;
use alloc::{string::String, vec::Vec};
use core::cmp::Ordering;
verus!{
#[verifier::external_type_specification]
pub struct ExValue(Value);
#[verifier::external_type_specification]
#[verifier::external_body]
pub struct ExInteger(Integer);
#[verifier::external_type_specification]
#[verifier::external_body]
#[verifier::reject_recursive_types(T)]
pub struct ExSerError<T>(cbor::ser::Error<T>);
#[verifier::external_type_specification]
#[verifier::reject_recursive_types(T)]
pub struct ExDeError<T>(cbor::de::Error<T>);
#[verifier::external_type_specification]
#[verifier::external_body]
pub struct ExIoEof(ciborium_io::EndOfFile);

// ---------------- CBOR data model view
pub uninterp spec fn int_val(i: Integer) -> int;
pub broadcast axiom fn axiom_int_val_injective(a: Integer, b: Integer)
    ensures #[trigger] int_val(a) == #[trigger] int_val(b) ==> a == b;

pub enum CV { Int(int), Bytes(Seq<u8>), Float(f64), Text(Seq<char>), Bool(bool), Null, Tag(u64, Box<CV>), Array(Seq<CV>), Map(Seq<(CV, CV)>), Other, }
pub open spec fn vv(v: Value) -> CV
    decreases v
{
    match v {
        Value::Integer(i) => CV::Int(int_val(i)),
        Value::Bytes(b) => CV::Bytes(b@),
        Value::Float(f) => CV::Float(f),
        Value::Text(t) => CV::Text(t@),
        Value::Bool(b) => CV::Bool(b),
        Value::Null => CV::Null,
        Value::Tag(t, b) => CV::Tag(t, Box::new(vv(*b))),
        Value::Array(a) => CV::Array(Seq::new(a@.len(), |i: int| if 0 <= i < a@.len() { vv(a@[i]) } else { CV::Null })),
        Value::Map(m) => CV::Map(Seq::new(m@.len(), |i: int| if 0 <= i < m@.len() { (vv(m@[i].0), vv(m@[i].1)) } else { (CV::Null, CV::Null) })),
        _ => CV::Other,
    }
}
pub open spec fn vv_seq(s: Seq<Value>) -> Seq<CV> { Seq::new(s.len(), |i: int| vv(s[i])) }
#[verifier::opaque]
pub open spec fn vv_pairs(s: Seq<(Value, Value)>) -> Seq<(CV, CV)> { Seq::new(s.len(), |i: int| (vv(s[i].0), vv(s[i].1))) }
pub proof fn lemma_vv_array(a: Vec<Value>) ensures vv(Value::Array(a)) == CV::Array(vv_seq(a@))
{ reveal_with_fuel(vv, 2); assert(vv(Value::Array(a))->Array_0 =~= vv_seq(a@)); }
pub proof fn lemma_vv_map(m: Vec<(Value, Value)>) ensures vv(Value::Map(m)) == CV::Map(vv_pairs(m@))
{ reveal(vv_pairs); reveal_with_fuel(vv, 2); assert(vv(Value::Map(m))->Map_0 =~= vv_pairs(m@)); }
pub proof fn lemma_vv_seq_push(s: Seq<Value>, x: Value) ensures vv_seq(s.push(x)) == vv_seq(s).push(vv(x))
{ assert(vv_seq(s.push(x)) =~= vv_seq(s).push(vv(x))); }
pub proof fn lemma_vv_pairs_push(s: Seq<(Value, Value)>, x: (Value, Value)) ensures vv_pairs(s.push(x)) == vv_pairs(s).push((vv(x.0), vv(x.1)))
{ reveal(vv_pairs); assert(vv_pairs(s.push(x)) =~= vv_pairs(s).push((vv(x.0), vv(x.1)))); }
pub proof fn lemma_vv_pairs_empty() ensures vv_pairs(Seq::<(Value, Value)>::empty()) == Seq::<(CV, CV)>::empty()
{ reveal(vv_pairs); assert(vv_pairs(Seq::<(Value, Value)>::empty()) =~= Seq::<(CV, CV)>::empty()); }
pub proof fn lemma_vv_pairs_index(s: Seq<(Value, Value)>, i: int) requires 0 <= i < s.len() ensures vv_pairs(s).len() == s.len(), vv_pairs(s)[i] == (vv(s[i].0), vv(s[i].1))
{ reveal(vv_pairs); }
/// A-VALUE-EXT: `Value`s (Vec / String / Integer inside) are determined by their data-model view.
pub broadcast axiom fn axiom_vv_injective(a: Value, b: Value)
    ensures #[trigger] vv(a) == #[trigger] vv(b) ==> a == b;
pub assume_specification [ <Value as Clone>::clone ] (a: &Value) -> (b: Value)
    ensures b == *a;
pub open spec fn arr_of(v: Value) -> Seq<Value> { match v { Value::Array(a) => a@, _ => Seq::<Value>::empty() } }
pub open spec fn map_of(v: Value) -> Seq<(Value, Value)> { match v { Value::Map(m) => m@, _ => Seq::<(Value, Value)>::empty() } }
pub open spec fn bytes_of(v: Value) -> Seq<u8> { match v { Value::Bytes(b) => b@, _ => Seq::<u8>::empty() } }
pub proof fn lemma_vv_value_array(v: Value)
    requires v is Array,
    ensures vv(v) == CV::Array(vv_seq(arr_of(v))),
{ match v { Value::Array(a) => { lemma_vv_array(a); } _ => {} } }
pub proof fn lemma_vv_value_map(v: Value)
    requires v is Map,
    ensures vv(v) == CV::Map(vv_pairs(map_of(v))),
{ match v { Value::Map(a) => { lemma_vv_map(a); } _ => {} } }
pub proof fn lemma_map_elem_decreases(v: Value, n: int)
    requires v is Map, 0 <= n < map_of(v).len(),
    ensures decreases_to!(v => map_of(v)[n].1), decreases_to!(v => map_of(v)[n].0),
{
    match v {
        Value::Map(mm) => {
            assert(decreases_to!(v => mm));
            assert(decreases_to!(mm => mm@[n]));
            assert(decreases_to!(mm@[n] => mm@[n].1));
            assert(decreases_to!(mm@[n] => mm@[n].0));
        }
        _ => {}
    }
}
pub proof fn lemma_arr_elem_decreases(v: Value, n: int)
    requires v is Array, 0 <= n < arr_of(v).len(),
    ensures decreases_to!(v => arr_of(v)[n]),
{
    match v {
        Value::Array(a) => {
            assert(decreases_to!(v => a));
            assert(decreases_to!(a => a@[n]));
        }
        _ => {}
    }
}
pub open spec fn payload_res(v: Value, p: Option<Vec<u8>>) -> bool { match v { Value::Bytes(b) => p == Some(b), Value::Null => p is None, _ => false } }
pub open spec fn is_bytes_or_null(v: Value) -> bool { v is Bytes || v is Null }
pub open spec fn opt_bytes_cv(p: Option<Vec<u8>>) -> CV { match p { Some(b) => CV::Bytes(b@), None => CV::Null } }
pub open spec fn in_i64(i: int) -> bool { i64::MIN <= i <= i64::MAX }

pub assume_specification [ <i64 as TryFrom<Integer>>::try_from ] (i: Integer) -> (r: core::result::Result<i64, <i64 as TryFrom<Integer>>::Error>)
    ensures in_i64(int_val(i)) ==> r == Ok::<i64, <i64 as TryFrom<Integer>>::Error>(int_val(i) as i64),
            !in_i64(int_val(i)) ==> r is Err;
pub assume_specification [ <u64 as TryFrom<Integer>>::try_from ] (i: Integer) -> (r: core::result::Result<u64, <u64 as TryFrom<Integer>>::Error>)
    ensures (0 <= int_val(i) <= u64::MAX) ==> r == Ok::<u64, <u64 as TryFrom<Integer>>::Error>(int_val(i) as u64),
            !(0 <= int_val(i) <= u64::MAX) ==> r is Err;
pub assume_specification [ <Value as From<i64>>::from ] (i: i64) -> (r: Value)
    ensures r matches Value::Integer(x) && int_val(x) == i;
pub assume_specification [ <Value as From<u64>>::from ] (i: u64) -> (r: Value)
    ensures r matches Value::Integer(x) && int_val(x) == i;
pub assume_specification [ <Integer as From<i64>>::from ] (i: i64) -> (r: Integer)
    ensures int_val(r) == i;

pub broadcast axiom fn axiom_question_mark_uses_from<F: From<E>, E>(e: E, e2: F)
    ensures #[trigger] vstd::std_specs::control_flow::spec_from::<F, E>(e, e2) ==> call_ensures(<F as From<E>>::from, (e,), e2);

// ---------------- strings / ordering (trusted std facts)
pub uninterp spec fn utf8(s: Seq<char>) -> Seq<u8>;
pub broadcast axiom fn axiom_utf8_injective(a: Seq<char>, b: Seq<char>)
    ensures #[trigger] utf8(a) == #[trigger] utf8(b) ==> a == b;
pub broadcast axiom fn axiom_string_ext(a: String, b: String)
    ensures #[trigger] a@ == #[trigger] b@ ==> a == b;
pub open spec fn lex_cmp(a: Seq<u8>, b: Seq<u8>) -> Ordering
    decreases a.len()
{
    if a.len() == 0 { if b.len() == 0 { Ordering::Equal } else { Ordering::Less } }
    else if b.len() == 0 { Ordering::Greater }
    else if a[0] < b[0] { Ordering::Less }
    else if a[0] > b[0] { Ordering::Greater }
    else { lex_cmp(a.skip(1), b.skip(1)) }
}
pub proof fn lemma_lex_refl(a: Seq<u8>) ensures lex_cmp(a, a) is Equal decreases a.len() { if a.len() > 0 { lemma_lex_refl(a.skip(1)); } }
pub proof fn lemma_lex_eq(a: Seq<u8>, b: Seq<u8>) requires lex_cmp(a, b) is Equal ensures a == b decreases a.len() {
    if a.len() > 0 && b.len() > 0 { lemma_lex_eq(a.skip(1), b.skip(1)); assert(a =~= seq![a[0]] + a.skip(1)); assert(b =~= seq![b[0]] + b.skip(1)); } else { assert(a =~= b); }
}
pub proof fn lemma_lex_anti(a: Seq<u8>, b: Seq<u8>) ensures lex_cmp(a, b) is Less <==> lex_cmp(b, a) is Greater decreases a.len() {
    if a.len() > 0 && b.len() > 0 { lemma_lex_anti(a.skip(1), b.skip(1)); }
}
pub proof fn lemma_lex_trans(a: Seq<u8>, b: Seq<u8>, c: Seq<u8>)
    ensures (lex_cmp(a, b) is Less && lex_cmp(b, c) is Less) ==> lex_cmp(a, c) is Less,
            (lex_cmp(a, b) is Less && lex_cmp(b, c) is Equal) ==> lex_cmp(a, c) is Less,
            (lex_cmp(a, b) is Equal && lex_cmp(b, c) is Less) ==> lex_cmp(a, c) is Less,
    decreases a.len()
{
    if a.len() > 0 && b.len() > 0 && c.len() > 0 { lemma_lex_trans(a.skip(1), b.skip(1), c.skip(1)); }
}
pub proof fn lemma_lex_laws()
    ensures
        forall |a: Seq<u8>| #[trigger] lex_cmp(a, a) is Equal,
        forall |a: Seq<u8>, b: Seq<u8>| #[trigger] lex_cmp(a, b) is Equal ==> a == b,
        forall |a: Seq<u8>, b: Seq<u8>| (#[trigger] lex_cmp(a, b) is Less) <==> (lex_cmp(b, a) is Greater),
        forall |a: Seq<u8>, b: Seq<u8>, c: Seq<u8>|
            ((#[trigger] lex_cmp(a, b) is Less && #[trigger] lex_cmp(b, c) is Less) ==> lex_cmp(a, c) is Less) &&
            ((lex_cmp(a, b) is Less && lex_cmp(b, c) is Equal) ==> lex_cmp(a, c) is Less) &&
            ((lex_cmp(a, b) is Equal && lex_cmp(b, c) is Less) ==> lex_cmp(a, c) is Less),
{
    assert forall |a: Seq<u8>| #[trigger] lex_cmp(a, a) is Equal by { lemma_lex_refl(a); }
    assert forall |a: Seq<u8>, b: Seq<u8>| #[trigger] lex_cmp(a, b) is Equal implies a == b by { lemma_lex_eq(a, b); }
    assert forall |a: Seq<u8>, b: Seq<u8>| (#[trigger] lex_cmp(a, b) is Less) <==> (lex_cmp(b, a) is Greater) by { lemma_lex_anti(a, b); }
    assert forall |a: Seq<u8>, b: Seq<u8>, c: Seq<u8>|
            ((#[trigger] lex_cmp(a, b) is Less && #[trigger] lex_cmp(b, c) is Less) ==> lex_cmp(a, c) is Less) &&
            ((lex_cmp(a, b) is Less && lex_cmp(b, c) is Equal) ==> lex_cmp(a, c) is Less) &&
            ((lex_cmp(a, b) is Equal && lex_cmp(b, c) is Less) ==> lex_cmp(a, c) is Less) by { lemma_lex_trans(a, b, c); }
}
pub open spec fn rank(i: i64) -> int { if i >= 0 { i as int } else { 0x8000_0000_0000_0000 + (-1 - i) } }
pub open spec fn int_cmp(x: int, y: int) -> Ordering { if x < y { Ordering::Less } else if x == y { Ordering::Equal } else { Ordering::Greater } }
pub open spec fn text_cmp(x: Seq<char>, y: Seq<char>) -> Ordering {
    if utf8(x).len() != utf8(y).len() { int_cmp(utf8(x).len() as int, utf8(y).len() as int) } else { lex_cmp(utf8(x), utf8(y)) }
}

pub assume_specification [ i64::signum ] (i: i64) -> (r: i64)
    ensures r == (if i > 0 { 1i64 } else if i == 0 { 0i64 } else { -1i64 });
pub assume_specification [ Ordering::then ] (a: Ordering, b: Ordering) -> (r: Ordering)
    ensures r == (if a is Equal { b } else { a });
pub assume_specification [ String::len ] (s: &String) -> (r: usize)
    ensures r == utf8(s@).len();
pub assume_specification [ <String as Ord>::cmp ] (a: &String, b: &String) -> (r: Ordering)
    ensures r == lex_cmp(utf8(a@), utf8(b@));
pub assume_specification<T: Clone> [ <[T]>::to_vec ] (s: &[T]) -> (r: Vec<T>)
    ensures r@.len() == s@.len(), forall |i: int| 0 <= i < s@.len() ==> cloned(s@[i], #[trigger] r@[i]);
pub assume_specification<T> [ <[T]>::reverse ] (s: &mut [T])
    ensures final(s)@.len() == old(s)@.len(), forall |i: int| 0 <= i < old(s)@.len() ==> final(s)@[i] == old(s)@[old(s)@.len() - 1 - i];
/// A-STD: `sort_by` returns a permutation in which no earlier element compares Greater than a later one
/// (std documents this for comparators that are total orders; the comparators used here are proved/assumed lawful, C16)
pub assume_specification<T, F: FnMut(&T, &T) -> Ordering> [ <[T]>::sort_by ] (s: &mut [T], f: F)
    requires forall |a: &T, b: &T| call_requires(f, (a, b)),
    ensures
        final(s)@.len() == old(s)@.len(),
        final(s)@.to_multiset() == old(s)@.to_multiset(),
        forall |i: int, j: int| #![trigger final(s)@[i], final(s)@[j]] 0 <= i < j < final(s)@.len() ==>
            exists |o: Ordering| #![trigger call_ensures(f, (&final(s)@[i], &final(s)@[j]), o)] call_ensures(f, (&final(s)@[i], &final(s)@[j]), o) && !(o is Greater);
// ---- further std functions, specified so that code using them stays within the verifier's reach (A-STD)
pub uninterp spec fn f64_is_finite(f: f64) -> bool;
pub assume_specification [ f64::is_finite ] (f: f64) -> (r: bool)
    ensures r == f64_is_finite(f);
pub assume_specification [ i64::unsigned_abs ] (i: i64) -> (r: u64)
    ensures r as int == (if i >= 0 { i as int } else { -(i as int) });
pub assume_specification [ i64::wrapping_abs ] (i: i64) -> (r: i64)
    ensures r == (if i == i64::MIN { i64::MIN } else if i >= 0 { i } else { (-(i as int)) as i64 });
pub assume_specification<T: PartialEq> [ <[T]>::contains ] (s: &[T], x: &T) -> (r: bool)
    ensures <T as vstd::std_specs::cmp::PartialEqSpec>::obeys_eq_spec() ==> (r <==> exists |i: int| 0 <= i < s@.len() && vstd::std_specs::cmp::PartialEqSpec::eq_spec(&#[trigger] s@[i], x));
pub assume_specification<T: Ord> [ <[T]>::binary_search ] (s: &[T], x: &T) -> (r: core::result::Result<usize, usize>)
    ensures
        r matches Ok(i) ==> (i < s@.len() && (<T as vstd::std_specs::cmp::OrdSpec>::obeys_cmp_spec() ==> vstd::std_specs::cmp::OrdSpec::cmp_spec(&s@[i as int], x) is Equal)),
        r matches Err(i) ==> i <= s@.len();
pub assume_specification<T, E, U, F: FnOnce(T) -> core::result::Result<U, E>> [ core::result::Result::<T, E>::and_then ] (r: core::result::Result<T, E>, f: F) -> (o: core::result::Result<U, E>)
    requires r matches Ok(t) ==> call_requires(f, (t,)),
    ensures match r { Ok(t) => call_ensures(f, (t,), o), Err(e) => o == Err::<U, E>(e) };
pub assume_specification<F: FnOnce() -> Ordering> [ Ordering::then_with ] (a: Ordering, f: F) -> (r: Ordering)
    requires a is Equal ==> call_requires(f, ()),
    ensures if a is Equal { call_ensures(f, (), r) } else { r == a };
pub assume_specification<T, U, F: FnOnce(T) -> U> [ Option::<T>::map_or ] (o: Option<T>, d: U, f: F) -> (r: U)
    requires o matches Some(x) ==> call_requires(f, (x,)),
    ensures match o { Some(x) => call_ensures(f, (x,), r), None => r == d };
/// `i64::abs` overflows (panics in builds with overflow checks) on i64::MIN
pub assume_specification [ i64::abs ] (x: i64) -> (r: i64)
    requires x != i64::MIN,
    ensures r == (if x < 0 { -x } else { x as int });
pub assume_specification<T, F: FnOnce(T) -> bool> [ Option::<T>::is_some_and ] (o: Option<T>, f: F) -> (r: bool)
    requires o matches Some(x) ==> call_requires(f, (x,)),
    ensures match o { Some(x) => call_ensures(f, (x,), r), None => !r };
pub assume_specification<T> [ Option::<T>::or ] (o: Option<T>, b: Option<T>) -> (r: Option<T>)
    ensures r == (if o is Some { o } else { b });
pub assume_specification<T, E, F: FnOnce(E) -> T> [ Result::<T, E>::unwrap_or_else ] (o: Result<T, E>, f: F) -> (r: T)
    requires o matches Err(e) ==> call_requires(f, (e,)),
    ensures match o { Ok(x) => r == x, Err(e) => call_ensures(f, (e,), r) };
pub assume_specification<T: core::ops::Deref> [ Option::<T>::as_deref ] (o: &Option<T>) -> (r: Option<&<T as core::ops::Deref>::Target>)
    ensures r is Some <==> o is Some, o matches Some(x) ==> call_ensures(<T as core::ops::Deref>::deref, (&x,), r->0);
pub assume_specification<T, P: FnOnce(&T) -> bool> [ Option::<T>::filter ] (o: Option<T>, p: P) -> (r: Option<T>)
    requires o matches Some(x) ==> call_requires(p, (&x,)),
    ensures match o { Some(x) => (exists |b: bool| call_ensures(p, (&x,), b) && r == (if b { Some(x) } else { None::<T> })), None => r is None };
/// `&[]` (an empty array literal unsized to a slice) views as the empty sequence - Seq extensionality the solver does not apply on
/// its own when the value only flows into a spec function; broadcast in the modules that build to-be-signed / MACed structures
pub broadcast proof fn lemma_empty_array_view(a: [u8; 0])
    ensures #[trigger] a@ == Seq::<u8>::empty(),
{ assert(a@ =~= Seq::<u8>::empty()); }
pub uninterp spec fn trimmed(s: Seq<char>) -> Seq<char>;
pub uninterp spec fn count_char(s: Seq<char>, c: char) -> nat;
pub assume_specification [ str::trim ] (s: &str) -> (r: &str)
    ensures r@ == trimmed(s@);

pub uninterp spec fn enc(v: CV) -> Seq<u8>;
#[verifier::external_body]
pub fn into_writer_vec(value: &Value, writer: &mut Vec<u8>) -> (r: core::result::Result<(), cbor::ser::Error<<Vec<u8> as ciborium_io::Write>::Error>>)
    ensures r is Ok, final(writer)@ == old(writer)@ + enc(vv(*value))
{ cbor::ser::into_writer(value, writer) }
pub uninterp spec fn parse(b: Seq<u8>) -> Option<(Value, int)>;
#[verifier::external_body]
pub fn from_reader_slice(slice: &mut &[u8]) -> (r: core::result::Result<Value, cbor::de::Error<ciborium_io::EndOfFile>>)
    ensures
        match parse(old(slice)@) {
            Some((v, n)) => r == Ok::<Value, cbor::de::Error<ciborium_io::EndOfFile>>(v) && 0 < n <= old(slice)@.len() && final(slice)@ == old(slice)@.subrange(n, old(slice)@.len() as int),
            None => r is Err,
        }
{ cbor::de::from_reader(slice) }
// A-BTREE-WF: on well-formed registry labels (PrivateUse(i) only for unregistered i) the hand-written Ord is a total order
// consistent with Eq (proved: lemma_regp_wf_order), hence BTreeSet behaves as a mathematical set of them (assumed here).
#[verifier::external_body]
pub fn regp_set_contains<T: crate::iana::EnumI64 + crate::iana::WithPrivateRange>(s: &alloc::collections::BTreeSet<crate::RegisteredLabelWithPrivate<T>>, k: &crate::RegisteredLabelWithPrivate<T>) -> (r: bool)
    requires crate::common::wf_regp(*k), forall |x: crate::RegisteredLabelWithPrivate<T>| s@.contains(x) ==> crate::common::wf_regp(x),
    ensures r == s@.contains(*k),
{ s.contains(k) }
#[verifier::external_body]
pub fn regp_set_insert<T: crate::iana::EnumI64 + crate::iana::WithPrivateRange>(s: &mut alloc::collections::BTreeSet<crate::RegisteredLabelWithPrivate<T>>, k: crate::RegisteredLabelWithPrivate<T>) -> (r: bool)
    requires crate::common::wf_regp(k), forall |x: crate::RegisteredLabelWithPrivate<T>| old(s)@.contains(x) ==> crate::common::wf_regp(x),
    ensures final(s)@ == old(s)@.insert(k), r == !old(s)@.contains(k),
{ s.insert(k) }
/// A-STD: `Vec<u8>: Ord` is lexicographic byte order
#[verifier::external_body]
pub fn bytes_cmp(a: &Vec<u8>, b: &Vec<u8>) -> (r: Ordering)
    ensures r == lex_cmp(a@, b@)
{ a.cmp(b) }
#[verifier::external_body]
pub fn str_ne_string(a: &str, b: &str) -> (r: bool)
    ensures r == (a@ != b@)
{ a != b }
#[verifier::external_body]
pub fn str_count_matches(s: &str, c: char) -> (r: usize)
    ensures r == count_char(s@, c)
{ s.matches(c).count() }
}
}
