# additional edits for the C02/C09/C13 chain probe
def patch(EDITS):
    def add(m,old,new): EDITS.append((m,old,new))
    # read_to_value + from_slice + to_vec contracts
    add('common',"""fn read_to_value(mut slice: &[u8]) -> Result<Value> {
    let value = crate::vprelude::from_reader_slice(&mut slice)?;""","""pub open spec fn parse_all(b: Seq<u8>) -> Option<Value> {
    match crate::vprelude::parse(b) { Some((v, n)) => if n == b.len() { Some(v) } else { None }, None => None }
}
fn read_to_value(mut slice: &[u8]) -> (r: Result<Value>)
    ensures
        match crate::vprelude::parse(slice@) {
            Some((v, n)) => if n == slice@.len() { r == Ok::<Value, CoseError>(v) } else { r matches Err(e) && e is ExtraneousData },
            None => r matches Err(e) && e is DecodeFailed,
        }
{
    broadcast use axiom_question_mark_uses_from;
    let value = crate::vprelude::from_reader_slice(&mut slice)?;""")
    add('common',"""    fn from_slice(slice: &[u8]) -> Result<Self> {
        Self::from_cbor_value(read_to_value(slice)?)""","""    fn from_slice(slice: &[u8]) -> (r: Result<Self>)
        ensures
            match parse_all(slice@) { Some(v) => Self::dec_rel(v, r), None => r is Err },
    {
        broadcast use axiom_question_mark_uses_from;
        Self::from_cbor_value(read_to_value(slice)?)""")
    # from_cbor_bstr contract
    add('header',"""    pub fn from_cbor_bstr(val: Value) -> Result<Self> {
        let data = val.try_as_bytes()?;""","""    pub fn from_cbor_bstr(val: Value) -> (r: Result<Self>)
        ensures
            !(val is Bytes) ==> r is Err,
            val matches Value::Bytes(d) ==> (r matches Ok(p) ==> p.original_data == Some(d)),
            val matches Value::Bytes(d) ==> (r is Ok <==> prot_bytes_ok(d@)),
    {
        broadcast use axiom_question_mark_uses_from;
        let data = val.try_as_bytes()?;""")
    add('header',"""impl ProtectedHeader {
    /// Constructor from a [`Value`] that holds a `bstr` encoded header.""","""pub open spec fn hdr_value_ok(v: Value) -> bool { v matches Value::Map(mv) && hdr_wf(mv@) }
pub open spec fn prot_bytes_ok(d: Seq<u8>) -> bool {
    d.len() == 0 || (crate::common::parse_all(d) matches Some(v) && hdr_value_ok(v))
}
pub open spec fn prot_value_ok(v: Value) -> bool { v matches Value::Bytes(d) && prot_bytes_ok(d@) }
impl ProtectedHeader {
    /// Constructor from a [`Value`] that holds a `bstr` encoded header.""")
    # CoseSign1 decode relation
    add('sign',"""impl AsCborValue for CoseSign1 {
    fn from_cbor_value(value: Value) -> Result<Self> {
        let mut a = value.try_as_array()?;""","""pub open spec fn sign1_wf(a: Seq<Value>) -> bool {
    a.len() == 4 && crate::header::prot_value_ok(a[0]) && crate::header::hdr_value_ok(a[1]) && (a[2] is Bytes || a[2] is Null) && a[3] is Bytes
}
impl AsCborValue for CoseSign1 {
    open spec fn dec_rel(value: Value, r: Result<Self>) -> bool {
        (!(value is Array) ==> r is Err)
        && (value matches Value::Array(a) ==> (r is Ok <==> sign1_wf(a@)))
        && (value matches Value::Array(a) ==> (r matches Ok(x) ==> (
               a@[0] == Value::Bytes(x.protected.original_data->0) && x.protected.original_data is Some
            && (a@[2] matches Value::Bytes(b) ==> x.payload == Some(b))
            && (a@[2] is Null ==> x.payload is None)
            && a@[3] == Value::Bytes(x.signature))))
    }
    fn from_cbor_value(value: Value) -> Result<Self> {
        broadcast use crate::vprelude::axiom_question_mark_uses_from;
        let mut a = value.try_as_array()?;""")
