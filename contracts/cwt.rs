// Copyright 2021 Google LLC
//
// Licensed under the Apache License, Version 2.0 (the "License");
// you may not use this file except in compliance with the License.
// You may obtain a copy of the License at
//
//      http://www.apache.org/licenses/LICENSE-2.0
//
// Unless required by applicable law or agreed to in writing, software
// distributed under the License is distributed on an "AS IS" BASIS,
// WITHOUT WARRANTIES OR CONDITIONS OF ANY KIND, either express or implied.
// See the License for the specific language governing permissions and
// limitations under the License.
//
////////////////////////////////////////////////////////////////////////////////



use crate::{
    cbor::value::Value,
    common::AsCborValue,
    iana,
    iana::{EnumI64, WithPrivateRange},
    util::{cbor_type_error, ValueTryAs},
    CoseError,
};
use alloc::{collections::BTreeSet, string::String, vec::Vec};
use core::convert::TryInto;


/// Number of seconds since UNIX epoch.
#[derive(Clone, Debug, PartialEq)]
pub enum Timestamp {
    WholeSeconds(i64),
    FractionalSeconds(f64),
}

impl AsCborValue for Timestamp {
    fn from_cbor_value(value: Value) -> Result<Self, CoseError> {
        match value {
            Value::Integer(i) => Ok(Timestamp::WholeSeconds(i.try_into()?)),
            Value::Float(f) => Ok(Timestamp::FractionalSeconds(f)),
            _ => cbor_type_error(&value, "int/float"),
        }
    }
    fn to_cbor_value(self) -> Result<Value, CoseError> {
        Ok(match self {
            Timestamp::WholeSeconds(t) => Value::Integer(t.into()),
            Timestamp::FractionalSeconds(f) => Value::Float(f),
        })
    }
}

/// Claim name.
pub type ClaimName = crate::RegisteredLabelWithPrivate<iana::CwtClaimName>;

/// Structure representing a CWT Claims Set.
#[verifier::external_derive(Clone)]
#[derive(Clone, Debug, Default, PartialEq)]
pub struct ClaimsSet {
    /// Issuer
    pub issuer: Option<String>,
    /// Subject
    pub subject: Option<String>,
    /// Audience
    pub audience: Option<String>,
    /// Expiration Time
    pub expiration_time: Option<Timestamp>,
    /// Not Before
    pub not_before: Option<Timestamp>,
    /// Issued At
    pub issued_at: Option<Timestamp>,
    /// CWT ID
    pub cwt_id: Option<Vec<u8>>,
    /// Any additional claims.
    pub rest: Vec<(ClaimName, Value)>,
}

impl crate::CborSerializable for ClaimsSet {}

const ISS: ClaimName = ClaimName::Assigned(iana::CwtClaimName::Iss);
const SUB: ClaimName = ClaimName::Assigned(iana::CwtClaimName::Sub);
const AUD: ClaimName = ClaimName::Assigned(iana::CwtClaimName::Aud);
const EXP: ClaimName = ClaimName::Assigned(iana::CwtClaimName::Exp);
const NBF: ClaimName = ClaimName::Assigned(iana::CwtClaimName::Nbf);
const IAT: ClaimName = ClaimName::Assigned(iana::CwtClaimName::Iat);
const CTI: ClaimName = ClaimName::Assigned(iana::CwtClaimName::Cti);

impl AsCborValue for ClaimsSet {
    fn from_cbor_value(value: Value) -> Result<Self, CoseError> {
        let m = match value {
            Value::Map(m) => m,
            v => return cbor_type_error(&v, "map"),
        };

        let mut claims = Self::default();
        let mut seen = BTreeSet::new();
        for (n, value) in m.into_iter() {
            // The `ciborium` CBOR library does not police duplicate map keys, so do it here.
            let name = ClaimName::from_cbor_value(n)?;
            if seen.contains(&name) {
                return Err(CoseError::DuplicateMapKey);
            }
            seen.insert(name.clone());
            match name {
                x if x == ISS => claims.issuer = Some(value.try_as_string()?),
                x if x == SUB => claims.subject = Some(value.try_as_string()?),
                x if x == AUD => claims.audience = Some(value.try_as_string()?),
                x if x == EXP => claims.expiration_time = Some(Timestamp::from_cbor_value(value)?),
                x if x == NBF => claims.not_before = Some(Timestamp::from_cbor_value(value)?),
                x if x == IAT => claims.issued_at = Some(Timestamp::from_cbor_value(value)?),
                x if x == CTI => claims.cwt_id = Some(value.try_as_bytes()?),
                name => claims.rest.push((name, value)),
            }
        }
        Ok(claims)
    }

    fn to_cbor_value(self) -> Result<Value, CoseError> {
        let mut map = Vec::new();
        if let Some(iss) = self.issuer {
            map.push((ISS.to_cbor_value()?, Value::Text(iss)));
        }
        if let Some(sub) = self.subject {
            map.push((SUB.to_cbor_value()?, Value::Text(sub)));
        }
        if let Some(aud) = self.audience {
            map.push((AUD.to_cbor_value()?, Value::Text(aud)));
        }
        if let Some(exp) = self.expiration_time {
            map.push((EXP.to_cbor_value()?, exp.to_cbor_value()?));
        }
        if let Some(nbf) = self.not_before {
            map.push((NBF.to_cbor_value()?, nbf.to_cbor_value()?));
        }
        if let Some(iat) = self.issued_at {
            map.push((IAT.to_cbor_value()?, iat.to_cbor_value()?));
        }
        if let Some(cti) = self.cwt_id {
            map.push((CTI.to_cbor_value()?, Value::Bytes(cti)));
        }
        for (label, value) in self.rest {
            map.push((label.to_cbor_value()?, value));
        }
        Ok(Value::Map(map))
    }
}

/// Builder for [`ClaimsSet`] objects.
#[derive(Default)]
pub struct ClaimsSetBuilder(ClaimsSet);

impl ClaimsSetBuilder {
    
        /// Constructor for builder.
        pub fn new() -> Self {
            Self(<ClaimsSet>::default())
        }
        /// Build the completed object.
        pub fn build(self) -> ClaimsSet {
            self.0
        }
    
    
        /// Set the associated field.
        #[must_use]
        pub fn issuer(self, issuer: String) -> Self { let mut self_ = self;
            self_.0.issuer = Some(issuer);
            self_
        }
    
    
        /// Set the associated field.
        #[must_use]
        pub fn subject(self, subject: String) -> Self { let mut self_ = self;
            self_.0.subject = Some(subject);
            self_
        }
    
    
        /// Set the associated field.
        #[must_use]
        pub fn audience(self, audience: String) -> Self { let mut self_ = self;
            self_.0.audience = Some(audience);
            self_
        }
    
    
        /// Set the associated field.
        #[must_use]
        pub fn expiration_time(self, expiration_time: Timestamp) -> Self { let mut self_ = self;
            self_.0.expiration_time = Some(expiration_time);
            self_
        }
    
    
        /// Set the associated field.
        #[must_use]
        pub fn not_before(self, not_before: Timestamp) -> Self { let mut self_ = self;
            self_.0.not_before = Some(not_before);
            self_
        }
    
    
        /// Set the associated field.
        #[must_use]
        pub fn issued_at(self, issued_at: Timestamp) -> Self { let mut self_ = self;
            self_.0.issued_at = Some(issued_at);
            self_
        }
    
    
        /// Set the associated field.
        #[must_use]
        pub fn cwt_id(self, cwt_id: Vec<u8>) -> Self { let mut self_ = self;
            self_.0.cwt_id = Some(cwt_id);
            self_
        }
    

    /// Set a claim name:value pair.
    ///
    /// # Panics
    ///
    /// This function will panic if it used to set a claim with name from the range [1, 7].
    #[must_use]
    pub fn claim(self, name: iana::CwtClaimName, value: Value) ->« (r:» Self«)
        requires !(1 <= name.spec_to_i64() <= 7),
        ensures r.inner() == (ClaimsSet { rest: r.inner().rest, ..self.inner() }), r.inner().rest@ == self.inner().rest@.push((ClaimName::Assigned(name), value)),» { let mut self_ = self;
        if name.to_i64() >= iana::CwtClaimName::Iss.to_i64()
            && name.to_i64() <= iana::CwtClaimName::Cti.to_i64()
        {
            panic!("claim() method used to set core claim"); // safe: invalid input
        }
        self_.0.rest.push((ClaimName::Assigned(name), value));
        self_
    }

    /// Set a claim name:value pair where the `name` is text.
    #[must_use]
    pub fn text_claim(self, name: String, value: Value) ->« (r:» Self«)
        ensures r.inner() == (ClaimsSet { rest: r.inner().rest, ..self.inner() }), r.inner().rest@ == self.inner().rest@.push((ClaimName::Text(name), value)),» { let mut self_ = self;
        self_.0.rest.push((ClaimName::Text(name), value));
        self_
    }

    /// Set a claim  where the claim key is a numeric value from the private use range.
    ///
    /// # Panics
    ///
    /// This function will panic if it is used to set a claim with a key value outside of the
    /// private use range.
    #[must_use]
    pub fn private_claim(self, id: i64, value: Value) ->« (r:» Self«)
        requires id < -65536,
        ensures r.inner() == (ClaimsSet { rest: r.inner().rest, ..self.inner() }), r.inner().rest@ == self.inner().rest@.push((ClaimName::PrivateUse(id), value)),» { let mut self_ = self;
        assert!(iana::CwtClaimName::is_private(id));
        self_.0.rest.push((ClaimName::PrivateUse(id), value));
        self_
    }
}
