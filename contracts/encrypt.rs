// Copyright 2021 Google LLC
//
// Licensed under the Apache License, Version 2.0 (the "License");
// you may not use this file except in compliance with the License.
// You may obtain a copy of the License at
//
//      http://www.apache.org/licenses/LICENSE-2.0
//
// Unless required by applicable law or agreed to in writing, software
// distributed under the License is distributed on an "AS IS" BASIS,
// WITHOUT WARRANTIES OR CONDITIONS OF ANY KIND, either express or implied.
// See the License for the specific language governing permissions and
// limitations under the License.
//
////////////////////////////////////////////////////////////////////////////////



use crate::{
    cbor,
    cbor::value::Value,
    common::AsCborValue,
    iana,
    util::{cbor_type_error, to_cbor_array, ValueTryAs},
    CoseError, Header, ProtectedHeader, Result,
};
use alloc::{borrow::ToOwned, vec, vec::Vec};


/// Structure representing the recipient of encrypted data.
///
/// ```cddl
///  COSE_Recipient = [
///      Headers,
///      ciphertext : bstr / nil,
///      ? recipients : [+COSE_recipient]
///  ]
/// ```
#[verifier::external_derive(Clone)]
#[derive(Clone, Debug, Default, PartialEq)]
pub struct CoseRecipient {
    pub protected: ProtectedHeader,
    pub unprotected: Header,
    pub ciphertext: Option<Vec<u8>>,
    pub recipients: Vec<CoseRecipient>,
}

impl crate::CborSerializable for CoseRecipient {}«use crate::header::{prot_ok, prot_res, hdr_ok, hdr_res, hdr_cv, hdr_encodable};
// COSE_recipient = [ Headers, ciphertext: bstr / nil, ? recipients: [+COSE_recipient] ]  (recursive)
pub open spec fn recipient_ok(v: Value) -> bool
    decreases v, 1nat
{
    v matches Value::Array(a) && (a@.len() == 3 || a@.len() == 4) && prot_ok(a@[0], 0) && hdr_ok(a@[1], 0) && is_bytes_or_null(a@[2])
    && (a@.len() == 4 ==> recipients_ok(a@[3]))
}
pub open spec fn recipients_ok(v: Value) -> bool
    decreases v, 0nat
{ v matches Value::Array(a) && forall |j: int| 0 <= j < a@.len() ==> recipient_ok(#[trigger] a@[j]) }
pub open spec fn recipient_res(v: Value, x: CoseRecipient) -> bool
    decreases v, 1nat
{
    v matches Value::Array(a) && a@.len() >= 3 && prot_res(a@[0], 0, x.protected) && hdr_res(a@[1], 0, x.unprotected) && payload_res(a@[2], x.ciphertext)
    && (if a@.len() == 4 { recipients_res(a@[3], x.recipients@) } else { x.recipients@.len() == 0 })
}
pub open spec fn recipients_res(v: Value, s: Seq<CoseRecipient>) -> bool
    decreases v, 0nat
{ v matches Value::Array(a) && a@.len() == s.len() && forall |j: int| 0 <= j < a@.len() ==> recipient_res(#[trigger] a@[j], s[j]) }
pub open spec fn recipient_cv(x: CoseRecipient) -> CV
    decreases x, 1nat
{
    if x.recipients@.len() == 0 { CV::Array(seq![CV::Bytes(prot_slot(x.protected)), hdr_cv(x.unprotected), opt_bytes_cv(x.ciphertext)]) }
    else { CV::Array(seq![CV::Bytes(prot_slot(x.protected)), hdr_cv(x.unprotected), opt_bytes_cv(x.ciphertext), recipients_cv(x.recipients@)]) }
}
pub open spec fn recipients_cv(s: Seq<CoseRecipient>) -> CV
    decreases s, 0nat
{ CV::Array(Seq::new(s.len(), |j: int| if 0 <= j < s.len() { recipient_cv(s[j]) } else { CV::Null })) }
pub open spec fn recipient_encodable(x: CoseRecipient) -> bool
    decreases x, 1nat
{ prot_encodable(x.protected) && hdr_encodable(x.unprotected) && recipients_encodable(x.recipients@) }
pub open spec fn recipients_encodable(s: Seq<CoseRecipient>) -> bool
    decreases s, 0nat
{ forall |j: int| 0 <= j < s.len() ==> recipient_encodable(#[trigger] s[j]) }
»

impl AsCborValue for CoseRecipient {«
    open spec fn dec_rel(value: Value, r: Result<Self>) -> bool { (r is Ok <==> recipient_ok(value)) && (r matches Ok(x) ==> recipient_res(value, x)) }
    open spec fn enc_rel(self, r: Result<Value>) -> bool { (r is Ok <==> recipient_encodable(self)) && (r matches Ok(v) ==> vv(v) == recipient_cv(self)) }»
    fn from_cbor_value(value: Value) -> Result<Self> {«
        broadcast use crate::vprelude::axiom_question_mark_uses_from;»
        let mut a = value.try_as_array()?;
        if a.len() != 3 && a.len() != 4 {
            return Err(CoseError::UnexpectedItem(
                "array",
                "array with 3 or 4 items",
            ));
        }

        // Remove array elements in reverse order to avoid shifts.
        let recipients = if a.len() == 4 {
            a.remove(3)
                .try_as_array_then_convert(crate::vstubs::recipient_from_cbor_value__stub)?
        } else {
            Vec::new()
        };

        Ok(Self {
            recipients,
            ciphertext: match a.remove(2) {
                Value::Bytes(b) => Some(b),
                Value::Null => None,
                v => return cbor_type_error(&v, "bstr / null"),
            },
            unprotected: Header::from_cbor_value(a.remove(1))?,
            protected: ProtectedHeader::from_cbor_bstr(a.remove(0))?,
        })
    }

    fn to_cbor_value(self) -> Result<Value> {«
        broadcast use crate::vprelude::axiom_question_mark_uses_from;»
        let mut v = vec![
            self.protected.cbor_bstr()?,
            self.unprotected.to_cbor_value()?,
            match self.ciphertext {
                None => Value::Null,
                Some(b) => Value::Bytes(b),
            },
        ];
        if !self.recipients.is_empty() {
            v.push(crate::vstubs::recipients_to_cbor_array__stub(self.recipients)?);
        }«
        proof { lemma_vv_array(v); assert(vv_seq(v@) =~= recipient_cv(self)->Array_0); }»
        Ok(Value::Array(v))
    }
}

impl CoseRecipient {
    /// Decrypt the `ciphertext` value with an AEAD, using `cipher` to decrypt the cipher text and
    /// combined AAD as per RFC 8152 section 5.3.
    ///
    /// # Panics
    ///
    /// This function will panic if no `ciphertext` is available. It will also panic
    /// if the `context` parameter does not refer to a recipient context.
    pub fn decrypt<F, E>(
        &self,
        context: EncryptionContext,
        external_aad: &[u8],
        cipher: F,
    ) ->« (r:» Result<Vec<u8>, E>«)»
    where
        F: FnOnce(&[u8], &[u8]) -> Result<Vec<u8>, E>,«
        requires self.ciphertext is Some, is_recipient_ctx(context), prot_encodable(self.protected), forall |a: &[u8], b: &[u8]| call_requires(cipher, (a, b)),
        ensures exists |c: &[u8], d: &[u8]| c@ == self.ciphertext->0@ && d@ == enc_aad(context, self.protected, external_aad@) && call_ensures(cipher, (c, d), r),»
    {
        let ct = self.ciphertext.as_ref().unwrap(/* safe: documented */);
        match context {
            EncryptionContext::EncRecipient
            | EncryptionContext::MacRecipient
            | EncryptionContext::RecRecipient => {}
            _ => panic!("unsupported encryption context {:?}", context), // safe: documented
        }
        let aad = enc_structure_data(context, self.protected.clone(), external_aad);
        cipher(ct, &aad)
    }
}

/// Builder for [`CoseRecipient`] objects.
#[derive(Debug, Default)]
pub struct CoseRecipientBuilder(CoseRecipient);

impl CoseRecipientBuilder {
    
        /// Constructor for builder.
        pub fn new() -> Self {
            Self(<CoseRecipient>::default())
        }
        /// Build the completed object.
        pub fn build(self) -> CoseRecipient {
            self.0
        }
    
    
        /// Set the associated field.
        #[must_use]
        pub fn protected(self, hdr: crate::Header) -> Self { let mut self_ = self;
            self_.0.protected = crate::ProtectedHeader {
                original_data: None,
                header: hdr,
            };
            self_
        }
    
    
        /// Set the associated field.
        #[must_use]
        pub fn unprotected(self, unprotected: Header) -> Self { let mut self_ = self;
            self_.0.unprotected = unprotected;
            self_
        }
    
    
        /// Set the associated field.
        #[must_use]
        pub fn ciphertext(self, ciphertext: Vec<u8>) -> Self { let mut self_ = self;
            self_.0.ciphertext = Some(ciphertext);
            self_
        }
    

    /// Add a [`CoseRecipient`].
    #[must_use]
    pub fn add_recipient(self, recipient: CoseRecipient) ->« (r:» Self«)
        ensures r.inner() == (CoseRecipient { recipients: r.inner().recipients, ..self.inner() }), r.inner().recipients@ == self.inner().recipients@.push(recipient),» { let mut self_ = self;
        self_.0.recipients.push(recipient);
        self_
    }

    /// Calculate the ciphertext value with an AEAD, using `cipher` to generate the encrypted bytes
    /// from the plaintext and combined AAD (in that order) as per RFC 8152 section 5.3.  Any
    /// protected header values should be set before using this method.
    ///
    /// # Panics
    ///
    /// This function will panic if the `context` parameter does not refer to a recipient context.
    #[must_use]
    pub fn create_ciphertext<F>(
        self,
        context: EncryptionContext,
        plaintext: &[u8],
        external_aad: &[u8],
        cipher: F,
    ) ->« (r:» Self«)»
    where
        F: FnOnce(&[u8], &[u8]) -> Vec<u8>,«
        requires is_recipient_ctx(context), prot_encodable(self.inner().protected), forall |a: &[u8], b: &[u8]| call_requires(cipher, (a, b)),
        ensures exists |pt: &[u8], d: &[u8], out: Vec<u8>| pt@ == plaintext@ && d@ == enc_aad(context, self.inner().protected, external_aad@) && call_ensures(cipher, (pt, d), out)
            && r.inner() == (CoseRecipient { ciphertext: Some(out), ..self.inner() }),»
    {
        let aad = self.aad(context, external_aad);
        self.ciphertext(cipher(plaintext, &aad))
    }

    /// Calculate the ciphertext value with an AEAD, using `cipher` to generate the encrypted bytes
    /// from the plaintext and combined AAD (in that order) as per RFC 8152 section 5.3.  Any
    /// protected header values should be set before using this method.
    ///
    /// # Panics
    ///
    /// This function will panic if the `context` parameter does not refer to a recipient context.
    pub fn try_create_ciphertext<F, E>(
        self,
        context: EncryptionContext,
        plaintext: &[u8],
        external_aad: &[u8],
        cipher: F,
    ) ->« (r:» Result<Self, E>«)»
    where
        F: FnOnce(&[u8], &[u8]) -> Result<Vec<u8>, E>,«
        requires is_recipient_ctx(context), prot_encodable(self.inner().protected), forall |a: &[u8], b: &[u8]| call_requires(cipher, (a, b)),
        ensures exists |pt: &[u8], d: &[u8], out: Result<Vec<u8>, E>| pt@ == plaintext@ && d@ == enc_aad(context, self.inner().protected, external_aad@) && call_ensures(cipher, (pt, d), out)
            && match out {
                Ok(o) => r matches Ok(b) && b.inner() == (CoseRecipient { ciphertext: Some(o), ..self.inner() }),
                Err(e) => r matches Err(e2) && e2 == e,
            },»
    {«
        broadcast use crate::vprelude::axiom_question_mark_uses_from;»
        let aad = self.aad(context, external_aad);
        Ok(self.ciphertext(cipher(plaintext, &aad)?))
    }

    /// Construct the combined AAD data needed for encryption with an AEAD. Any protected header
    /// values should be set before using this method.
    ///
    /// # Panics
    ///
    /// This function will panic if the `context` parameter does not refer to a recipient context.
    #[must_use]
    fn aad(&self, context: EncryptionContext, external_aad: &[u8]) ->« (r:» Vec<u8>«)
        requires is_recipient_ctx(context), prot_encodable(self.inner().protected),
        ensures r@ == enc_aad(context, self.inner().protected, external_aad@),» {
        match context {
            EncryptionContext::EncRecipient
            | EncryptionContext::MacRecipient
            | EncryptionContext::RecRecipient => {}
            _ => panic!("unsupported encryption context {:?}", context), // safe: documented
        }
        enc_structure_data(context, self.0.protected.clone(), external_aad)
    }
}

/// Structure representing an encrypted object.
///
/// ```cddl
///  COSE_Encrypt = [
///      Headers,
///      ciphertext : bstr / nil,
///      recipients : [+COSE_recipient]
///  ]
///  ```
#[verifier::external_derive(Clone)]
#[derive(Clone, Debug, Default, PartialEq)]
pub struct CoseEncrypt {
    pub protected: ProtectedHeader,
    pub unprotected: Header,
    pub ciphertext: Option<Vec<u8>>,
    pub recipients: Vec<CoseRecipient>,
}

impl crate::CborSerializable for CoseEncrypt {}

impl crate::TaggedCborSerializable for CoseEncrypt {
    #[verifier::external_body] const TAG: u64 = iana::CborTag::CoseEncrypt as u64;
}«pub open spec fn encrypt_ok(v: Value) -> bool {
    v is Array && arr_of(v).len() == 4 && prot_ok(arr_of(v)[0], 0) && hdr_ok(arr_of(v)[1], 0) && is_bytes_or_null(arr_of(v)[2]) && recipients_ok(arr_of(v)[3])
}
pub open spec fn encrypt_res(v: Value, x: CoseEncrypt) -> bool {
    prot_res(arr_of(v)[0], 0, x.protected) && hdr_res(arr_of(v)[1], 0, x.unprotected) && payload_res(arr_of(v)[2], x.ciphertext) && recipients_res(arr_of(v)[3], x.recipients@)
}
pub open spec fn encrypt_cv(x: CoseEncrypt) -> CV {
    CV::Array(seq![CV::Bytes(prot_slot(x.protected)), hdr_cv(x.unprotected), opt_bytes_cv(x.ciphertext), recipients_cv(x.recipients@)])
}
pub open spec fn encrypt_encodable(x: CoseEncrypt) -> bool { prot_encodable(x.protected) && hdr_encodable(x.unprotected) && recipients_encodable(x.recipients@) }
pub proof fn lemma_recipients_array(s: Vec<CoseRecipient>, v: Value)
    requires v is Array, crate::util::iter_enc_ok::<Vec<CoseRecipient>>(s, arr_of(v)),
    ensures recipients_encodable(s@), vv(v) == recipients_cv(s@),
{
    broadcast use crate::util::axiom_iter_enc_ok_vec;
    lemma_vv_value_array(v);
    assert(vv_seq(arr_of(v)) =~= recipients_cv(s@)->Array_0);
}
pub proof fn lemma_recipients_array_err(s: Vec<CoseRecipient>, e: CoseError)
    requires crate::util::iter_enc_err::<Vec<CoseRecipient>>(s, e),
    ensures !recipients_encodable(s@),
{ broadcast use crate::util::axiom_iter_enc_err_vec; }
»

impl AsCborValue for CoseEncrypt {«
    open spec fn dec_rel(value: Value, r: Result<Self>) -> bool { (r is Ok <==> encrypt_ok(value)) && (r matches Ok(x) ==> encrypt_res(value, x)) }
    open spec fn enc_rel(self, r: Result<Value>) -> bool { (r is Ok <==> encrypt_encodable(self)) && (r matches Ok(v) ==> vv(v) == encrypt_cv(self)) }»
    fn from_cbor_value(value: Value) -> Result<Self> {«
        broadcast use crate::vprelude::axiom_question_mark_uses_from;»
        let mut a = value.try_as_array()?;
        if a.len() != 4 {
            return Err(CoseError::UnexpectedItem("array", "array with 4 items"));
        }

        // Remove array elements in reverse order to avoid shifts.
        let recipients = a
            .remove(3)
            .try_as_array_then_convert(CoseRecipient::from_cbor_value)?;
        Ok(Self {
            recipients,
            ciphertext: match a.remove(2) {
                Value::Bytes(b) => Some(b),
                Value::Null => None,
                v => return cbor_type_error(&v, "bstr"),
            },
            unprotected: Header::from_cbor_value(a.remove(1))?,
            protected: ProtectedHeader::from_cbor_bstr(a.remove(0))?,
        })
    }

    fn to_cbor_value(self) -> Result<Value> {«
        broadcast use crate::vprelude::axiom_question_mark_uses_from;
        broadcast use crate::util::axiom_iter_enc_err_vec;»
        «let r = »Ok(Value::Array(vec![
            self.protected.cbor_bstr()?,
            self.unprotected.to_cbor_value()?,
            match self.ciphertext {
                None => Value::Null,
                Some(b) => Value::Bytes(b),
            },
            to_cbor_array(self.recipients)?,
        ]))«;
        proof { let v = r->Ok_0; lemma_vv_value_array(v); lemma_recipients_array(self.recipients, arr_of(v)[3]); assert(vv_seq(arr_of(v)) =~= encrypt_cv(self)->Array_0); }
        r»
    }
}

impl CoseEncrypt {
    /// Decrypt the `ciphertext` value with an AEAD, using `cipher` to decrypt the cipher text and
    /// combined AAD.
    ///
    /// # Panics
    ///
    /// This function will panic if no `ciphertext` is available.
    pub fn decrypt<F, E>(&self, external_aad: &[u8], cipher: F) ->« (r:» Result<Vec<u8>, E>«)»
    where
        F: FnOnce(&[u8], &[u8]) -> Result<Vec<u8>, E>,«
        requires self.ciphertext is Some, prot_encodable(self.protected), forall |a: &[u8], b: &[u8]| call_requires(cipher, (a, b)),
        ensures exists |c: &[u8], d: &[u8]| c@ == self.ciphertext->0@ && d@ == enc_aad(EncryptionContext::CoseEncrypt, self.protected, external_aad@) && call_ensures(cipher, (c, d), r),»
    {
        let ct = self.ciphertext.as_ref().unwrap(/* safe: documented */);
        let aad = enc_structure_data(
            EncryptionContext::CoseEncrypt,
            self.protected.clone(),
            external_aad,
        );
        cipher(ct, &aad)
    }
}

/// Builder for [`CoseEncrypt`] objects.
#[derive(Debug, Default)]
pub struct CoseEncryptBuilder(CoseEncrypt);

impl CoseEncryptBuilder {
    
        /// Constructor for builder.
        pub fn new() -> Self {
            Self(<CoseEncrypt>::default())
        }
        /// Build the completed object.
        pub fn build(self) -> CoseEncrypt {
            self.0
        }
    
    
        /// Set the associated field.
        #[must_use]
        pub fn protected(self, hdr: crate::Header) -> Self { let mut self_ = self;
            self_.0.protected = crate::ProtectedHeader {
                original_data: None,
                header: hdr,
            };
            self_
        }
    
    
        /// Set the associated field.
        #[must_use]
        pub fn unprotected(self, unprotected: Header) -> Self { let mut self_ = self;
            self_.0.unprotected = unprotected;
            self_
        }
    
    
        /// Set the associated field.
        #[must_use]
        pub fn ciphertext(self, ciphertext: Vec<u8>) -> Self { let mut self_ = self;
            self_.0.ciphertext = Some(ciphertext);
            self_
        }
    

    /// Calculate the ciphertext value with an AEAD, using `cipher` to generate the encrypted bytes
    /// from the plaintext and combined AAD (in that order) as per RFC 8152 section 5.3.  Any
    /// protected header values should be set before using this method.
    #[must_use]
    pub fn create_ciphertext<F>(self, plaintext: &[u8], external_aad: &[u8], cipher: F) ->« (r:» Self«)»
    where
        F: FnOnce(&[u8], &[u8]) -> Vec<u8>,«
        requires prot_encodable(self.inner().protected), forall |a: &[u8], b: &[u8]| call_requires(cipher, (a, b)),
        ensures exists |pt: &[u8], d: &[u8], out: Vec<u8>| pt@ == plaintext@ && d@ == enc_aad(EncryptionContext::CoseEncrypt, self.inner().protected, external_aad@) && call_ensures(cipher, (pt, d), out)
            && r.inner() == (CoseEncrypt { ciphertext: Some(out), ..self.inner() }),»
    {
        let aad = enc_structure_data(
            EncryptionContext::CoseEncrypt,
            self.0.protected.clone(),
            external_aad,
        );
        self.ciphertext(cipher(plaintext, &aad))
    }

    /// Calculate the ciphertext value with an AEAD, using `cipher` to generate the encrypted bytes
    /// from the plaintext and combined AAD (in that order) as per RFC 8152 section 5.3.  Any
    /// protected header values should be set before using this method.
    pub fn try_create_ciphertext<F, E>(
        self,
        plaintext: &[u8],
        external_aad: &[u8],
        cipher: F,
    ) ->« (r:» Result<Self, E>«)»
    where
        F: FnOnce(&[u8], &[u8]) -> Result<Vec<u8>, E>,«
        requires prot_encodable(self.inner().protected), forall |a: &[u8], b: &[u8]| call_requires(cipher, (a, b)),
        ensures exists |pt: &[u8], d: &[u8], out: Result<Vec<u8>, E>| pt@ == plaintext@ && d@ == enc_aad(EncryptionContext::CoseEncrypt, self.inner().protected, external_aad@) && call_ensures(cipher, (pt, d), out)
            && match out {
                Ok(o) => r matches Ok(b) && b.inner() == (CoseEncrypt { ciphertext: Some(o), ..self.inner() }),
                Err(e) => r matches Err(e2) && e2 == e,
            },»
    {«
        broadcast use crate::vprelude::axiom_question_mark_uses_from;»
        let aad = enc_structure_data(
            EncryptionContext::CoseEncrypt,
            self.0.protected.clone(),
            external_aad,
        );
        Ok(self.ciphertext(cipher(plaintext, &aad)?))
    }

    /// Add a [`CoseRecipient`].
    #[must_use]
    pub fn add_recipient(self, recipient: CoseRecipient) ->« (r:» Self«)
        ensures r.inner() == (CoseEncrypt { recipients: r.inner().recipients, ..self.inner() }), r.inner().recipients@ == self.inner().recipients@.push(recipient),» { let mut self_ = self;
        self_.0.recipients.push(recipient);
        self_
    }
}

/// Structure representing an encrypted object.
///
/// ```cddl
///  COSE_Encrypt0 = [
///      Headers,
///      ciphertext : bstr / nil,
///  ]
///  ```
#[verifier::external_derive(Clone)]
#[derive(Clone, Debug, Default, PartialEq)]
pub struct CoseEncrypt0 {
    pub protected: ProtectedHeader,
    pub unprotected: Header,
    pub ciphertext: Option<Vec<u8>>,
}

impl crate::CborSerializable for CoseEncrypt0 {}

impl crate::TaggedCborSerializable for CoseEncrypt0 {
    #[verifier::external_body] const TAG: u64 = iana::CborTag::CoseEncrypt0 as u64;
}«pub open spec fn encrypt0_ok(v: Value) -> bool {
    v is Array && arr_of(v).len() == 3 && prot_ok(arr_of(v)[0], 0) && hdr_ok(arr_of(v)[1], 0) && is_bytes_or_null(arr_of(v)[2])
}
pub open spec fn encrypt0_res(v: Value, x: CoseEncrypt0) -> bool {
    prot_res(arr_of(v)[0], 0, x.protected) && hdr_res(arr_of(v)[1], 0, x.unprotected) && payload_res(arr_of(v)[2], x.ciphertext)
}
pub open spec fn encrypt0_cv(x: CoseEncrypt0) -> CV { CV::Array(seq![CV::Bytes(prot_slot(x.protected)), hdr_cv(x.unprotected), opt_bytes_cv(x.ciphertext)]) }
pub open spec fn encrypt0_encodable(x: CoseEncrypt0) -> bool { prot_encodable(x.protected) && hdr_encodable(x.unprotected) }
»

impl AsCborValue for CoseEncrypt0 {«
    open spec fn dec_rel(value: Value, r: Result<Self>) -> bool { (r is Ok <==> encrypt0_ok(value)) && (r matches Ok(x) ==> encrypt0_res(value, x)) }
    open spec fn enc_rel(self, r: Result<Value>) -> bool { (r is Ok <==> encrypt0_encodable(self)) && (r matches Ok(v) ==> vv(v) == encrypt0_cv(self)) }»
    fn from_cbor_value(value: Value) -> Result<Self> {«
        broadcast use crate::vprelude::axiom_question_mark_uses_from;»
        let mut a = value.try_as_array()?;
        if a.len() != 3 {
            return Err(CoseError::UnexpectedItem("array", "array with 3 items"));
        }

        // Remove array elements in reverse order to avoid shifts.
        Ok(Self {
            ciphertext: match a.remove(2) {
                Value::Bytes(b) => Some(b),
                Value::Null => None,
                v => return cbor_type_error(&v, "bstr"),
            },

            unprotected: Header::from_cbor_value(a.remove(1))?,
            protected: ProtectedHeader::from_cbor_bstr(a.remove(0))?,
        })
    }

    fn to_cbor_value(self) -> Result<Value> {«
        broadcast use crate::vprelude::axiom_question_mark_uses_from;»
        «let r = »Ok(Value::Array(vec![
            self.protected.cbor_bstr()?,
            self.unprotected.to_cbor_value()?,
            match self.ciphertext {
                None => Value::Null,
                Some(b) => Value::Bytes(b),
            },
        ]))«;
        proof { let v = r->Ok_0; lemma_vv_value_array(v); assert(vv_seq(arr_of(v)) =~= encrypt0_cv(self)->Array_0); }
        r»
    }
}

impl CoseEncrypt0 {
    /// Decrypt the `ciphertext` value with an AEAD, using `cipher` to decrypt the cipher text and
    /// combined AAD.
    ///
    /// # Panics
    ///
    /// This function will panic if no `ciphertext` is available.
    pub fn decrypt<F, E>(&self, external_aad: &[u8], cipher: F) ->« (r:» Result<Vec<u8>, E>«)»
    where
        F: FnOnce(&[u8], &[u8]) -> Result<Vec<u8>, E>,«
        requires self.ciphertext is Some, prot_encodable(self.protected), forall |a: &[u8], b: &[u8]| call_requires(cipher, (a, b)),
        ensures exists |c: &[u8], d: &[u8]| c@ == self.ciphertext->0@ && d@ == enc_aad(EncryptionContext::CoseEncrypt0, self.protected, external_aad@) && call_ensures(cipher, (c, d), r),»
    {
        let ct = self.ciphertext.as_ref().unwrap(/* safe: documented */);
        let aad = enc_structure_data(
            EncryptionContext::CoseEncrypt0,
            self.protected.clone(),
            external_aad,
        );
        cipher(ct, &aad)
    }
}

/// Builder for [`CoseEncrypt0`] objects.
#[derive(Debug, Default)]
pub struct CoseEncrypt0Builder(CoseEncrypt0);

impl CoseEncrypt0Builder {
    
        /// Constructor for builder.
        pub fn new() -> Self {
            Self(<CoseEncrypt0>::default())
        }
        /// Build the completed object.
        pub fn build(self) -> CoseEncrypt0 {
            self.0
        }
    
    
        /// Set the associated field.
        #[must_use]
        pub fn protected(self, hdr: crate::Header) -> Self { let mut self_ = self;
            self_.0.protected = crate::ProtectedHeader {
                original_data: None,
                header: hdr,
            };
            self_
        }
    
    
        /// Set the associated field.
        #[must_use]
        pub fn unprotected(self, unprotected: Header) -> Self { let mut self_ = self;
            self_.0.unprotected = unprotected;
            self_
        }
    
    
        /// Set the associated field.
        #[must_use]
        pub fn ciphertext(self, ciphertext: Vec<u8>) -> Self { let mut self_ = self;
            self_.0.ciphertext = Some(ciphertext);
            self_
        }
    

    /// Calculate the ciphertext value with an AEAD, using `cipher` to generate the encrypted bytes
    /// from the plaintext and combined AAD (in that order) as per RFC 8152 section 5.3.  Any
    /// protected header values should be set before using this method.
    #[must_use]
    pub fn create_ciphertext<F>(self, plaintext: &[u8], external_aad: &[u8], cipher: F) ->« (r:» Self«)»
    where
        F: FnOnce(&[u8], &[u8]) -> Vec<u8>,«
        requires prot_encodable(self.inner().protected), forall |a: &[u8], b: &[u8]| call_requires(cipher, (a, b)),
        ensures exists |pt: &[u8], d: &[u8], out: Vec<u8>| pt@ == plaintext@ && d@ == enc_aad(EncryptionContext::CoseEncrypt0, self.inner().protected, external_aad@) && call_ensures(cipher, (pt, d), out)
            && r.inner() == (CoseEncrypt0 { ciphertext: Some(out), ..self.inner() }),»
    {
        let aad = enc_structure_data(
            EncryptionContext::CoseEncrypt0,
            self.0.protected.clone(),
            external_aad,
        );
        self.ciphertext(cipher(plaintext, &aad))
    }

    /// Calculate the ciphertext value with an AEAD, using `cipher` to generate the encrypted bytes
    /// from the plaintext and combined AAD (in that order) as per RFC 8152 section 5.3.  Any
    /// protected header values should be set before using this method.
    pub fn try_create_ciphertext<F, E>(
        self,
        plaintext: &[u8],
        external_aad: &[u8],
        cipher: F,
    ) ->« (r:» Result<Self, E>«)»
    where
        F: FnOnce(&[u8], &[u8]) -> Result<Vec<u8>, E>,«
        requires prot_encodable(self.inner().protected), forall |a: &[u8], b: &[u8]| call_requires(cipher, (a, b)),
        ensures exists |pt: &[u8], d: &[u8], out: Result<Vec<u8>, E>| pt@ == plaintext@ && d@ == enc_aad(EncryptionContext::CoseEncrypt0, self.inner().protected, external_aad@) && call_ensures(cipher, (pt, d), out)
            && match out {
                Ok(o) => r matches Ok(b) && b.inner() == (CoseEncrypt0 { ciphertext: Some(o), ..self.inner() }),
                Err(e) => r matches Err(e2) && e2 == e,
            },»
    {«
        broadcast use crate::vprelude::axiom_question_mark_uses_from;»
        let aad = enc_structure_data(
            EncryptionContext::CoseEncrypt0,
            self.0.protected.clone(),
            external_aad,
        );
        Ok(self.ciphertext(cipher(plaintext, &aad)?))
    }
}

/// Possible encryption contexts.
#[derive(Clone, Copy, Debug)]
pub enum EncryptionContext {
    CoseEncrypt,
    CoseEncrypt0,
    EncRecipient,
    MacRecipient,
    RecRecipient,
}«
use crate::vprelude::*;
broadcast use crate::vprelude::lemma_empty_array_view;
use crate::header::{prot_slot, prot_encodable};
pub open spec fn enc_ctx_text(c: EncryptionContext) -> Seq<char> {
    match c {
        EncryptionContext::CoseEncrypt => "Encrypt"@, EncryptionContext::CoseEncrypt0 => "Encrypt0"@, EncryptionContext::EncRecipient => "Enc_Recipient"@,
        EncryptionContext::MacRecipient => "Mac_Recipient"@, EncryptionContext::RecRecipient => "Rec_Recipient"@,
    }
}
pub open spec fn is_recipient_ctx(c: EncryptionContext) -> bool {
    c is EncRecipient || c is MacRecipient || c is RecRecipient
}
/// RFC 8152 section 5.3 Enc_structure
pub open spec fn enc_structure(context: EncryptionContext, protected: Seq<u8>, aad: Seq<u8>) -> CV {
    CV::Array(seq![CV::Text(enc_ctx_text(context)), CV::Bytes(protected), CV::Bytes(aad)])
}
pub open spec fn enc_aad(context: EncryptionContext, protected: ProtectedHeader, aad: Seq<u8>) -> Seq<u8> {
    crate::vprelude::enc(enc_structure(context, prot_slot(protected), aad))
}»

impl EncryptionContext {
    /// Return the context string as per RFC 8152 section 5.3.
    fn text(&self) ->« (r:» &'static str«)
        ensures r@ == enc_ctx_text(*self)» {
        match self {
            EncryptionContext::CoseEncrypt => "Encrypt",
            EncryptionContext::CoseEncrypt0 => "Encrypt0",
            EncryptionContext::EncRecipient => "Enc_Recipient",
            EncryptionContext::MacRecipient => "Mac_Recipient",
            EncryptionContext::RecRecipient => "Rec_Recipient",
        }
    }
}

/// Create a binary blob that will be signed.
//
/// ```cddl
///  Enc_structure = [
///      context : "Encrypt" / "Encrypt0" / "Enc_Recipient" /
///          "Mac_Recipient" / "Rec_Recipient",
///      protected : empty_or_serialized_map,
///      external_aad : bstr
///  ]
/// ```
pub fn enc_structure_data(
    context: EncryptionContext,
    protected: ProtectedHeader,
    external_aad: &[u8],
) ->« (r:» Vec<u8>«)
    requires prot_encodable(protected),
    ensures r@ == enc_aad(context, protected, external_aad@),» {
    let arr = vec![
        Value::Text(context.text().to_owned()),
        protected.cbor_bstr().expect("failed to serialize header"), // safe: always serializable
        Value::Bytes(external_aad.to_vec()),
    ];«
    proof {
        reveal_with_fuel(vv, 3);
        let want = enc_structure(context, prot_slot(protected), external_aad@);
        assert(arr@[2] matches Value::Bytes(b) && b@ =~= external_aad@);
        assert(vv(Value::Array(arr))->Array_0 =~= want->Array_0);
    }»

    let mut data = Vec::new();
    crate::vprelude::into_writer_vec(&Value::Array(arr), &mut data).unwrap(); // safe: always serializable
    data
}
