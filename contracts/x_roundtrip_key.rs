// C07 for COSE_Key / COSE_KeySet: what decoding produces meets the in-memory conditions of key::lemma_key_roundtrip, so a decoded
// key encodes, and whatever its encoding decodes to is view-equal to it; element-wise for key sets.
mod vroundtrip_key {
use vstd::prelude::*;
use crate::*;
use crate::vprelude::*;
use crate::key::*;
use crate::common::{label_of, reg_of, regp_of, wf_regp};
use ciborium::value::Value;
verus!{
/// the extras of a map with distinct labels are distinct, untyped, and come from the map
pub proof fn lemma_params_of_props(m: Seq<(Value, Value)>)
    requires labels_distinct(m),
    ensures
        forall |a: int| 0 <= a < params_of(m).len() ==> !is_typed_key_label((#[trigger] params_of(m)[a]).0) && has_key_label(m, m.len() as int, params_of(m)[a].0),
        forall |a: int, b: int| 0 <= a < b < params_of(m).len() ==> (#[trigger] params_of(m)[a]).0 != (#[trigger] params_of(m)[b]).0,
    decreases m.len()
{
    if m.len() > 0 {
        let p = m.drop_last();
        assert forall |i: int, j: int| 0 <= i < j < p.len() implies #[trigger] label_of(p[i].0) != #[trigger] label_of(p[j].0) by { assert(p[i] == m[i] && p[j] == m[j]); }
        lemma_params_of_props(p);
        let rp = params_of(p); let r = params_of(m);
        assert forall |a: int| 0 <= a < rp.len() implies has_key_label(m, m.len() as int, (#[trigger] rp[a]).0) by {
            let i = choose |i: int| 0 <= i < p.len() && #[trigger] label_of(p[i].0) == Some(rp[a].0);
            assert(p[i] == m[i]);
        }
        assert forall |a: int| 0 <= a < r.len() implies !is_typed_key_label((#[trigger] r[a]).0) && has_key_label(m, m.len() as int, r[a].0) by {
            if a < rp.len() { assert(r[a] == rp[a]); } else { assert(label_of(m[m.len() - 1].0) == Some(r[a].0)); }
        }
        assert forall |a: int, b: int| 0 <= a < b < r.len() implies (#[trigger] r[a]).0 != (#[trigger] r[b]).0 by {
            if b < rp.len() { assert(r[a] == rp[a] && r[b] == rp[b]); }
            else {
                assert(r[a] == rp[a]);
                let i = choose |i: int| 0 <= i < p.len() && #[trigger] label_of(p[i].0) == Some(rp[a].0);
                assert(p[i] == m[i]);
                assert(label_of(m[m.len() - 1].0) == Some(r[b].0));
            }
        }
    }
}
/// a decoded key satisfies the in-memory well-formedness the round-trip lemma needs, and it encodes
pub proof fn lemma_decoded_key_mem_wf(v: Value, k: CoseKey)
    requires CoseKey::dec_rel(v, Ok::<CoseKey, CoseError>(k)),
    ensures key_mem_wf(k), key_params_ok(k),
{
    let m = map_of(v);
    lemma_params_of_props(m);
    let i = choose |i: int| 0 <= i < m.len() && #[trigger] label_of(m[i].0) == Some(Label::Int(1)) && reg_of::<iana::KeyType>(m[i].1) != Some(KeyType::Assigned(iana::KeyType::Reserved));
    assert(Some(k.kty) == reg_of::<iana::KeyType>(m[i].1));
    if k.alg is Some {
        if forall |j: int| 0 <= j < m.len() ==> #[trigger] label_of(m[j].0) != Some(Label::Int(3)) { assert(false); }
        let j = choose |j: int| 0 <= j < m.len() && #[trigger] label_of(m[j].0) == Some(Label::Int(3));
        assert(key_pair_ok(m[j].0, m[j].1));
    }
}
/// C07 for COSE_Key: decode -> encode -> decode gives a view-equal key
pub proof fn lemma_key_fixed_point(v: Value, k: CoseKey, v1: Value, r2: Result<CoseKey>)
    requires CoseKey::dec_rel(v, Ok::<CoseKey, CoseError>(k)), k.enc_rel(Ok::<Value, CoseError>(v1)), CoseKey::dec_rel(v1, r2),
    ensures key_params_ok(k), r2 matches Ok(k2) && key_view_eq(k2, k),
{
    lemma_decoded_key_mem_wf(v, k);
    lemma_key_roundtrip(k, v1, r2);
}
/// C07 for COSE_KeySet, element-wise
pub proof fn lemma_keyset_fixed_point(v: Value, ks: CoseKeySet, v1: Value, r2: Result<CoseKeySet>)
    requires CoseKeySet::dec_rel(v, Ok::<CoseKeySet, CoseError>(ks)), ks.enc_rel(Ok::<Value, CoseError>(v1)), CoseKeySet::dec_rel(v1, r2),
    ensures r2 matches Ok(ks2) && ks2.0@.len() == ks.0@.len() && forall |j: int| 0 <= j < ks.0@.len() ==> key_view_eq(#[trigger] ks2.0@[j], ks.0@[j]),
{
    crate::util::axiom_iter_enc_ok_vec::<CoseKey>(ks.0, arr_of(v1));
    let a = arr_of(v); let a1 = arr_of(v1);
    assert(a1.len() == ks.0@.len());
    assert forall |j: int| 0 <= j < a1.len() implies key_value_ok(#[trigger] a1[j]) by {
        lemma_decoded_key_mem_wf(a[j], ks.0@[j]);
        if !key_value_ok(a1[j]) {
            // an error result is a legal decode result of an unacceptable value; the round-trip lemma excludes it
            let r = Err::<CoseKey, CoseError>(CoseError::DuplicateMapKey);
            assert(CoseKey::dec_rel(a1[j], r));
            lemma_key_roundtrip(ks.0@[j], a1[j], r);
        }
    }
    let ks2 = r2->Ok_0;
    assert forall |j: int| 0 <= j < ks.0@.len() implies key_view_eq(#[trigger] ks2.0@[j], ks.0@[j]) by {
        lemma_decoded_key_mem_wf(a[j], ks.0@[j]);
        lemma_key_roundtrip(ks.0@[j], a1[j], Ok::<CoseKey, CoseError>(ks2.0@[j]));
    }
}
}
}
