#!/bin/bash
# usage: verus.sh <file.rs> [extra verus args]   (run with the real ciborium rlibs linked)
D=/verif/build/deps/debug/deps
exec verus "$1" --extern ciborium=$(ls $D/libciborium-*.rlib) --extern ciborium_io=$(ls $D/libciborium_io-*.rlib) -L dependency=$D "${@:2}"
