#!/usr/bin/env python3
"""Run every Kani harness of /verif/kani against the real crate (path dep on /repo); cached on the sources."""
import os, sys, json, subprocess, hashlib, time, re, glob, shutil
VERIF = os.path.dirname(os.path.dirname(os.path.abspath(__file__)))
REPO = os.environ.get('COSET_REPO', '/repo')
KDIR = os.path.join(VERIF, 'kani')
BUILD = os.path.join(VERIF, 'build')


def source_hash():
    h = hashlib.sha256()
    for root in (os.path.join(REPO, 'src'), os.path.join(KDIR, 'src')):
        for dp, dn, fn in sorted(os.walk(root)):
            for f in sorted(fn):
                if f.endswith('.rs'):
                    p = os.path.join(dp, f)
                    h.update(p.encode())
                    h.update(open(p, 'rb').read())
    h.update(open(os.path.join(REPO, 'Cargo.toml'), 'rb').read())
    return h.hexdigest()[:24]


def run_all(timeout=3000):
    """-> {'harnesses': {name: {'ok': bool, 'time_s': float}}, 'wall_s', 'cmd', 'raw_tail'}"""
    key = source_hash()
    cdir = os.path.join(BUILD, 'cache')
    os.makedirs(cdir, exist_ok=True)
    cfile = os.path.join(cdir, 'kani-%s.json' % key)
    if os.path.exists(cfile) and not os.environ.get('VERIF_NOCACHE'):
        d = json.load(open(cfile))
        d['cached'] = True
        return d
    kdir = KDIR
    if REPO != '/repo':
        # scratch copy of the harness crate pointing at another repo (dev helper only)
        kdir = os.path.join(BUILD, 'kani-alt')
        shutil.rmtree(kdir, ignore_errors=True)
        shutil.copytree(KDIR, kdir)
        t = open(os.path.join(kdir, 'Cargo.toml')).read().replace('path = "/repo"', 'path = "%s"' % REPO)
        open(os.path.join(kdir, 'Cargo.toml'), 'w').write(t)
    shutil.copy(os.path.join(REPO, 'Cargo.lock') if os.path.exists(os.path.join(REPO, 'Cargo.lock')) else '/repo/Cargo.lock', os.path.join(kdir, 'Cargo.lock'))
    env = dict(os.environ, CARGO_NET_OFFLINE='true', CARGO_TARGET_DIR=os.path.join(BUILD, 'kani-target'))
    cmd = ['cargo', 'kani', '--output-format', 'terse', '-j', '8']
    t0 = time.time()
    try:
        p = subprocess.run(cmd, cwd=kdir, env=env, capture_output=True, text=True, timeout=timeout)
        out = p.stdout + p.stderr
        rc = p.returncode
    except subprocess.TimeoutExpired as e:
        out = 'TIMEOUT'
        rc = -9
    res = {}
    cur = None
    bythread = {}
    for line in out.splitlines():
        m = re.match(r'\s*Thread (\d+): Checking harness ([\w:]+)\.\.\.', line)
        if m:
            bythread[m.group(1)] = m.group(2)
            continue
        m = re.match(r'\s*Checking harness ([\w:]+)\.\.\.', line)
        if m:
            cur = m.group(1)
            continue
        m = re.match(r'\s*Thread (\d+):\s*$', line)
        if m:
            cur = bythread.get(m.group(1))
            continue
        m = re.search(r'VERIFICATION:- (SUCCESSFUL|FAILED)', line)
        if m and cur:
            res.setdefault(cur, {})['ok'] = (m.group(1) == 'SUCCESSFUL')
        m = re.search(r'Verification Time: ([0-9.]+)s', line)
        if m and cur:
            res.setdefault(cur, {})['time_s'] = float(m.group(1))
    # with -j the per-harness lines can interleave; fall back to the summary
    for m in re.finditer(r'Verification failed for - ([\w:]+)', out):
        res.setdefault(m.group(1), {})['ok'] = False
    d = {'harnesses': res, 'wall_s': round(time.time() - t0, 1), 'cmd': 'CARGO_NET_OFFLINE=true ' + ' '.join(cmd) + '  (in /verif/kani)',
         'rc': rc, 'raw_tail': out[-3000:], 'cached': False, 'complete_summary': bool(re.search(r'Complete - \d+ successfully verified harnesses', out))}
    if res and d['complete_summary']:
        json.dump(d, open(cfile, 'w'))
    return d


def counterexample(harness, timeout=900):
    env = dict(os.environ, CARGO_NET_OFFLINE='true', CARGO_TARGET_DIR=os.path.join(BUILD, 'kani-target'))
    cmd = ['cargo', 'kani', '--harness', harness.split('::')[-1], '-Z', 'concrete-playback', '--concrete-playback=print']
    try:
        p = subprocess.run(cmd, cwd=KDIR, env=env, capture_output=True, text=True, timeout=timeout)
        out = p.stdout + p.stderr
    except subprocess.TimeoutExpired:
        return None
    i = out.find('Concrete playback unit test')
    return out[i:i + 4000] if i >= 0 else out[-2000:]


if __name__ == '__main__':
    d = run_all()
    print(json.dumps({k: v for k, v in d.items() if k != 'raw_tail'}, indent=1))
    if not d['harnesses']:
        print(d['raw_tail'])
