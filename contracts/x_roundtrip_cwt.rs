// C07 / C11 for CWT claims sets: the re-encoding of a decoded ClaimsSet is accepted and decodes to the SAME claims set;
// decode results are unique up to Vec/String identity; equal-view claims sets encode identically.
mod vroundtrip_cwt {
use vstd::prelude::*;
use crate::*;
use crate::vprelude::*;
use crate::cwt::*;
use crate::common::{regp_of, regp_cv, wf_regp};
use crate::vroundtrip::{lemma_vv_int, lemma_vv_text, lemma_vv_bytes, lemma_vv_map_shape, lemma_regp_of_cv};
use crate::iana::{EnumI64, WithPrivateRange};
use ciborium::value::Value;
verus!{
pub open spec fn claim_name(k: int) -> ClaimName {
    if k == 1 { cn(iana::CwtClaimName::Iss) } else if k == 2 { cn(iana::CwtClaimName::Sub) } else if k == 3 { cn(iana::CwtClaimName::Aud) }
    else if k == 4 { cn(iana::CwtClaimName::Exp) } else if k == 5 { cn(iana::CwtClaimName::Nbf) } else if k == 6 { cn(iana::CwtClaimName::Iat) }
    else { cn(iana::CwtClaimName::Cti) }
}
proof fn lemma_claim_name_cv(k: int)
    requires 1 <= k <= 7,
    ensures regp_cv(claim_name(k)) == CV::Int(k), is_typed_claim(claim_name(k)), wf_regp(claim_name(k)),
{}
proof fn lemma_typed_claim_is_name(n: ClaimName) -> (k: int)
    requires is_typed_claim(n),
    ensures 1 <= k <= 7, n == claim_name(k),
{
    if n == cn(iana::CwtClaimName::Iss) { 1 } else if n == cn(iana::CwtClaimName::Sub) { 2 } else if n == cn(iana::CwtClaimName::Aud) { 3 }
    else if n == cn(iana::CwtClaimName::Exp) { 4 } else if n == cn(iana::CwtClaimName::Nbf) { 5 } else if n == cn(iana::CwtClaimName::Iat) { 6 } else { 7 }
}
pub proof fn lemma_ts_of_cv(v: Value, t: Timestamp)
    requires vv(v) == ts_cv(t),
    ensures ts_of(v) == Some(t),
{
    reveal_with_fuel(vv, 1);
    match t { Timestamp::WholeSeconds(i) => { lemma_vv_int(v, i as int); } Timestamp::FractionalSeconds(f) => { assert(v is Float); } }
}
pub open spec fn cp(c: ClaimsSet, k: int) -> bool { claim_present(c, k) }
proof fn lemma_claims_prefix_entries(c: ClaimsSet, k: int)
    requires 0 <= k <= 7,
    ensures
        forall |i: int| 0 <= i < claims_typed_prefix(c, k).len() ==> ((#[trigger] claims_typed_prefix(c, k)[i]).0 matches CV::Int(n) && 1 <= n <= k
            && claim_present(c, n) && claims_typed_prefix(c, k)[i].1 == claim_val(c, n)),
        forall |n: int| 1 <= n <= k && #[trigger] cp(c, n) ==> exists |i: int| 0 <= i < claims_typed_prefix(c, k).len() && (#[trigger] claims_typed_prefix(c, k)[i]).0 == CV::Int(n),
        forall |i: int, j: int| 0 <= i < j < claims_typed_prefix(c, k).len() ==> (#[trigger] claims_typed_prefix(c, k)[i]).0->Int_0 < (#[trigger] claims_typed_prefix(c, k)[j]).0->Int_0,
    decreases k
{
    reveal_with_fuel(claims_typed_prefix, 1);
    if k > 0 {
        lemma_claims_prefix_entries(c, k - 1);
        let p = claims_typed_prefix(c, k - 1); let e = claim_entry(c, k); let l = claims_typed_prefix(c, k);
        assert(l == p + e);
        assert forall |i: int| 0 <= i < l.len() implies ((#[trigger] l[i]).0 matches CV::Int(n) && 1 <= n <= k && claim_present(c, n) && l[i].1 == claim_val(c, n)) by {
            if i < p.len() { assert(l[i] == p[i]); } else { assert(l[i] == e[i - p.len()]); }
        }
        assert forall |n: int| 1 <= n <= k && #[trigger] cp(c, n) implies exists |i: int| 0 <= i < l.len() && (#[trigger] l[i]).0 == CV::Int(n) by {
            if n < k { assert(cp(c, n)); let i = choose |i: int| 0 <= i < p.len() && (#[trigger] p[i]).0 == CV::Int(n); assert(l[i] == p[i]); }
            else { assert(l[p.len() as int] == e[0]); }
        }
        assert forall |i: int, j: int| 0 <= i < j < l.len() implies (#[trigger] l[i]).0->Int_0 < (#[trigger] l[j]).0->Int_0 by {
            if j < p.len() { assert(l[i] == p[i] && l[j] == p[j]); } else { assert(l[i] == p[i]); assert(l[j] == e[0]); }
        }
    }
}
/// in-memory claims sets for which the round trip is stated: what decoding produces
pub open spec fn claims_mem_ok(c: ClaimsSet) -> bool {
    (forall |i: int, j: int| 0 <= i < j < c.rest@.len() ==> (#[trigger] c.rest@[i]).0 != (#[trigger] c.rest@[j]).0)
    && (forall |i: int| 0 <= i < c.rest@.len() ==> !is_typed_claim((#[trigger] c.rest@[i]).0) && wf_regp(c.rest@[i].0))
}
pub open spec fn ctlen(c: ClaimsSet) -> int { claims_typed_prefix(c, 7).len() as int }
proof fn lemma_claims_encoded_len(c: ClaimsSet, v1: Value)
    requires vv(v1) == claims_cv(c),
    ensures v1 is Map, map_of(v1).len() == ctlen(c) + c.rest@.len(),
{
    reveal(claims_rest_entries);
    lemma_vv_map_shape(v1, claims_typed_prefix(c, 7) + claims_rest_entries(c.rest@));
}
proof fn lemma_claims_encoded_pair(c: ClaimsSet, v1: Value, i: int)
    requires claims_mem_ok(c), vv(v1) == claims_cv(c), 0 <= i < map_of(v1).len(),
    ensures
        v1 is Map, map_of(v1).len() == ctlen(c) + c.rest@.len(),
        claim_pair_ok(map_of(v1)[i].0, map_of(v1)[i].1),
        i < ctlen(c) ==> (claims_typed_prefix(c, 7)[i].0 matches CV::Int(n) && 1 <= n <= 7 && cp(c, n) && cn_of(map_of(v1)[i].0) == Some(claim_name(n)) && vv(map_of(v1)[i].1) == claim_val(c, n)),
        i >= ctlen(c) ==> (cn_of(map_of(v1)[i].0) == Some(c.rest@[i - ctlen(c)].0) && map_of(v1)[i].1 == c.rest@[i - ctlen(c)].1),
{
    broadcast use axiom_vv_injective;
    reveal(claims_rest_entries);
    let t = claims_typed_prefix(c, 7); let r = claims_rest_entries(c.rest@); let e = t + r;
    lemma_vv_map_shape(v1, e);
    lemma_claims_prefix_entries(c, 7);
    let k = map_of(v1)[i].0; let val = map_of(v1)[i].1;
    assert((vv(k), vv(val)) == e[i]);
    if i < t.len() {
        assert(e[i] == t[i]);
        let n = t[i].0->Int_0;
        lemma_claim_name_cv(n);
        lemma_regp_of_cv::<iana::CwtClaimName>(k, claim_name(n));
        if n == 1 { lemma_vv_text(val, c.issuer->0@); } else if n == 2 { lemma_vv_text(val, c.subject->0@); } else if n == 3 { lemma_vv_text(val, c.audience->0@); }
        else if n == 4 { lemma_ts_of_cv(val, c.expiration_time->0); } else if n == 5 { lemma_ts_of_cv(val, c.not_before->0); } else if n == 6 { lemma_ts_of_cv(val, c.issued_at->0); }
        else { lemma_vv_bytes(val, c.cwt_id->0@); }
    } else {
        let j = i - t.len();
        assert(e[i] == r[j]);
        lemma_regp_of_cv::<iana::CwtClaimName>(k, c.rest@[j].0);
    }
}
proof fn lemma_claims_encoded_typed_index(c: ClaimsSet, v1: Value, n: int) -> (i: int)
    requires claims_mem_ok(c), vv(v1) == claims_cv(c), 1 <= n <= 7, cp(c, n),
    ensures 0 <= i < ctlen(c), i < map_of(v1).len(), cn_of(map_of(v1)[i].0) == Some(claim_name(n)), vv(map_of(v1)[i].1) == claim_val(c, n),
{
    lemma_claims_prefix_entries(c, 7);
    let t = claims_typed_prefix(c, 7);
    let i = choose |i: int| 0 <= i < t.len() && (#[trigger] t[i]).0 == CV::Int(n);
    lemma_claims_encoded_len(c, v1);
    lemma_claims_encoded_pair(c, v1, i);
    i
}
proof fn lemma_claims_encoded_distinct(c: ClaimsSet, v1: Value)
    requires claims_mem_ok(c), vv(v1) == claims_cv(c),
    ensures claims_distinct(map_of(v1)),
{
    let m = map_of(v1); let tl = ctlen(c);
    lemma_claims_prefix_entries(c, 7);
    let t = claims_typed_prefix(c, 7);
    assert forall |i: int, j: int| 0 <= i < j < m.len() implies #[trigger] cn_of(m[i].0) != #[trigger] cn_of(m[j].0) by {
        lemma_claims_encoded_pair(c, v1, i); lemma_claims_encoded_pair(c, v1, j);
        if j < tl { assert(t[i].0->Int_0 < t[j].0->Int_0); }
        else if i >= tl { assert(c.rest@[i - tl].0 != c.rest@[j - tl].0); }
        else { lemma_claim_name_cv(t[i].0->Int_0); assert(!is_typed_claim(c.rest@[j - tl].0)); }
    }
}
proof fn lemma_claims_encoded_presence(c: ClaimsSet, v1: Value, n: int)
    requires claims_mem_ok(c), vv(v1) == claims_cv(c), 1 <= n <= 7,
    ensures has_claim(map_of(v1), map_of(v1).len() as int, claim_name(n)) <==> cp(c, n),
{
    let m = map_of(v1); let tl = ctlen(c);
    lemma_claim_name_cv(n);
    if cp(c, n) { let i = lemma_claims_encoded_typed_index(c, v1, n); }
    if has_claim(m, m.len() as int, claim_name(n)) {
        let i = choose |i: int| 0 <= i < m.len() && #[trigger] cn_of(m[i].0) == Some(claim_name(n));
        lemma_claims_encoded_pair(c, v1, i);
        if i >= tl { assert(!is_typed_claim(c.rest@[i - tl].0)); }
    }
}
proof fn lemma_claims_rest_of_encoded(c: ClaimsSet, v1: Value, n: int)
    requires claims_mem_ok(c), vv(v1) == claims_cv(c), 0 <= n <= map_of(v1).len(),
    ensures
        n <= ctlen(c) ==> claims_rest_of(map_of(v1).subrange(0, n)) == Seq::<(ClaimName, Value)>::empty(),
        n >= ctlen(c) ==> claims_rest_of(map_of(v1).subrange(0, n)) == c.rest@.subrange(0, n - ctlen(c)),
    decreases n
{
    let m = map_of(v1); let tl = ctlen(c);
    if n == 0 {
        assert(m.subrange(0, 0) =~= Seq::<(Value, Value)>::empty());
        assert(c.rest@.subrange(0, 0) =~= Seq::<(ClaimName, Value)>::empty());
    } else {
        lemma_claims_rest_of_encoded(c, v1, n - 1);
        lemma_claims_encoded_pair(c, v1, n - 1);
        let s = m.subrange(0, n);
        assert(s.drop_last() =~= m.subrange(0, n - 1));
        assert(s.last() == m[n - 1]);
        if n - 1 < tl {
            lemma_claim_name_cv(claims_typed_prefix(c, 7)[n - 1].0->Int_0);
            if n == tl { assert(c.rest@.subrange(0, 0) =~= Seq::<(ClaimName, Value)>::empty()); }
        } else {
            let j = n - 1 - tl;
            assert(!is_typed_claim(c.rest@[j].0));
            assert(c.rest@.subrange(0, j + 1) =~= c.rest@.subrange(0, j).push(c.rest@[j]));
        }
    }
}
/// what decoding produced satisfies the in-memory conditions
pub proof fn lemma_claims_rest_of_props(m: Seq<(Value, Value)>)
    requires claims_distinct(m),
    ensures
        forall |a: int| 0 <= a < claims_rest_of(m).len() ==> !is_typed_claim((#[trigger] claims_rest_of(m)[a]).0) && wf_regp(claims_rest_of(m)[a].0) && has_claim(m, m.len() as int, claims_rest_of(m)[a].0),
        forall |a: int, b: int| 0 <= a < b < claims_rest_of(m).len() ==> (#[trigger] claims_rest_of(m)[a]).0 != (#[trigger] claims_rest_of(m)[b]).0,
    decreases m.len()
{
    if m.len() > 0 {
        let p = m.drop_last();
        assert forall |i: int, j: int| 0 <= i < j < p.len() implies #[trigger] cn_of(p[i].0) != #[trigger] cn_of(p[j].0) by { assert(p[i] == m[i] && p[j] == m[j]); }
        lemma_claims_rest_of_props(p);
        let rp = claims_rest_of(p); let r = claims_rest_of(m);
        assert forall |a: int| 0 <= a < rp.len() implies has_claim(m, m.len() as int, (#[trigger] rp[a]).0) by {
            let i = choose |i: int| 0 <= i < p.len() && #[trigger] cn_of(p[i].0) == Some(rp[a].0);
            assert(p[i] == m[i]);
        }
        assert forall |a: int| 0 <= a < r.len() implies !is_typed_claim((#[trigger] r[a]).0) && wf_regp(r[a].0) && has_claim(m, m.len() as int, r[a].0) by {
            if a < rp.len() { assert(r[a] == rp[a]); } else { assert(cn_of(m[m.len() - 1].0) == Some(r[a].0)); }
        }
        assert forall |a: int, b: int| 0 <= a < b < r.len() implies (#[trigger] r[a]).0 != (#[trigger] r[b]).0 by {
            if b < rp.len() { assert(r[a] == rp[a] && r[b] == rp[b]); }
            else {
                assert(r[a] == rp[a]);
                let i = choose |i: int| 0 <= i < p.len() && #[trigger] cn_of(p[i].0) == Some(rp[a].0);
                assert(p[i] == m[i]);
                assert(cn_of(m[m.len() - 1].0) == Some(r[b].0));
            }
        }
    }
}
pub proof fn lemma_decoded_claims_mem_ok(v: Value, c: ClaimsSet)
    requires claims_ok(v), claims_res(v, c),
    ensures claims_mem_ok(c),
{
    let m = map_of(v);
    lemma_claims_rest_of_props(m);
    assert(m.subrange(0, m.len() as int) =~= m);
}
/// C07: the re-encoding of a decoded claims set is accepted and decodes to the same claims set
pub proof fn lemma_claims_reenc(c: ClaimsSet, v1: Value)
    requires claims_mem_ok(c), vv(v1) == claims_cv(c),
    ensures claims_ok(v1), claims_res(v1, c),
{
    broadcast use axiom_vv_injective;
    let m = map_of(v1);
    lemma_claims_encoded_len(c, v1);
    assert forall |i: int| 0 <= i < m.len() implies claim_pair_ok(#[trigger] m[i].0, m[i].1) by { lemma_claims_encoded_pair(c, v1, i); }
    lemma_claims_encoded_distinct(c, v1);
    lemma_claims_rest_of_encoded(c, v1, m.len() as int);
    assert(m.subrange(0, m.len() as int) =~= m);
    assert(c.rest@.subrange(0, c.rest@.len() as int) =~= c.rest@);
    lemma_claims_encoded_presence(c, v1, 1); lemma_claims_encoded_presence(c, v1, 2); lemma_claims_encoded_presence(c, v1, 3); lemma_claims_encoded_presence(c, v1, 4);
    lemma_claims_encoded_presence(c, v1, 5); lemma_claims_encoded_presence(c, v1, 6); lemma_claims_encoded_presence(c, v1, 7);
    assert forall |i: int| 0 <= i < m.len() implies
        (#[trigger] cn_of(m[i].0) == Some(claim_name(1)) ==> (c.issuer matches Some(t) && m[i].1 == Value::Text(t)))
        && (cn_of(m[i].0) == Some(claim_name(2)) ==> (c.subject matches Some(t) && m[i].1 == Value::Text(t)))
        && (cn_of(m[i].0) == Some(claim_name(3)) ==> (c.audience matches Some(t) && m[i].1 == Value::Text(t)))
        && (cn_of(m[i].0) == Some(claim_name(4)) ==> (c.expiration_time is Some && c.expiration_time == ts_of(m[i].1)))
        && (cn_of(m[i].0) == Some(claim_name(5)) ==> (c.not_before is Some && c.not_before == ts_of(m[i].1)))
        && (cn_of(m[i].0) == Some(claim_name(6)) ==> (c.issued_at is Some && c.issued_at == ts_of(m[i].1)))
        && (cn_of(m[i].0) == Some(claim_name(7)) ==> (c.cwt_id matches Some(b) && m[i].1 == Value::Bytes(b)))
    by {
        lemma_claims_encoded_pair(c, v1, i);
        if i >= ctlen(c) { assert(!is_typed_claim(c.rest@[i - ctlen(c)].0)); }
        else {
            let n = claims_typed_prefix(c, 7)[i].0->Int_0;
            let val = m[i].1;
            if n == 1 { lemma_vv_text(val, c.issuer->0@); assert(vv(val) == vv(Value::Text(c.issuer->0))) by { reveal_with_fuel(vv, 1); } }
            else if n == 2 { lemma_vv_text(val, c.subject->0@); assert(vv(val) == vv(Value::Text(c.subject->0))) by { reveal_with_fuel(vv, 1); } }
            else if n == 3 { lemma_vv_text(val, c.audience->0@); assert(vv(val) == vv(Value::Text(c.audience->0))) by { reveal_with_fuel(vv, 1); } }
            else if n == 4 { lemma_ts_of_cv(val, c.expiration_time->0); }
            else if n == 5 { lemma_ts_of_cv(val, c.not_before->0); }
            else if n == 6 { lemma_ts_of_cv(val, c.issued_at->0); }
            else { lemma_vv_bytes(val, c.cwt_id->0@); assert(vv(val) == vv(Value::Bytes(c.cwt_id->0))) by { reveal_with_fuel(vv, 1); } }
        }
    }
    assert(c.rest@.subrange(0, m.len() - ctlen(c)) =~= c.rest@);
}
pub open spec fn opt_text_same(a: Option<String>, b: Option<String>) -> bool { (a is Some <==> b is Some) && (a is Some ==> a->0@ == b->0@) }
pub open spec fn opt_bytes_same(a: Option<Vec<u8>>, b: Option<Vec<u8>>) -> bool { (a is Some <==> b is Some) && (a is Some ==> a->0@ == b->0@) }
pub open spec fn claims_same(a: ClaimsSet, b: ClaimsSet) -> bool {
    opt_text_same(a.issuer, b.issuer) && opt_text_same(a.subject, b.subject) && opt_text_same(a.audience, b.audience)
    && a.expiration_time == b.expiration_time && a.not_before == b.not_before && a.issued_at == b.issued_at && opt_bytes_same(a.cwt_id, b.cwt_id) && a.rest@ == b.rest@
}
/// the decode result is a function of the wire value
pub proof fn lemma_claims_res_deterministic(v: Value, c1: ClaimsSet, c2: ClaimsSet)
    requires claims_res(v, c1), claims_res(v, c2),
    ensures claims_same(c1, c2),
{
    let m = map_of(v); let n = m.len() as int;
    if has_claim(m, n, claim_name(1)) { let i = choose |i: int| 0 <= i < n && #[trigger] cn_of(m[i].0) == Some(claim_name(1)); assert(m[i].1 == Value::Text(c1.issuer->0)); }
    if has_claim(m, n, claim_name(2)) { let i = choose |i: int| 0 <= i < n && #[trigger] cn_of(m[i].0) == Some(claim_name(2)); assert(m[i].1 == Value::Text(c1.subject->0)); }
    if has_claim(m, n, claim_name(3)) { let i = choose |i: int| 0 <= i < n && #[trigger] cn_of(m[i].0) == Some(claim_name(3)); assert(m[i].1 == Value::Text(c1.audience->0)); }
    if has_claim(m, n, claim_name(4)) { let i = choose |i: int| 0 <= i < n && #[trigger] cn_of(m[i].0) == Some(claim_name(4)); assert(c1.expiration_time == ts_of(m[i].1)); }
    if has_claim(m, n, claim_name(5)) { let i = choose |i: int| 0 <= i < n && #[trigger] cn_of(m[i].0) == Some(claim_name(5)); assert(c1.not_before == ts_of(m[i].1)); }
    if has_claim(m, n, claim_name(6)) { let i = choose |i: int| 0 <= i < n && #[trigger] cn_of(m[i].0) == Some(claim_name(6)); assert(c1.issued_at == ts_of(m[i].1)); }
    if has_claim(m, n, claim_name(7)) { let i = choose |i: int| 0 <= i < n && #[trigger] cn_of(m[i].0) == Some(claim_name(7)); assert(m[i].1 == Value::Bytes(c1.cwt_id->0)); }
}
proof fn lemma_claims_prefix_same(a: ClaimsSet, b: ClaimsSet, k: int)
    requires claims_same(a, b), 0 <= k <= 7,
    ensures claims_typed_prefix(a, k) == claims_typed_prefix(b, k),
    decreases k
{
    reveal_with_fuel(claims_typed_prefix, 1);
    if k > 0 {
        lemma_claims_prefix_same(a, b, k - 1);
        assert(claim_entry(a, k) == claim_entry(b, k));
    }
}
pub proof fn lemma_claims_cv_same(a: ClaimsSet, b: ClaimsSet)
    requires claims_same(a, b),
    ensures claims_cv(a) == claims_cv(b),
{ lemma_claims_prefix_same(a, b, 7); }
/// C07 for CWT claims sets: decode -> encode -> decode gives an equal claims set, and encoding it again the same value
pub proof fn lemma_claims_fixed_point(v: Value, c: ClaimsSet, v1: Value, c1: ClaimsSet)
    requires claims_ok(v), claims_res(v, c), vv(v1) == claims_cv(c), claims_res(v1, c1),
    ensures claims_ok(v1), claims_res(v1, c), claims_same(c1, c), claims_cv(c1) == claims_cv(c),
{
    lemma_decoded_claims_mem_ok(v, c);
    lemma_claims_reenc(c, v1);
    lemma_claims_res_deterministic(v1, c1, c);
    lemma_claims_cv_same(c1, c);
}
/// C11 for in-memory claims sets (built by hand or by the builder) whose extra names are distinct, well formed and not
/// one of the seven typed names: encoding them and decoding the result gives the same claims set
pub proof fn lemma_claims_roundtrip_from_memory(c: ClaimsSet, v1: Value, c1: ClaimsSet)
    requires claims_mem_ok(c), vv(v1) == claims_cv(c), claims_res(v1, c1),
    ensures claims_ok(v1), claims_same(c1, c),
{
    lemma_claims_reenc(c, v1);
    lemma_claims_res_deterministic(v1, c1, c);
}
}
}
