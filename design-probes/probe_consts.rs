use vstd::prelude::*;
verus!{
#[derive(Clone, Copy, Debug, Eq, PartialEq)]
pub enum Tag { A = 16, B = 98 }
#[derive(PartialEq, Eq)]
pub enum Label { Int(i64), T(u8) }
exec const ALG: Label = Label::Int(Tag::A as i64);
pub trait Tg { const TAG: u64; }
pub struct S;
impl Tg for S { #[verifier::external_body] const TAG: u64 = Tag::B as u64; }
pub broadcast axiom fn tag_s() ensures #[trigger] <S as Tg>::TAG == 98;
fn f(l: Label) -> (r: bool) ensures r == (l == Label::Int(16)) {
    match l { ALG => true, _ => false }
}
fn g() -> (r: u64) ensures r == 98 { broadcast use tag_s; S::TAG }
}
fn main(){}
