// Copyright 2021 Google LLC
//
// Licensed under the Apache License, Version 2.0 (the "License");
// you may not use this file except in compliance with the License.
// You may obtain a copy of the License at
//
//      http://www.apache.org/licenses/LICENSE-2.0
//
// Unless required by applicable law or agreed to in writing, software
// distributed under the License is distributed on an "AS IS" BASIS,
// WITHOUT WARRANTIES OR CONDITIONS OF ANY KIND, either express or implied.
// See the License for the specific language governing permissions and
// limitations under the License.
//
////////////////////////////////////////////////////////////////////////////////



use crate::{
    cbor::value::Value,
    common::AsCborValue,
    iana,
    util::{cbor_type_error, ValueTryAs},
    Algorithm, CoseError, ProtectedHeader, Result,
};
use alloc::{vec, vec::Vec};
use core::convert::TryInto;


/// A nonce value.
#[derive(Clone, Debug, Eq, PartialEq)]
pub enum Nonce {
    Bytes(Vec<u8>),
    Integer(i64),
}

/// Structure representing a party involved in key derivation.
///
/// ```cddl
///  PartyInfo = (
///      identity : bstr / nil,
///      nonce : bstr / int / nil,
///      other : bstr / nil
///  )
///  ```
#[derive(Clone, Debug, Default, Eq, PartialEq)]
pub struct PartyInfo {
    pub identity: Option<Vec<u8>>,
    pub nonce: Option<Nonce>,
    pub other: Option<Vec<u8>>,
}

impl crate::CborSerializable for PartyInfo {}

impl AsCborValue for PartyInfo {
    fn from_cbor_value(value: Value) -> Result<Self> {
        let mut a = value.try_as_array()?;
        if a.len() != 3 {
            return Err(CoseError::UnexpectedItem("array", "array with 3 items"));
        }

        // Remove array elements in reverse order to avoid shifts.
        Ok(Self {
            other: match a.remove(2) {
                Value::Null => None,
                Value::Bytes(b) => Some(b),
                v => return cbor_type_error(&v, "bstr / nil"),
            },
            nonce: match a.remove(1) {
                Value::Null => None,
                Value::Bytes(b) => Some(Nonce::Bytes(b)),
                Value::Integer(u) => Some(Nonce::Integer(u.try_into()?)),
                v => return cbor_type_error(&v, "bstr / int / nil"),
            },
            identity: match a.remove(0) {
                Value::Null => None,
                Value::Bytes(b) => Some(b),
                v => return cbor_type_error(&v, "bstr / nil"),
            },
        })
    }

    fn to_cbor_value(self) -> Result<Value> {
        Ok(Value::Array(vec![
            match self.identity {
                None => Value::Null,
                Some(b) => Value::Bytes(b),
            },
            match self.nonce {
                None => Value::Null,
                Some(Nonce::Bytes(b)) => Value::Bytes(b),
                Some(Nonce::Integer(i)) => Value::from(i),
            },
            match self.other {
                None => Value::Null,
                Some(b) => Value::Bytes(b),
            },
        ]))
    }
}

/// Builder for [`PartyInfo`] objects.
#[derive(Debug, Default)]
pub struct PartyInfoBuilder(PartyInfo);

impl PartyInfoBuilder {
    
        /// Constructor for builder.
        pub fn new() -> Self {
            Self(<PartyInfo>::default())
        }
        /// Build the completed object.
        pub fn build(self) -> PartyInfo {
            self.0
        }
    
    
        /// Set the associated field.
        #[must_use]
        pub fn identity(self, identity: Vec<u8>) -> Self { let mut self_ = self;
            self_.0.identity = Some(identity);
            self_
        }
    
    
        /// Set the associated field.
        #[must_use]
        pub fn nonce(self, nonce: Nonce) -> Self { let mut self_ = self;
            self_.0.nonce = Some(nonce);
            self_
        }
    
    
        /// Set the associated field.
        #[must_use]
        pub fn other(self, other: Vec<u8>) -> Self { let mut self_ = self;
            self_.0.other = Some(other);
            self_
        }
    
}

/// Structure representing supplemental public information.
///
/// ```cddl
///  SuppPubInfo : [
///      keyDataLength : uint,
///      protected : empty_or_serialized_map,
///      ? other : bstr
///  ],
///  ```
#[verifier::external_derive(Clone)]
#[derive(Clone, Debug, Default, PartialEq)]
pub struct SuppPubInfo {
    pub key_data_length: u64,
    pub protected: ProtectedHeader,
    pub other: Option<Vec<u8>>,
}

impl crate::CborSerializable for SuppPubInfo {}

impl AsCborValue for SuppPubInfo {
    fn from_cbor_value(value: Value) -> Result<Self> {
        let mut a = value.try_as_array()?;
        if a.len() != 2 && a.len() != 3 {
            return Err(CoseError::UnexpectedItem(
                "array",
                "array with 2 or 3 items",
            ));
        }

        // Remove array elements in reverse order to avoid shifts.
        Ok(Self {
            other: {
                if a.len() == 3 {
                    Some(a.remove(2).try_as_bytes()?)
                } else {
                    None
                }
            },
            protected: ProtectedHeader::from_cbor_bstr(a.remove(1))?,
            key_data_length: a.remove(0).try_as_integer()?.try_into()?,
        })
    }

    fn to_cbor_value(self) -> Result<Value> {
        let mut v = vec![
            Value::from(self.key_data_length),
            self.protected.cbor_bstr()?,
        ];
        if let Some(other) = self.other {
            v.push(Value::Bytes(other));
        }
        Ok(Value::Array(v))
    }
}

/// Builder for [`SuppPubInfo`] objects.
#[derive(Debug, Default)]
pub struct SuppPubInfoBuilder(SuppPubInfo);

impl SuppPubInfoBuilder {
    
        /// Constructor for builder.
        pub fn new() -> Self {
            Self(<SuppPubInfo>::default())
        }
        /// Build the completed object.
        pub fn build(self) -> SuppPubInfo {
            self.0
        }
    
    
        /// Set the associated field.
        #[must_use]
        pub fn key_data_length(self, key_data_length: u64) -> Self { let mut self_ = self;
            self_.0.key_data_length = key_data_length;
            self_
        }
    
    
        /// Set the associated field.
        #[must_use]
        pub fn protected(self, hdr: crate::Header) -> Self { let mut self_ = self;
            self_.0.protected = crate::ProtectedHeader {
                original_data: None,
                header: hdr,
            };
            self_
        }
    
    
        /// Set the associated field.
        #[must_use]
        pub fn other(self, other: Vec<u8>) -> Self { let mut self_ = self;
            self_.0.other = Some(other);
            self_
        }
    
}

/// Structure representing a a key derivation context.
/// ```cdl
///  COSE_KDF_Context = [
///      AlgorithmID : int / tstr,
///      PartyUInfo : [ PartyInfo ],
///      PartyVInfo : [ PartyInfo ],
///      SuppPubInfo : [
///          keyDataLength : uint,
///          protected : empty_or_serialized_map,
///          ? other : bstr
///      ],
///      ? SuppPrivInfo : bstr
///  ]
/// ```
#[verifier::external_derive(Clone)]
#[derive(Clone, Debug, Default, PartialEq)]
pub struct CoseKdfContext {
    algorithm_id: Algorithm,
    party_u_info: PartyInfo,
    party_v_info: PartyInfo,
    supp_pub_info: SuppPubInfo,
    supp_priv_info: Vec<Vec<u8>>,
}
«
impl CoseKdfContext { pub closed spec fn is_default(self) -> bool {
    self.algorithm_id == Algorithm::Assigned(iana::Algorithm::Reserved) && self.party_u_info.is_default() && self.party_v_info.is_default()
    && self.supp_pub_info.is_default() && self.supp_priv_info@.len() == 0 } }
»
impl crate::CborSerializable for CoseKdfContext {}

impl AsCborValue for CoseKdfContext {
    fn from_cbor_value(value: Value) -> Result<Self> {
        let mut a = value.try_as_array()?;
        if a.len() < 4 {
            return Err(CoseError::UnexpectedItem(
                "array",
                "array with at least 4 items",
            ));
        }

        // Remove array elements in reverse order to avoid shifts.
        let mut supp_priv_info = Vec::with_capacity(a.len() - 4);
        { let mut i__ = a.len(); while i__ > 4« invariant 4 <= i__, a@.len() == i__, decreases i__» { i__ -= 1; let i = i__;
            supp_priv_info.push(a.remove(i).try_as_bytes()?);
        } }
        supp_priv_info.reverse();

        Ok(Self {
            supp_priv_info,
            supp_pub_info: SuppPubInfo::from_cbor_value(a.remove(3))?,
            party_v_info: PartyInfo::from_cbor_value(a.remove(2))?,
            party_u_info: PartyInfo::from_cbor_value(a.remove(1))?,
            algorithm_id: Algorithm::from_cbor_value(a.remove(0))?,
        })
    }

    fn to_cbor_value(self) -> Result<Value> {
        let mut v = vec![
            self.algorithm_id.to_cbor_value()?,
            self.party_u_info.to_cbor_value()?,
            self.party_v_info.to_cbor_value()?,
            self.supp_pub_info.to_cbor_value()?,
        ];
        for supp_priv_info in self.supp_priv_info {
            v.push(Value::Bytes(supp_priv_info));
        }
        Ok(Value::Array(v))
    }
}

/// Builder for [`CoseKdfContext`] objects.
#[derive(Debug, Default)]
pub struct CoseKdfContextBuilder(CoseKdfContext);«impl CoseKdfContextBuilder {
    // CoseKdfContext has private fields: the documented effects are stated through closed spec functions
    pub closed spec fn after_algorithm_id(self, alg: iana::Algorithm) -> CoseKdfContext { CoseKdfContext { algorithm_id: Algorithm::Assigned(alg), ..self.0 } }
    pub closed spec fn after_add_supp_priv_info(self, r: Self, x: Vec<u8>) -> bool {
        r.0 == (CoseKdfContext { supp_priv_info: r.0.supp_priv_info, ..self.0 }) && r.0.supp_priv_info@ == self.0.supp_priv_info@.push(x)
    }
}
»

impl CoseKdfContextBuilder {
    
        /// Constructor for builder.
        pub fn new() -> Self {
            Self(<CoseKdfContext>::default())
        }
        /// Build the completed object.
        pub fn build(self) -> CoseKdfContext {
            self.0
        }
    
    
        /// Set the associated field.
        #[must_use]
        pub fn party_u_info(self, party_u_info: PartyInfo) -> Self { let mut self_ = self;
            self_.0.party_u_info = party_u_info;
            self_
        }
    
    
        /// Set the associated field.
        #[must_use]
        pub fn party_v_info(self, party_v_info: PartyInfo) -> Self { let mut self_ = self;
            self_.0.party_v_info = party_v_info;
            self_
        }
    
    
        /// Set the associated field.
        #[must_use]
        pub fn supp_pub_info(self, supp_pub_info: SuppPubInfo) -> Self { let mut self_ = self;
            self_.0.supp_pub_info = supp_pub_info;
            self_
        }
    

    /// Set the algorithm.
    #[must_use]
    pub fn algorithm(self, alg: iana::Algorithm) ->« (r:» Self«)
        ensures r.inner() == self.after_algorithm_id(alg),» { let mut self_ = self;
        self_.0.algorithm_id = Algorithm::Assigned(alg);
        self_
    }

    /// Add supplemental private info.
    #[must_use]
    pub fn add_supp_priv_info(self, supp_priv_info: Vec<u8>) ->« (r:» Self«)
        ensures self.after_add_supp_priv_info(r, supp_priv_info),» { let mut self_ = self;
        self_.0.supp_priv_info.push(supp_priv_info);
        self_
    }
}
