#![allow(unused_imports, dead_code)]
extern crate alloc;
use vstd::prelude::*;
use vstd::std_specs::cmp::*;
use alloc::{collections::BTreeSet, string::String, vec, vec::Vec};
use core::cmp::Ordering;
verus! {
#[derive(Clone, Debug, Eq, PartialEq)]
pub enum Label {
    Int(i64),
    Text(String),
}

// ---- trusted std string facts, via an uninterpreted utf8 view
pub uninterp spec fn utf8(s: Seq<char>) -> Seq<u8>;
pub broadcast axiom fn axiom_utf8_injective(a: Seq<char>, b: Seq<char>)
    ensures #[trigger] utf8(a) == #[trigger] utf8(b) ==> a == b;

pub broadcast axiom fn axiom_string_ext(a: String, b: String)
    ensures #[trigger] a@ == #[trigger] b@ ==> a == b;
pub open spec fn lex_cmp(a: Seq<u8>, b: Seq<u8>) -> Ordering
    decreases a.len()
{
    if a.len() == 0 { if b.len() == 0 { Ordering::Equal } else { Ordering::Less } }
    else if b.len() == 0 { Ordering::Greater }
    else if a[0] < b[0] { Ordering::Less }
    else if a[0] > b[0] { Ordering::Greater }
    else { lex_cmp(a.skip(1), b.skip(1)) }
}

pub assume_specification [ i64::signum ] (i: i64) -> (r: i64)
    ensures r == (if i > 0 { 1i64 } else if i == 0 { 0i64 } else { -1i64 });
pub assume_specification [ Ordering::then ] (a: Ordering, b: Ordering) -> (r: Ordering)
    ensures r == (if a is Equal { b } else { a });
pub assume_specification [ String::len ] (s: &String) -> (r: usize)
    ensures r == utf8(s@).len();
pub assume_specification [ <String as Ord>::cmp ] (a: &String, b: &String) -> (r: Ordering)
    ensures r == lex_cmp(utf8(a@), utf8(b@));

pub open spec fn rank(i: i64) -> int { if i >= 0 { i as int } else { 0x8000_0000_0000_0000 + (-1 - i) } }
pub open spec fn int_cmp(x: int, y: int) -> Ordering { if x < y { Ordering::Less } else if x == y { Ordering::Equal } else { Ordering::Greater } }
pub open spec fn label_cmp(a: Label, b: Label) -> Ordering {
    match (a, b) {
        (Label::Int(x), Label::Int(y)) => int_cmp(rank(x), rank(y)),
        (Label::Int(_), Label::Text(_)) => Ordering::Less,
        (Label::Text(_), Label::Int(_)) => Ordering::Greater,
        (Label::Text(x), Label::Text(y)) => if utf8(x@).len() != utf8(y@).len() { int_cmp(utf8(x@).len() as int, utf8(y@).len() as int) } else { lex_cmp(utf8(x@), utf8(y@)) },
    }
}
impl PartialEqSpecImpl for Label {
    open spec fn obeys_eq_spec() -> bool { true }
    open spec fn eq_spec(&self, other: &Self) -> bool { *self == *other }
}
impl OrdSpecImpl for Label {
    open spec fn obeys_cmp_spec() -> bool { true }
    open spec fn cmp_spec(&self, other: &Self) -> Ordering { label_cmp(*self, *other) }
}
impl PartialOrdSpecImpl for Label {
    open spec fn obeys_partial_cmp_spec() -> bool { true }
    open spec fn partial_cmp_spec(&self, other: &Self) -> Option<Ordering> { Some(label_cmp(*self, *other)) }
}

impl Ord for Label {
    fn cmp(&self, other: &Self) -> Ordering {
        match (self, other) {
            (Label::Int(i1), Label::Int(i2)) => match (i1.signum(), i2.signum()) {
                (-1, -1) => i2.cmp(i1),
                (-1, 0) => Ordering::Greater,
                (-1, 1) => Ordering::Greater,
                (0, -1) => Ordering::Less,
                (0, 0) => Ordering::Equal,
                (0, 1) => Ordering::Less,
                (1, -1) => Ordering::Less,
                (1, 0) => Ordering::Greater,
                (1, 1) => i1.cmp(i2),
                (_, _) => unreachable!(), // safe: all possibilies covered
            },
            (Label::Int(_i1), Label::Text(_t2)) => Ordering::Less,
            (Label::Text(_t1), Label::Int(_i2)) => Ordering::Greater,
            (Label::Text(t1), Label::Text(t2)) => t1.len().cmp(&t2.len()).then(t1.cmp(t2)),
        }
    }
}

impl PartialOrd for Label {
    fn partial_cmp(&self, other: &Self) -> Option<Ordering> {
        Some(self.cmp(other))
    }
}

proof fn lemma_lex_refl(a: Seq<u8>) ensures lex_cmp(a, a) is Equal decreases a.len() { if a.len() > 0 { lemma_lex_refl(a.skip(1)); } }
proof fn lemma_lex_eq(a: Seq<u8>, b: Seq<u8>) requires lex_cmp(a, b) is Equal ensures a == b decreases a.len() {
    if a.len() > 0 && b.len() > 0 { lemma_lex_eq(a.skip(1), b.skip(1)); assert(a =~= seq![a[0]] + a.skip(1)); assert(b =~= seq![b[0]] + b.skip(1)); } else { assert(a =~= b); }
}
proof fn lemma_lex_anti(a: Seq<u8>, b: Seq<u8>) ensures lex_cmp(a, b) is Less <==> lex_cmp(b, a) is Greater decreases a.len() {
    if a.len() > 0 && b.len() > 0 { lemma_lex_anti(a.skip(1), b.skip(1)); }
}
proof fn lemma_lex_trans(a: Seq<u8>, b: Seq<u8>, c: Seq<u8>)
    ensures (lex_cmp(a, b) is Less && lex_cmp(b, c) is Less) ==> lex_cmp(a, c) is Less,
            (lex_cmp(a, b) is Less && lex_cmp(b, c) is Equal) ==> lex_cmp(a, c) is Less,
            (lex_cmp(a, b) is Equal && lex_cmp(b, c) is Less) ==> lex_cmp(a, c) is Less,
    decreases a.len()
{
    if a.len() > 0 && b.len() > 0 && c.len() > 0 { lemma_lex_trans(a.skip(1), b.skip(1), c.skip(1)); }
}

proof fn laws()
    ensures vstd::laws_cmp::obeys_cmp::<Label>()
{
    reveal(vstd::laws_eq::obeys_eq_spec_properties);
    reveal(vstd::laws_cmp::obeys_cmp_partial_ord);
    reveal(vstd::laws_cmp::obeys_cmp_ord);
    reveal(vstd::laws_cmp::obeys_partial_cmp_spec_properties);
    broadcast use axiom_utf8_injective;
    broadcast use axiom_string_ext;
    assert forall |x: Label, y: Label| (x == y) == (#[trigger] label_cmp(x, y) is Equal) by {
        match (x, y) {
            (Label::Text(s), Label::Text(t)) => {
                lemma_lex_refl(utf8(s@));
                if lex_cmp(utf8(s@), utf8(t@)) is Equal { lemma_lex_eq(utf8(s@), utf8(t@)); }
            }
            _ => {}
        }
    }
    assert forall |a: Seq<u8>| #[trigger] lex_cmp(a, a) is Equal by { lemma_lex_refl(a); }
    assert forall |a: Seq<u8>, b: Seq<u8>| #[trigger] lex_cmp(a, b) is Equal implies a == b by { lemma_lex_eq(a, b); }
    assert forall |a: Seq<u8>, b: Seq<u8>| (#[trigger] lex_cmp(a, b) is Less) <==> (lex_cmp(b, a) is Greater) by { lemma_lex_anti(a, b); }
    assert forall |a: Seq<u8>, b: Seq<u8>, c: Seq<u8>| 
            ((#[trigger] lex_cmp(a, b) is Less && #[trigger] lex_cmp(b, c) is Less) ==> lex_cmp(a, c) is Less) &&
            ((lex_cmp(a, b) is Less && lex_cmp(b, c) is Equal) ==> lex_cmp(a, c) is Less) &&
            ((lex_cmp(a, b) is Equal && lex_cmp(b, c) is Less) ==> lex_cmp(a, c) is Less) by { lemma_lex_trans(a, b, c); }
}
fn use_set(s: &mut BTreeSet<Label>, k: Label) -> (r: bool)
   ensures r == !old(s)@.contains(k)
{
    broadcast use vstd::std_specs::btree::group_btree_axioms;
    proof { laws(); }
    s.insert(k)
}
}
fn main(){}
