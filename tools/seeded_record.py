#!/usr/bin/env python3
"""Record changes evaluated with tools/seeded_evalw.sh (demonstrations that are integration tests).
usage: seeded_record.py <round> <info.json>   info.json: {"C11": [k, "summary", "needs"], ...}
reads /tmp/sa<k>/{patch.diff,demo.rs}, /tmp/evalw<k>.log (first run) and, if present, /tmp/re<k>.log (run after strengthening);
writes seeded/<round>-<prop>-a/{patch.diff,demo.rs,meta.json} and appends a table to seeded/README.md."""
import json, re, os, sys, shutil
VERIF = os.path.dirname(os.path.dirname(os.path.abspath(__file__)))
rnd, info = sys.argv[1], json.load(open(sys.argv[2]))
PAT = r'VIOLATION|UNDECIDED|OK |FAILED-OBL|FAILING-INPUT|rc='
def lines(path, split=None):
    t = open(path).read()
    if split: t = t.split(split)[1]
    return [l[:300] for l in t.splitlines() if re.match(PAT, l)]
def by(c):
    fo = [l for l in c['lines'] if l.startswith('FAILED-OBL')]
    if c['exit'] == 2: return 'NOT caught: undecided'
    if c['exit'] == 0: return 'NOT caught: check passed'
    return 'verus obligation + failing input replayed on the real crate' if fo and any(l.startswith('FAILING-INPUT') for l in c['lines']) else \
           'verus obligation (no failing input found)' if fo else 'probe (failing input found after the verifier could not decide the changed tree)'
mk = lambda ls: {'exit': int([l for l in ls if l.startswith('rc=')][0][3:]), 'lines': [l for l in ls if not l.startswith('rc=')]}
rows = []; n_first = 0; n_final = 0
for p, (k, summary, needs) in sorted(info.items()):
    d = os.path.join(VERIF, 'seeded', '%s-%s-a' % (rnd, p)); os.makedirs(d, exist_ok=True)
    for f in ('patch.diff', 'demo.rs'): shutil.copy('/tmp/sa%d/%s' % (k, f), d)
    log = open('/tmp/evalw%d.log' % k).read()
    first = lines('/tmp/evalw%d.log' % k, '== check')
    final = lines('/tmp/re%d.log' % k) if os.path.exists('/tmp/re%d.log' % k) else first
    grab = lambda h: [l for l in re.findall(r'== %s\n((?:test result.*\n)+)' % re.escape(h), log)[0].strip().splitlines()]
    meta = {'property': p, 'summary': summary, 'needs': needs,
            'files': sorted(set(re.findall(r'^\+\+\+ b/(\S+)', open(os.path.join(d, 'patch.diff')).read(), re.M))),
            'tests_pass': True, 'demo_format': 'integration test (place demo.rs at tests/demo.rs of the crate; cargo test --offline --test demo)',
            'confirmed_by_me': {'scratch_worktree': '/tmp/sa%d (removed)' % k, 'tests_with_patch': grab('with patch: suite'),
                                'demo_with_patch': grab('with patch: demo'), 'demo_without_patch': grab('without patch: demo'),
                                'ran': 'tools/seeded_evalw.sh %d %s' % (k, p)},
            'check_result_first_run': mk(first), 'check_result': mk(final)}
    assert 'FAILED' in meta['confirmed_by_me']['demo_with_patch'][0] and ' 0 failed' in meta['confirmed_by_me']['demo_without_patch'][0]
    assert all(' 0 failed' in l for l in meta['confirmed_by_me']['tests_with_patch'])
    json.dump(meta, open(os.path.join(d, 'meta.json'), 'w'), indent=1)
    n_first += meta['check_result_first_run']['exit'] == 1; n_final += meta['check_result']['exit'] == 1
    fo = ', '.join(l.split('obligation=')[1] for l in meta['check_result']['lines'] if l.startswith('FAILED-OBL'))
    rows.append('| %s-%s-a | %s | %s | %s | %d | %s | %s | %s |' % (rnd, p, p, summary, needs[:200], meta['check_result']['exit'], by(meta['check_result']), fo, by(meta['check_result_first_run'])))
    print(p, meta['check_result_first_run']['exit'], meta['check_result']['exit'])
open(os.path.join(VERIF, 'seeded/README.md'), 'a').write('\n## Round %s: %d of %d reported (first run %d of %d)\n\n| id | property | change | needs | check exit | caught by | failed obligations | first run |\n|---|---|---|---|---|---|---|---|\n' % (rnd[1:], n_final, len(rows), n_first, len(rows)) + '\n'.join(rows) + '\n')
