#![allow(unused_imports, dead_code)]
use vstd::prelude::*;
use core::cmp::Ordering;
verus! {
pub open spec fn lex_cmp(a: Seq<u8>, b: Seq<u8>) -> Ordering
    decreases a.len()
{
    if a.len() == 0 { if b.len() == 0 { Ordering::Equal } else { Ordering::Less } }
    else if b.len() == 0 { Ordering::Greater }
    else if a[0] < b[0] { Ordering::Less }
    else if a[0] > b[0] { Ordering::Greater }
    else { lex_cmp(a.skip(1), b.skip(1)) }
}
pub open spec fn pow256(k: nat) -> nat decreases k { if k == 0 { 1 } else { 256 * pow256((k - 1) as nat) } }
// big-endian, k bytes
pub open spec fn be(n: nat, k: nat) -> Seq<u8> decreases k {
    if k == 0 { Seq::empty() } else { be(n / 256, (k - 1) as nat).push((n % 256) as u8) }
}
proof fn lemma_be_len(n: nat, k: nat) ensures be(n, k).len() == k decreases k { if k > 0 { lemma_be_len(n / 256, (k - 1) as nat); } }

// lex on equal-length prefixes followed by one byte
proof fn lemma_lex_push(p1: Seq<u8>, p2: Seq<u8>, x: u8, y: u8)
    requires p1.len() == p2.len()
    ensures lex_cmp(p1.push(x), p2.push(y)) == (if lex_cmp(p1, p2) is Equal { if x < y { Ordering::Less } else if x == y { Ordering::Equal } else { Ordering::Greater } } else { lex_cmp(p1, p2) })
    decreases p1.len()
{
    reveal_with_fuel(lex_cmp, 3);
    if p1.len() == 0 {
        assert(p1.push(x).skip(1) =~= Seq::<u8>::empty());
        assert(p2.push(y).skip(1) =~= Seq::<u8>::empty());
        assert(p1 =~= Seq::<u8>::empty() && p2 =~= Seq::<u8>::empty());
        assert(p1.push(x)[0] == x && p2.push(y)[0] == y);
    } else {
        assert(p1.push(x)[0] == p1[0] && p2.push(y)[0] == p2[0]);
        assert(p1.push(x).skip(1) =~= p1.skip(1).push(x));
        assert(p2.push(y).skip(1) =~= p2.skip(1).push(y));
        lemma_lex_push(p1.skip(1), p2.skip(1), x, y);
    }
}
proof fn lemma_be_mono(a: nat, b: nat, k: nat)
    requires a < b < pow256(k)
    ensures lex_cmp(be(a, k), be(b, k)) is Less
    decreases k
{
    if k == 0 { } else {
        lemma_be_len(a / 256, (k - 1) as nat); lemma_be_len(b / 256, (k - 1) as nat);
        lemma_lex_push(be(a / 256, (k - 1) as nat), be(b / 256, (k - 1) as nat), (a % 256) as u8, (b % 256) as u8);
        if a / 256 < b / 256 {
            assert(b / 256 < pow256((k - 1) as nat)) by (nonlinear_arith) requires b < 256 * pow256((k - 1) as nat);
            lemma_be_mono(a / 256, b / 256, (k - 1) as nat);
        } else {
            assert(a / 256 == b / 256);
            lemma_be_eq_refl(be(a / 256, (k - 1) as nat));
        }
    }
}
proof fn lemma_be_eq_refl(a: Seq<u8>) ensures lex_cmp(a, a) is Equal decreases a.len() { if a.len() > 0 { lemma_be_eq_refl(a.skip(1)); } }
proof fn lemma_be_inj(a: nat, b: nat, k: nat)
    requires a < pow256(k), b < pow256(k), be(a, k) == be(b, k)
    ensures a == b
    decreases k
{
    if k > 0 {
        let pa = be(a / 256, (k - 1) as nat); let pb = be(b / 256, (k - 1) as nat);
        lemma_be_len(a / 256, (k - 1) as nat); lemma_be_len(b / 256, (k - 1) as nat);
        assert(pa =~= be(a, k).drop_last());
        assert(pb =~= be(b, k).drop_last());
        assert(be(a, k).last() == (a % 256) as u8);
        assert(be(b, k).last() == (b % 256) as u8);
        assert(a / 256 < pow256((k - 1) as nat)) by (nonlinear_arith) requires a < 256 * pow256((k - 1) as nat);
        assert(b / 256 < pow256((k - 1) as nat)) by (nonlinear_arith) requires b < 256 * pow256((k - 1) as nat);
        lemma_be_inj(a / 256, b / 256, (k - 1) as nat);
    }
}

pub open spec fn width(n: nat) -> nat { if n < 24 { 0 } else if n < 0x100 { 1 } else if n < 0x10000 { 2 } else if n < 0x1_0000_0000 { 4 } else { 8 } }
pub open spec fn info(n: nat) -> nat { if n < 24 { n } else if n < 0x100 { 24 } else if n < 0x10000 { 25 } else if n < 0x1_0000_0000 { 26 } else { 27 } }
pub open spec fn head(major: nat, n: nat) -> Seq<u8> { seq![(major * 32 + info(n)) as u8] + be(n, width(n)) }

proof fn lemma_pow() ensures pow256(0) == 1, pow256(1) == 0x100, pow256(2) == 0x10000, pow256(4) == 0x1_0000_0000, pow256(8) == 0x1_0000_0000_0000_0000 {
    reveal_with_fuel(pow256, 10);
}
proof fn lemma_lex_cons(h1: u8, r1: Seq<u8>, h2: u8, r2: Seq<u8>)
    ensures lex_cmp(seq![h1] + r1, seq![h2] + r2) == (if h1 < h2 { Ordering::Less } else if h1 > h2 { Ordering::Greater } else { lex_cmp(r1, r2) })
{
    assert((seq![h1] + r1).skip(1) =~= r1);
    assert((seq![h2] + r2).skip(1) =~= r2);
}
pub proof fn lemma_head_mono(major: nat, a: nat, b: nat)
    requires major < 8, a < b < 0x1_0000_0000_0000_0000
    ensures lex_cmp(head(major, a), head(major, b)) is Less
{
    lemma_pow();
    lemma_lex_cons((major * 32 + info(a)) as u8, be(a, width(a)), (major * 32 + info(b)) as u8, be(b, width(b)));
    if width(a) == width(b) && a >= 24 {
        lemma_be_mono(a, b, width(a));
    } else if a < 24 && b < 24 {
        lemma_be_eq_refl(be(a, 0));
        assert(be(a, 0) =~= be(b, 0));
    }
}
pub proof fn lemma_head_major_order(m1: nat, a: nat, m2: nat, b: nat)
    requires m1 < m2 < 8, a < 0x1_0000_0000_0000_0000, b < 0x1_0000_0000_0000_0000
    ensures lex_cmp(head(m1, a), head(m2, b)) is Less
{
    lemma_lex_cons((m1 * 32 + info(a)) as u8, be(a, width(a)), (m2 * 32 + info(b)) as u8, be(b, width(b)));
}
// prefix-freeness of heads
pub proof fn lemma_head_pfree(m1: nat, a: nat, r1: Seq<u8>, m2: nat, b: nat, r2: Seq<u8>)
    requires m1 < 8, m2 < 8, a < 0x1_0000_0000_0000_0000, b < 0x1_0000_0000_0000_0000, head(m1, a) + r1 == head(m2, b) + r2
    ensures m1 == m2, a == b, r1 == r2
{
    lemma_pow();
    let x = head(m1, a) + r1; let y = head(m2, b) + r2;
    lemma_be_len(a, width(a)); lemma_be_len(b, width(b));
    assert(x[0] == (m1 * 32 + info(a)) as u8);
    assert(y[0] == (m2 * 32 + info(b)) as u8);
    assert(m1 == m2 && info(a) == info(b));
    assert(width(a) == width(b));
    let w = width(a);
    assert(be(a, w) =~= x.subrange(1, 1 + w as int));
    assert(be(b, w) =~= y.subrange(1, 1 + w as int));
    if a >= 24 { lemma_be_inj(a, b, w); }
    assert(r1 =~= x.subrange(1 + w as int, x.len() as int));
    assert(r2 =~= y.subrange(1 + w as int, y.len() as int));
}
// byte/text string items: head(major, len) ++ content
pub open spec fn enc_str(major: nat, c: Seq<u8>) -> Seq<u8> { head(major, c.len()) + c }
pub proof fn lemma_str_pfree(m1: nat, c1: Seq<u8>, r1: Seq<u8>, m2: nat, c2: Seq<u8>, r2: Seq<u8>)
    requires m1 < 8, m2 < 8, c1.len() < 0x1_0000_0000_0000_0000, c2.len() < 0x1_0000_0000_0000_0000, enc_str(m1, c1) + r1 == enc_str(m2, c2) + r2
    ensures m1 == m2, c1 == c2, r1 == r2
{
    assert(enc_str(m1, c1) + r1 =~= head(m1, c1.len()) + (c1 + r1));
    assert(enc_str(m2, c2) + r2 =~= head(m2, c2.len()) + (c2 + r2));
    lemma_head_pfree(m1, c1.len(), c1 + r1, m2, c2.len(), c2 + r2);
    assert(c1 =~= (c1 + r1).subrange(0, c1.len() as int));
    assert(c2 =~= (c2 + r2).subrange(0, c2.len() as int));
    assert(r1 =~= (c1 + r1).subrange(c1.len() as int, (c1 + r1).len() as int));
    assert(r2 =~= (c2 + r2).subrange(c2.len() as int, (c2 + r2).len() as int));
}
// Sig_structure-like: [tstr ctx, bstr a, bstr b, bstr c]
pub open spec fn enc4(ctx: Seq<u8>, a: Seq<u8>, b: Seq<u8>, c: Seq<u8>) -> Seq<u8> {
    head(4, 4) + (enc_str(3, ctx) + (enc_str(2, a) + (enc_str(2, b) + (enc_str(2, c) + Seq::<u8>::empty()))))
}
pub open spec fn small(s: Seq<u8>) -> bool { s.len() < 0x1_0000_0000_0000_0000 }
pub proof fn lemma_enc4_inj(x1: Seq<u8>, a1: Seq<u8>, b1: Seq<u8>, c1: Seq<u8>, x2: Seq<u8>, a2: Seq<u8>, b2: Seq<u8>, c2: Seq<u8>)
    requires small(x1), small(a1), small(b1), small(c1), small(x2), small(a2), small(b2), small(c2), enc4(x1, a1, b1, c1) == enc4(x2, a2, b2, c2)
    ensures x1 == x2, a1 == a2, b1 == b2, c1 == c2
{
    let t1 = enc_str(3, x1) + (enc_str(2, a1) + (enc_str(2, b1) + (enc_str(2, c1) + Seq::<u8>::empty())));
    let t2 = enc_str(3, x2) + (enc_str(2, a2) + (enc_str(2, b2) + (enc_str(2, c2) + Seq::<u8>::empty())));
    lemma_head_pfree(4, 4, t1, 4, 4, t2);
    lemma_str_pfree(3, x1, enc_str(2, a1) + (enc_str(2, b1) + (enc_str(2, c1) + Seq::<u8>::empty())), 3, x2, enc_str(2, a2) + (enc_str(2, b2) + (enc_str(2, c2) + Seq::<u8>::empty())));
    lemma_str_pfree(2, a1, enc_str(2, b1) + (enc_str(2, c1) + Seq::<u8>::empty()), 2, a2, enc_str(2, b2) + (enc_str(2, c2) + Seq::<u8>::empty()));
    lemma_str_pfree(2, b1, enc_str(2, c1) + Seq::<u8>::empty(), 2, b2, enc_str(2, c2) + Seq::<u8>::empty());
    lemma_str_pfree(2, c1, Seq::<u8>::empty(), 2, c2, Seq::<u8>::empty());
}
}
fn main(){}
