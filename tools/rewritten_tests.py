#!/usr/bin/env python3
"""Extraction validation (bounded, thorough tier): the REWRITTEN source that Verus is given - rules R1..R11 applied,
ghost text absent - is compiled as an ordinary crate in a scratch copy of the repository and the repository's own test
suite is run against it.  A rewrite that changed behaviour on anything the tests sample would show here.

The scratch copy lives in a fresh temporary directory outside /repo and /verif and is removed (with its build output)
before returning.  Result cached in build/cache on the hash of (rewritten modules, test files, shim text).

What is undone to make the text plain Rust again (all of it Verus-only syntax, none of it executable code):
  * `#[verifier::…]` attributes are dropped
  * `exec const X: Label ensures … { e }` goes back to `const X: Label = e;`
  * the pass-through shims of contracts/prelude.rs and contracts/x_stubs.rs (`#[verifier::external_body]` functions whose
    body is the real call) are copied with their requires/ensures removed
  * `macro_rules!` definitions (expanded away by R5; the test files still use `iana_registry!`), `#[cfg(test)] mod tests;`, the `//!` module docs' absence and the test-only helper `expect_err` (dropped by the
    extraction because Verus never sees test code) are restored from the original file.
"""
import hashlib
import json
import os
import re
import shutil
import subprocess
import sys
import tempfile
import time

sys.path.insert(0, os.path.dirname(os.path.abspath(__file__)))
import extract  # noqa: E402

VERIF = extract.VERIF
CACHE = os.path.join(VERIF, 'build', 'cache')


def plain_shims():
    """the external_body pass-through functions, as ordinary Rust"""
    out = {'vprelude': [], 'vstubs': []}
    for fname, mod in (('prelude.rs', 'vprelude'), ('x_stubs.rs', 'vstubs')):
        t = open(os.path.join(VERIF, 'contracts', fname)).read()
        for m in re.finditer(r'#\[verifier::external_body\]\s*pub fn (\w+)', t):
            i = m.start()
            arrow = t.index('-> (r: ', i)
            sig = t[t.index('pub fn', i):arrow]
            b = arrow + len('-> ')
            e = extract.match_brace(t, b, '(', ')')
            ret = t[b + 4:e].strip()
            body_start = t.index('\n{', e)
            body_end = extract.match_brace(t, body_start + 1)
            out[mod].append('%s-> %s %s\n' % (sig, ret, t[body_start + 1:body_end + 1]))
    return out


def deverus(src):
    src = re.sub(r'#\[verifier::[a-z_]+(?:\([^)]*\))?\]\s*', '', src)
    src = re.sub(r'exec const (\w+): Label ensures [^{]*\{ (.*?) \}', r'const \1: Label = \2;', src)
    return src


def build_crate(repo, dest):
    """copy repo to dest, replace each src/<m>/mod.rs by the rewritten text"""
    shutil.copytree(repo, dest, ignore=shutil.ignore_patterns('target', '.git'))
    util_src = open(os.path.join(repo, 'src/util/mod.rs')).read()
    regs = []
    h = hashlib.sha256()
    for m in extract.MODS:
        p = os.path.join(repo, 'src', m, 'mod.rs')
        orig = open(p).read()
        counts = {k: 0 for k in ['R1', 'R2', 'R3', 'R4', 'R5', 'R6', 'R7', 'R8', 'R9', 'R10', 'R11']}
        c = deverus(extract.rewrite(m, orig, util_src, regs, counts))
        if '#[cfg(test)]\nmod tests;\n' in orig:
            c += '\n#[cfg(test)]\nmod tests;\n'
        if m == 'util':
            i = orig.find('/// Check for an expected error.')
            j = orig.find('// Macros to reduce boilerplate')
            if 0 <= i < j:
                c += '\n' + orig[i:j]
        # macro definitions (expanded away by R5) are put back for the test files that use them
        macs = []
        pos = 0
        while True:
            i = orig.find('macro_rules!', pos)
            if i < 0:
                break
            e = extract.match_brace(orig, orig.index('{', i))
            macs.append('#[allow(unused_macros)]\n' + orig[i:e + 1])
            pos = e + 1
        c = '\n'.join(macs) + '\n' + c
        c = '#![allow(unused_imports, unused_variables, unused_mut, unused_braces, missing_docs, clippy::all)]\n' + c
        open(os.path.join(dest, 'src', m, 'mod.rs'), 'w').write(c)
        h.update(c.encode())
        tp = os.path.join(repo, 'src', m, 'tests.rs')
        if os.path.exists(tp):
            h.update(open(tp, 'rb').read())
    sh = plain_shims()
    lib = open(os.path.join(dest, 'src/lib.rs')).read()
    lib = lib.replace('#![deny(missing_docs)]', '')
    lib += '\n#[allow(missing_docs, dead_code, unused_imports)]\npub(crate) mod vprelude {\nuse alloc::{string::String, vec::Vec};\nuse core::cmp::Ordering;\nuse crate::cbor;\nuse crate::cbor::value::Value;\n%s}\n' % '\n'.join(sh['vprelude'])
    lib += '\n#[allow(missing_docs, dead_code, unused_imports)]\npub(crate) mod vstubs {\nuse crate::*;\nuse crate::cbor::value::Value;\n%s}\n' % '\n'.join(sh['vstubs'])
    open(os.path.join(dest, 'src/lib.rs'), 'w').write(lib)
    h.update(lib.encode())
    return h.hexdigest()


def run(repo=None):
    repo = repo or extract.REPO
    t0 = time.time()
    tmp = tempfile.mkdtemp(prefix='coset-rewritten-')
    try:
        dest = os.path.join(tmp, 'crate')
        key = build_crate(repo, dest)
        os.makedirs(CACHE, exist_ok=True)
        cp = os.path.join(CACHE, 'rewritten-tests-%s.json' % key[:24])
        if os.path.exists(cp):
            r = json.load(open(cp))
            r['cached'] = True
            return r
        env = dict(os.environ, CARGO_NET_OFFLINE='true', CARGO_TARGET_DIR=os.path.join(tmp, 'target'))
        cmd = ['cargo', 'test', '--offline', '--lib', '--no-fail-fast']
        p = subprocess.run(cmd, cwd=dest, env=env, capture_output=True, text=True, timeout=1200)
        out = p.stdout + p.stderr
        m = re.search(r'test result: (\w+)\. (\d+) passed; (\d+) failed', out)
        r = {'cmd': 'cargo test --offline --lib --no-fail-fast (on the rewritten source, scratch copy removed afterwards)',
             'rc': p.returncode, 'passed': int(m.group(2)) if m else 0, 'failed': int(m.group(3)) if m else -1,
             'compiled': m is not None, 'failed_tests': re.findall(r'^test (\S+) \.\.\. FAILED', out, flags=re.M),
             'tail': out[-1500:] if (p.returncode != 0) else '', 'wall_s': round(time.time() - t0, 1), 'cached': False,
             'label': 'bounded stand-in for assumption A-EXTRACT (rewrites preserve behaviour): the repository test suite run against the rewritten source'}
        json.dump(r, open(cp, 'w'))
        return r
    finally:
        shutil.rmtree(tmp, ignore_errors=True)


if __name__ == '__main__':
    r = run()
    print(json.dumps(r, indent=1))
    sys.exit(0 if (r['compiled'] and r['failed'] == 0 and r['rc'] == 0) else 1)
