#!/usr/bin/env python3
"""(Re)write /verif/MANIFEST.json from tools/obligations.py and the texts below."""
import json, os, sys
sys.path.insert(0, os.path.dirname(os.path.abspath(__file__)))
import obligations
VERIF = os.path.dirname(os.path.dirname(os.path.abspath(__file__)))
props = [json.loads(l) for l in open(os.path.join(VERIF, 'properties.jsonl'))]

TRUST = ('Trusted: ciborium (bytes<->Value, assumed contracts A-PARSE/A-SER on the two pass-through shims), vstd and the added std '
         'assume_specifications, derived Clone/Default, the `?`-uses-From axiom, Value extensionality, the syntactic rewrites R1-R11 of the '
         'extractor, Verus/Z3. Every such item is listed by name in the evidence file (trusted_base).')
TEXT = {
 'C03': ('The real sig_structure_data, SignatureContext::text, CoseSign1/CoseSign tbs_data and tbs_detached_data, ProtectedHeader::cbor_bstr, '
         'Header::to_cbor_value and the generic to_vec are verified by Verus against the RFC 8152 4.4 structure written as a spec function: '
         'the returned bytes equal enc([context, slot(body), (slot(sign),) aad, payload]) for all inputs, where slot() is the stored bytes, '
         'the empty string, or enc of the header map. Unbounded in every argument.', '4 C03'),
 'C04': ('mac_structure_data, MacContext::text, CoseMac/CoseMac0 tbm, verify_tag, create_tag, try_create_tag verified against the RFC 8152 6.3 '
         'MAC_structure spec function; the bytes handed to the closure are exactly that encoding (existentially quantified witness tied by call_ensures); '
         'the payload precondition is the documented panic.', '4 C04'),
 'C05': ('enc_structure_data, EncryptionContext::text, the three decrypt methods, recipient aad and all create_ciphertext variants verified against the '
         'RFC 8152 5.3 Enc_structure spec function, with the recipient-context and ciphertext-present preconditions being the documented panics.', '4 C05'),
 'C06': ('Every create/add/try_* helper is verified to hand the closure exactly the structure bytes computed from the builder state at call time and to store '
         'the closure result with all other fields unchanged (whole-struct frame); verify/decrypt helpers are verified to pass the stored signature/tag/ciphertext '
         'first, the recomputed structure second and to return the closure result unchanged. The wire hop is a proved lemma family (x_wirehop.rs): whatever Value carries the data-model view the built message encodes to, every decoding of it has the same to-be-signed / MACed / additional-data bytes (any external AAD, embedded and detached) and the same stored signature / tag / ciphertext, for Sign1, each signer of Sign, Mac0, Mac, Encrypt0 and Encrypt; the same hop is run end to end by an always-on bounded probe. Sequences of calls: composition of these total per-call contracts.', '4 C06'),
 'C02': ('ProtectedHeader::from_cbor_bstr(_nested) is verified to store exactly the received byte string next to the parsed header (prot_res: original_data == Some(wire bytes), '
         'at every nesting level through the recursive result relations of Header/CoseSignature decoding); cbor_bstr is verified to return those bytes unchanged (and the empty string / the '
         'encoded map for built headers); every carrier decoder/encoder and the three structure builders are verified to take the protected slot from these two functions (the typed wrappers around the structure builders have whole-structure contracts that belong to C03-C06; what C02 says about them is checked slot by slot by an always-on bounded probe); the expanded '
         'builder_set_protected! setters are verified to reset original_data to None. The parsed view depends only on the Value (data-model) handed over by ciborium.', '4 C02'),
 'C09': ('Each of the eight array decoders is verified against an iff acceptance predicate (exact arity, protected bstr empty or exactly one well-formed header map, header map, bstr/nil payload, bstr signature/tag, '
         'element-wise nested arrays) and a result relation (every field equals its slot, nil -> None, nested structures by the same relations). Nested arrays go through the assumed element-wise contract of '
         'try_as_array_then_convert (iterator adapters are outside Verus); the recursive COSE_recipient edge is cut by a contract stub whose contract is re-verified against the real callee.', '4 C09'),
 'C13': ('read_to_value is verified against the parse model (exactly one item, ExtraneousData when bytes remain, DecodeFailed when no item parses); from_slice/to_vec/from_tagged_slice/to_tagged_vec are verified to be the '
         'composition of parse/serialise with the Value conversions (stated through the trait-level relations); suffix/prefix rejection are lemmas over the two assumed parser properties P1 (prefix-determined) and P2 (no proper prefix parses).', '4 C13'),
 'C14': ('from_tagged_slice is verified to accept iff the item is Tag(Self::TAG, inner) and the untagged decoder accepts inner (same value), to_tagged_vec to emit enc(Tag(Self::TAG, value)); all six untagged decoders are verified to reject '
         'Tag items (lemma), hence doubly tagged input is rejected. The numeric TAG constants (an enum cast Verus rejects in a const initialiser) are checked against the IANA numbers by a complete, loop-free Kani harness on the real crate.', '4 C14'),
 'C17': ('All 16 registries: from_i64/to_i64 are verified against spec functions generated from each macro invocation, enum laws (mutual inverse, injective) are proved, and every name is proved to carry the integer of an independent '
         'oracle (oracle/iana.json) with no other integer registered for the 15 registries transcribed completely; the same tables are re-checked on the compiled crate over ALL i64 by complete Kani harnesses; is_private is verified to be '
         'i < -65536; the three label decoders are verified to classify registered / private-use / unregistered integers and keep text.', '4 C17'),
 'C10': ('CoseKey::from_cbor_value is verified against an iff acceptance predicate (map, distinct int-or-text labels, mandatory non-reserved registered-or-text kty, non-empty kid/base IV, '
         'registered/private/text alg, non-empty array of distinct registered-or-text operations) plus the complete field mapping (each typed field equals the wire value under its label, operations as a set, '
         'extras unchanged in wire order); the two BTreeSets rest on order laws that are PROVED for Label and RegisteredLabel<T>; CoseKeySet is element-wise through the assumed contract of try_as_array_then_convert.', '4 C10'),
 'C15': ('Every narrowing site (the three label decoders, Nonce, key_data_length, Timestamp) is verified to return exactly int_val(i) when it is in range and an error otherwise (OutOfRangeIntegerValue for labels and timestamps); '
         'widening sites are verified to produce a CBOR integer of the same value; extras are moved untouched (frame clauses of the map decoders). The assumed behaviour of ciborium Integer conversions (A-INTEGER) is itself checked '
         'over ALL integers of CBOR range [-2^64, 2^64-1] by complete Kani harnesses on the real crate.', '4 C15'),
 'C16': ('The verbatim Ord impls of Label, RegisteredLabel<T>, RegisteredLabelWithPrivate<T> are verified to compute a rank/utf8 comparison spec; vstd::laws_cmp::obeys_cmp (reflexive, equal iff ==, antisymmetric, transitive, total) is PROVED for Label and '
         'RegisteredLabel<T>; the spec order is proved equal to bytewise lexicographic order of the deterministic encodings (lemma over an explicit CBOR head encoder, all lengths), cmp_canonical is verified to be length-first-then-bytewise on the '
         'encodings ciborium emits (S1); the integer half is re-checked over ALL i64 x i64 on the compiled crate by Kani. RegisteredLabelWithPrivate obeys the laws only on well-formed labels (PrivateUse(i) for unregistered i), which is what decoding and the builders produce.', '4 C16'),
 'C18': ('ClaimsSet::from_cbor_value verified against iff acceptance (map, distinct registered/private/text claim keys, text iss/sub/aud, int-in-range-or-float exp/nbf/iat, bstr cti) + complete field mapping; Timestamp, PartyInfo, SuppPubInfo, CoseKdfContext '
         'against iff + slot mapping (KDF context through the R9 loop rewrite with a verified invariant); all encoders against functional CV specs; the ClaimsSet fixed point (decode-encode-decode gives the same claims set, re-encoding the same value) and determinism of the decode relation are proved lemmas. Set semantics of BTreeSet<ClaimName> is assumed on well-formed labels (R10 shims).', '4 C18'),
 'C19': ('Every builder method (macro-expanded setters via contracts generated from each macro invocation, hand-written ones by inserted contracts) is verified against a whole-struct frame postcondition r.inner() == T { field: value, ..self.inner() }; '
         'iv/partial_iv clear each other; builder_set_protected! resets original_data; key constructors are verified to produce exactly kty + named parameters; the four reserved-label guards are verified under the documented precondition and '
         'their necessity copies (precondition removed) must fail at the panic; since that shows only that SOME call outside the precondition panics, a bounded probe on the real crate (run with every check, reported as bounded) calls every reserved label and a few non-reserved ones. IV exclusivity along ANY sequence of HeaderBuilder calls is a proved reachability lemma over the per-call contracts (lemma_builder_iv_exclusive); other sequence claims: composition of these total per-call contracts (induction on paper).', '4 C19'),
 'C01': ('Every exec function on the decode path (read_to_value, the trait default methods, all from_cbor_value/from_cbor_bstr/_nested functions, the Value extractors) and every follow-up helper (to_cbor_value, to_vec, tbs_*, verify_*, tbm, decrypt, canonicalize) is verified by Verus '
         'to be panic-free (no unwrap/expect/panic!/index/remove out of range/arithmetic overflow reachable) and terminating for ALL inputs, with no precondition or only the documented ones; lemmas show that every decoded value meets the helpers\' serialisability precondition. '
         'Termination of the Header <-> CoseSignature <-> ProtectedHeader recursion is proved with the measure (16 - depth, value) introduced by the nesting-limit fix, so re-parse depth is at most 16 and Value-level depth is bounded by ciborium\'s 256. '
         'NOT decided by contracts: stack bytes, wall time, heap (no cost model) and compiler-generated Clone/PartialEq/Drop: a bounded measurement on the real crate (2 MiB stack, nesting 15/16/3000/100000) runs with every check and is reported as bounded.', '4 C01'),
 'C07': ('For every type the decoder is verified against an iff acceptance predicate plus a result relation and the encoder against a functional data-model spec; lemmas prove that every decoded value (any nesting) encodes successfully. The fixed point is proved at EVERY nesting level (counter signatures, their protected and unprotected headers, recipients of recipients) for Header, CoseSignature, CoseSign1, CoseSign, CoseMac0, CoseMac, CoseEncrypt0, CoseEncrypt, CoseRecipient and ClaimsSet: if v is accepted with result x and v1 is any Value whose data-model view is what to_cbor_value(x) returns, then v1 is accepted with the SAME result x (retained protected bytes included), every result of decoding v1 equals x field by field at every level, and it encodes to the same data-model value (hence the same bytes) again; for CoseKey decode(encode(k)) = k. Hypothesis of these lemmas (not an axiom): re-parsing the bytes ciborium wrote yields a Value with the serialised data-model view (false only for NaN payloads, which the property excludes). CoseKey / CoseKeySet: a decoded key encodes and every decoding of its encoding is view-equal to it (element-wise for sets). PartyInfo / SuppPubInfo / CoseKdfContext: the same fixed-point lemmas. Tagged forms: the generic tagged methods are verified against Self::TAG. A bounded round-trip probe on the real crate runs in the thorough tier.', '4 C07'),
 'C11': ("Every to_cbor_value is verified against a functional spec X_cv(self) written from the CDDL (non-empty field once under its IANA label / in its slot, empties omitted, extras in order, empty protected -> zero-length bstr, single counter signature inlined, None -> nil, recipients omitted when empty) with success iff X_encodable(self); to_vec/to_tagged_vec give enc(vv(v)) and S1 (assumed) makes that the definite-length shortest-head encoding. Decode-of-encode = identity is proved for CoseKey, for in-memory header maps without counter signatures and for in-memory ClaimsSets (any value meeting the decoder's value rules); for values with counter signatures / recipients it is proved for those obtained by decoding (C07 lemmas), not for arbitrary in-memory nesting.", '4 C11'),
 'C12': ('Decode: the acceptance predicates of Header (every nesting level), CoseKey and ClaimsSet contain pairwise-distinct labels and the decoders are verified to accept iff the predicate holds, so every map with a repeated label is rejected whatever the values and positions; error kind: when the first defect in wire order is a repeated label (all earlier pairs valid and distinct) the result is proved to be Err(DuplicateMapKey) for all three decoders. Encode: Header and CoseKey are verified to succeed iff no extra label repeats another or names a populated typed field, and lemmas prove the emitted keys pairwise distinct; ClaimsSet has no check (KNOWN FINDING, pinned by an existing test). Builders: reserved-label guards verified + necessity copies.', '4 C12'),
 'C20': ('canonicalize is verified (with the assumed std contract of sort_by and the comparator contracts of C16) to leave every other field unchanged, to permute params (multiset equality) and to leave them sorted under the chosen comparator; lemmas prove that a key with distinct, non-typed, non-zero extra labels then encodes with strictly ascending map keys, for both orders: Label order (= bytewise order of the encoded keys, C16) and length-first order (cmp_canonical = length first, then bytewise, on the encodings ciborium emits). Canonicalising again is a no-op: proved for keys with pairwise distinct extra labels (uniqueness of the sorted arrangement), and checked on the real function called twice (for the length-first order under the hypothesis that distinct labels have distinct encodings). Label 0 is a KNOWN FINDING.', '4 C20'),
 'C08': ('Header::from_cbor_value(_nested) is verified against r is Ok <=> hdr_ok(value, depth), a declarative predicate written from RFC 8152 3.1 (map; labels int-in-i64 or text, pairwise distinct; alg registered/private/text; crit non-empty array of registered-int-or-text; '
         'content type registered CoAP format or non-empty text with exactly one \'/\' and no surrounding whitespace; kid/IV/Partial IV non-empty bstr, never both IVs; counter signature one COSE_Signature or a non-empty array of them, recursively, with the nesting limit), '
         'and against the result relation hdr_res (every typed field equals the value under its label, absent -> None/empty, all other pairs kept unchanged in wire order, counter signatures and their protected headers by the same relations at every level). '
         'Everything is a function of the ciborium Value, i.e. of the data model. trim()/matches() are uninterpreted (trimmed(s) == s, count_char(s, \'/\') == 1 define the two text rules).', '4 C08'),
}
checks = []
for p in props:
    pid = p['id']
    if pid in obligations.OBLIGATIONS and pid in TEXT:
        txt, ref = TEXT[pid]
        checks.append({
            'property_id': pid,
            'quick_cmd': 'python3 tools/check.py %s --tier quick' % pid,
            'thorough_cmd': 'python3 tools/check.py %s --tier thorough' % pid,
            'evidence_file': '/verif/evidence/%s.json' % pid,
            'replay_cmd_template': 'python3 tools/check.py --replay {path}',
            'engine': 'verus+kani' if any(k.startswith('kani') for _, k in obligations.OBLIGATIONS[pid]) else 'verus',
            'level_claimed': {'category': 'proof', 'text': txt, 'design_ref': 'DESIGN.md section ' + ref},
            'level_note': TRUST,
            'technique': 'contract-based deductive verification (Verus/Z3) of the real functions, re-extracted from /repo on every run',
        })
claimed = set(c['property_id'] for c in checks)
na = [{'property_id': p['id'], 'reason': 'check not built yet (work in progress; contracts are being written)'} for p in props if p['id'] not in claimed]
m = {
 'version': 1,
 'setup_cmd': 'python3 tools/setup.py',
 'hooks': {'guard': 'google_coset_verif', 'enable': 'none needed: contracts live in /verif/contracts and are merged into a mechanical re-extraction of /repo/src on every run; /repo carries no hook code',
           'baseline_off_cmd': 'cd /repo && cargo test --workspace --no-fail-fast --offline', 'source_commits': [], 'add_only': True},
 'engines': [{'name': 'kani', 'path': '/verif/tools/runkani.py', 'serves_properties': sorted(p for p in claimed if any(k.startswith('kani') for _, k in obligations.OBLIGATIONS[p])), 'kind_free_text': 'Kani 0.68 / CBMC 6.11 harnesses in /verif/kani on the real crate (path dependency on /repo); complete = loop-free over full symbolic domains'},
  {'name': 'verus', 'path': '/verif/tools/check.py', 'serves_properties': sorted(claimed),
              'kind_free_text': 'Verus 0.2026.09.13 (Z3) on a file generated from /repo/src/*/mod.rs by tools/extract.py, linked against the real ciborium rlibs'}],
 'checks': checks,
 'not_applicable': na,
 'notes': 'fix: commits in /repo: 0a1b5cb (C12 encode duplicates), 0ec8fc4 (C01 nesting limit); see known_findings.txt and DESIGN.md',
}
json.dump(m, open(os.path.join(VERIF, 'MANIFEST.json'), 'w'), indent=1)
print('checks:', sorted(claimed))
