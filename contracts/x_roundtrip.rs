// C07 / C11: decode(encode(h)) gives back h, for header maps WITHOUT counter signatures (the recursive case is not proved).
// Bridges the functional encode spec (CV level) and the decode relations (Value level).
mod vroundtrip {
use vstd::prelude::*;
use crate::*;
use crate::vprelude::*;
use crate::header::*;
use crate::common::{label_of, reg_of, regp_of, label_cv, reg_cv, regp_cv, wf_regp, nonempty_bytes};
use crate::iana::{EnumI64, WithPrivateRange};
use ciborium::value::Value;
verus!{
// ---- a Value is determined (as far as the decoders look) by its data-model view
pub proof fn lemma_vv_int(v: Value, n: int)
    requires vv(v) == CV::Int(n),
    ensures v matches Value::Integer(x) && int_val(x) == n,
{ reveal_with_fuel(vv, 1); }
pub proof fn lemma_vv_text(v: Value, s: Seq<char>)
    requires vv(v) == CV::Text(s),
    ensures v matches Value::Text(t) && t@ == s,
{ reveal_with_fuel(vv, 1); }
pub proof fn lemma_vv_bytes(v: Value, b: Seq<u8>)
    requires vv(v) == CV::Bytes(b),
    ensures v matches Value::Bytes(x) && x@ == b,
{ reveal_with_fuel(vv, 1); }
pub proof fn lemma_vv_array_shape(v: Value, s: Seq<CV>)
    requires vv(v) == CV::Array(s),
    ensures v is Array, arr_of(v).len() == s.len(), forall |j: int| 0 <= j < s.len() ==> vv(#[trigger] arr_of(v)[j]) == s[j],
{
    reveal_with_fuel(vv, 1);
    match v { Value::Array(a) => { lemma_vv_array(a); assert(vv_seq(a@) == s); assert forall |j: int| 0 <= j < s.len() implies vv(#[trigger] arr_of(v)[j]) == s[j] by { assert(vv_seq(a@)[j] == vv(a@[j])); } } _ => {} }
}
pub proof fn lemma_vv_map_shape(v: Value, m: Seq<(CV, CV)>)
    requires vv(v) == CV::Map(m),
    ensures v is Map, map_of(v).len() == m.len(), forall |j: int| 0 <= j < m.len() ==> (vv((#[trigger] map_of(v)[j]).0), vv(map_of(v)[j].1)) == m[j],
{
    reveal_with_fuel(vv, 1);
    match v { Value::Map(a) => { lemma_vv_map(a); assert(vv_pairs(a@) == m); assert forall |j: int| 0 <= j < m.len() implies (vv((#[trigger] map_of(v)[j]).0), vv(map_of(v)[j].1)) == m[j] by { lemma_vv_pairs_index(a@, j); } } _ => {} }
}
pub proof fn lemma_label_of_cv(k: Value, l: Label)
    requires vv(k) == label_cv(l),
    ensures label_of(k) == Some(l),
{
    broadcast use axiom_string_ext;
    match l { Label::Int(i) => { lemma_vv_int(k, i as int); } Label::Text(t) => { lemma_vv_text(k, t@); } }
}
pub proof fn lemma_label_cv_of(k: Value, l: Label)
    requires label_of(k) == Some(l),
    ensures vv(k) == label_cv(l),
{ reveal_with_fuel(vv, 1); }
pub proof fn lemma_regp_of_cv<T: EnumI64 + WithPrivateRange>(v: Value, a: crate::RegisteredLabelWithPrivate<T>)
    requires vv(v) == regp_cv(a), wf_regp(a),
    ensures regp_of::<T>(v) == Some(a),
{
    broadcast use axiom_string_ext;
    T::lemma_enum_laws();
    match a {
        crate::RegisteredLabelWithPrivate::PrivateUse(i) => { lemma_vv_int(v, i as int); }
        crate::RegisteredLabelWithPrivate::Assigned(x) => { lemma_vv_int(v, x.spec_to_i64() as int); }
        crate::RegisteredLabelWithPrivate::Text(t) => { lemma_vv_text(v, t@); }
    }
}
pub proof fn lemma_reg_of_cv<T: EnumI64>(v: Value, a: crate::RegisteredLabel<T>)
    requires vv(v) == reg_cv(a),
    ensures reg_of::<T>(v) == Some(a),
{
    broadcast use axiom_string_ext;
    T::lemma_enum_laws();
    match a {
        crate::RegisteredLabel::Assigned(x) => { lemma_vv_int(v, x.spec_to_i64() as int); }
        crate::RegisteredLabel::Text(t) => { lemma_vv_text(v, t@); }
    }
}
// ---- structure of the typed part of an encoded header
pub open spec fn tp(h: Header, n: int) -> bool { typed_present(h, Label::Int(n as i64)) }
pub proof fn lemma_typed_prefix_entries(h: Header, k: int)
    requires 0 <= k <= 7,
    ensures
        forall |i: int| 0 <= i < hdr_typed_prefix(h, k).len() ==> ((#[trigger] hdr_typed_prefix(h, k)[i]).0 matches CV::Int(n) && 1 <= n <= k
            && typed_present(h, Label::Int(n as i64)) && hdr_typed_prefix(h, k)[i].1 == hdr_typed_val(h, n)),
        forall |n: int| 1 <= n <= k && #[trigger] tp(h, n) ==> exists |i: int| 0 <= i < hdr_typed_prefix(h, k).len() && (#[trigger] hdr_typed_prefix(h, k)[i]).0 == CV::Int(n),
    decreases k
{
    reveal_with_fuel(hdr_typed_prefix, 1);
    if k > 0 {
        lemma_typed_prefix_entries(h, k - 1);
        let p = hdr_typed_prefix(h, k - 1); let e = hdr_typed_entry(h, k); let l = hdr_typed_prefix(h, k);
        assert(l == p + e);
        assert forall |i: int| 0 <= i < l.len() implies ((#[trigger] l[i]).0 matches CV::Int(n) && 1 <= n <= k && typed_present(h, Label::Int(n as i64)) && l[i].1 == hdr_typed_val(h, n)) by {
            if i < p.len() { assert(l[i] == p[i]); } else { assert(l[i] == e[i - p.len()]); }
        }
        assert forall |n: int| 1 <= n <= k && #[trigger] tp(h, n) implies exists |i: int| 0 <= i < l.len() && (#[trigger] l[i]).0 == CV::Int(n) by {
            if n < k { assert(tp(h, n)); let i = choose |i: int| 0 <= i < p.len() && (#[trigger] p[i]).0 == CV::Int(n); assert(l[i] == p[i]); }
            else { assert(l[p.len() as int] == e[0]); }
        }
    }
}
/// in-memory headers for which the flat round trip is stated: what decoding produces, minus counter signatures
pub open spec fn hdr_mem_ok_flat(h: Header) -> bool { hdr_mem_ok(h) && h.counter_signatures@.len() == 0 }
/// the same conditions at one level, saying nothing about the counter signatures
pub open spec fn hdr_mem_ok(h: Header) -> bool {
    (h.alg matches Some(a) ==> wf_regp(a))
    && (h.content_type matches Some(crate::RegisteredLabel::Text(t)) ==> ct_text_ok(t@))
    && !(h.iv@.len() > 0 && h.partial_iv@.len() > 0)
    && (forall |i: int, j: int| 0 <= i < j < h.rest@.len() ==> (#[trigger] h.rest@[i]).0 != (#[trigger] h.rest@[j]).0)
    && (forall |i: int| 0 <= i < h.rest@.len() ==> !is_typed_hdr_label((#[trigger] h.rest@[i]).0))
}
pub open spec fn hdr_same(a: Header, b: Header) -> bool {
    a.alg == b.alg && a.crit@ == b.crit@ && a.content_type == b.content_type && a.key_id@ == b.key_id@ && a.iv@ == b.iv@ && a.partial_iv@ == b.partial_iv@
    && a.counter_signatures@.len() == b.counter_signatures@.len() && a.rest@ == b.rest@
}
/// number of typed entries / total entries of the re-encoded map
pub open spec fn tlen(h: Header) -> int { hdr_typed_prefix(h, 7).len() as int }
/// entry i of the re-encoded map, seen by the decoder
proof fn lemma_encoded_pair(h: Header, v1: Value, d: nat, i: int)
    requires hdr_mem_ok(h), vv(v1) == hdr_cv(h), 0 <= i < map_of(v1).len(),
    ensures
        v1 is Map, map_of(v1).len() == tlen(h) + h.rest@.len(),
        label_of(map_of(v1)[i].0) == Some(Label::Int(7)) || hdr_pair_ok(map_of(v1)[i].0, map_of(v1)[i].1, d),
        i < tlen(h) ==> (label_of(map_of(v1)[i].0) matches Some(Label::Int(n)) && 1 <= n <= 7 && tp(h, n as int) && vv(map_of(v1)[i].1) == hdr_typed_val(h, n as int)
                         && hdr_typed_prefix(h, 7)[i].0 == CV::Int(n as int)),
        i >= tlen(h) ==> (label_of(map_of(v1)[i].0) == Some(h.rest@[i - tlen(h)].0) && map_of(v1)[i].1 == h.rest@[i - tlen(h)].1),
{
    broadcast use axiom_vv_injective;
    reveal_with_fuel(hdr_cv, 2); reveal_with_fuel(hdr_typed_entries, 2); reveal_with_fuel(hdr_typed_prefix, 1); reveal(rest_entries);
    let t = hdr_typed_prefix(h, 7); let r = rest_entries(h.rest@); let e = t + r;
    assert(hdr_cv(h) == CV::Map(e));
    lemma_vv_map_shape(v1, e);
    lemma_typed_prefix_entries(h, 7);
    let k = map_of(v1)[i].0; let val = map_of(v1)[i].1;
    assert((vv(k), vv(val)) == e[i]);
    if i < t.len() {
        assert(e[i] == t[i]);
        let n = t[i].0->Int_0;
        lemma_label_of_cv(k, Label::Int(n as i64));
        reveal_with_fuel(hdr_typed_val, 1);
        if n == 1 { lemma_regp_of_cv::<iana::Algorithm>(val, h.alg->0); }
        else if n == 2 {
            lemma_vv_array_shape(val, crit_cv(h.crit@)->Array_0);
            assert forall |j: int| 0 <= j < arr_of(val).len() implies (#[trigger] reg_of::<iana::HeaderParameter>(arr_of(val)[j])) is Some by { lemma_reg_of_cv::<iana::HeaderParameter>(arr_of(val)[j], h.crit@[j]); }
            assert(crit_ok(val));
        }
        else if n == 3 { lemma_reg_of_cv::<iana::CoapContentFormat>(val, h.content_type->0); assert(ct_ok(val)); }
        else if n == 4 { lemma_vv_bytes(val, h.key_id@); }
        else if n == 5 { lemma_vv_bytes(val, h.iv@); }
        else if n == 6 { lemma_vv_bytes(val, h.partial_iv@); }
    } else {
        let j = i - t.len();
        assert(e[i] == r[j]);
        lemma_label_of_cv(k, h.rest@[j].0);
    }
}
proof fn lemma_encoded_len(h: Header, v1: Value)
    requires vv(v1) == hdr_cv(h),
    ensures v1 is Map, map_of(v1).len() == tlen(h) + h.rest@.len(),
{
    reveal_with_fuel(hdr_cv, 2); reveal_with_fuel(hdr_typed_entries, 2); reveal_with_fuel(hdr_typed_prefix, 1); reveal(rest_entries);
    let e = hdr_typed_prefix(h, 7) + rest_entries(h.rest@);
    assert(hdr_cv(h) == CV::Map(e));
    lemma_vv_map_shape(v1, e);
}
/// a present typed field sits at some typed position of the re-encoded map
proof fn lemma_encoded_typed_index(h: Header, v1: Value, d: nat, n: int) -> (i: int)
    requires hdr_mem_ok(h), vv(v1) == hdr_cv(h), 1 <= n <= 7, tp(h, n),
    ensures 0 <= i < tlen(h), i < map_of(v1).len(), label_of(map_of(v1)[i].0) == Some(Label::Int(n as i64)), vv(map_of(v1)[i].1) == hdr_typed_val(h, n),
{
    lemma_typed_prefix_entries(h, 7);
    let t = hdr_typed_prefix(h, 7);
    let i = choose |i: int| 0 <= i < t.len() && (#[trigger] t[i]).0 == CV::Int(n);
    // the map has at least the typed entries
    reveal_with_fuel(hdr_cv, 2); reveal_with_fuel(hdr_typed_entries, 2); reveal_with_fuel(hdr_typed_prefix, 1);
    lemma_vv_map_shape(v1, t + rest_entries(h.rest@));
    lemma_encoded_pair(h, v1, d, i);
    i
}
proof fn lemma_encoded_labels_distinct(h: Header, v1: Value, d: nat)
    requires hdr_mem_ok(h), vv(v1) == hdr_cv(h),
    ensures hdr_labels_distinct(map_of(v1)),
{
    reveal(hdr_labels_distinct);
    let m = map_of(v1); let tl = tlen(h);
    lemma_typed_prefix_keys(h, 7);
    let t = hdr_typed_prefix(h, 7);
    assert forall |i: int, j: int| 0 <= i < j < m.len() implies #[trigger] label_of(m[i].0) != #[trigger] label_of(m[j].0) by {
        lemma_encoded_pair(h, v1, d, i); lemma_encoded_pair(h, v1, d, j);
        if j < tl { assert(t[i].0->Int_0 < t[j].0->Int_0); }
        else if i >= tl { assert(h.rest@[i - tl].0 != h.rest@[j - tl].0); }
        else { assert(is_typed_hdr_label(label_of(m[i].0)->0)); assert(!is_typed_hdr_label(h.rest@[j - tl].0)); }
    }
}
proof fn lemma_encoded_presence(h: Header, v1: Value, d: nat, n: int)
    requires hdr_mem_ok(h), vv(v1) == hdr_cv(h), 1 <= n <= 7,
    ensures has_label(map_of(v1), map_of(v1).len() as int, Label::Int(n as i64)) <==> tp(h, n),
{
    let m = map_of(v1); let tl = tlen(h);
    if tp(h, n) { let i = lemma_encoded_typed_index(h, v1, d, n); }
    if has_label(m, m.len() as int, Label::Int(n as i64)) {
        let i = choose |i: int| 0 <= i < m.len() && #[trigger] label_of(m[i].0) == Some(Label::Int(n as i64));
        lemma_encoded_pair(h, v1, d, i);
        if i >= tl { assert(!is_typed_hdr_label(h.rest@[i - tl].0)); }
    }
}
/// the extras of the re-encoded map are exactly the header's extras, in order
proof fn lemma_rest_of_encoded(h: Header, v1: Value, d: nat, n: int)
    requires hdr_mem_ok(h), vv(v1) == hdr_cv(h), 0 <= n <= map_of(v1).len(),
    ensures
        n <= tlen(h) ==> rest_of(map_of(v1).subrange(0, n)) == Seq::<(Label, Value)>::empty(),
        n >= tlen(h) ==> rest_of(map_of(v1).subrange(0, n)) == h.rest@.subrange(0, n - tlen(h)),
    decreases n
{
    let m = map_of(v1); let tl = tlen(h);
    if n == 0 {
        assert(m.subrange(0, 0) =~= Seq::<(Value, Value)>::empty());
        assert(h.rest@.subrange(0, 0) =~= Seq::<(Label, Value)>::empty());
    } else {
        lemma_rest_of_encoded(h, v1, d, n - 1);
        lemma_encoded_pair(h, v1, d, n - 1);
        let s = m.subrange(0, n);
        assert(s.drop_last() =~= m.subrange(0, n - 1));
        assert(s.last() == m[n - 1]);
        if n - 1 < tl { assert(is_typed_hdr_label(label_of(m[n - 1].0)->0)); if n == tl { assert(h.rest@.subrange(0, 0) =~= Seq::<(Label, Value)>::empty()); } }
        else {
            let j = n - 1 - tl;
            assert(0 <= j < h.rest@.len());
            assert(!is_typed_hdr_label(h.rest@[j].0));
            assert(h.rest@.subrange(0, j + 1) =~= h.rest@.subrange(0, j).push(h.rest@[j]));
        }
    }
}
/// C07/C11 for header maps without counter signatures: the re-encoding is accepted ...
pub proof fn lemma_header_reencoding_accepted(h: Header, v1: Value, d: nat)
    requires hdr_mem_ok_flat(h), vv(v1) == hdr_cv(h),
    ensures hdr_ok(v1, d),
{
    let m = map_of(v1);
    lemma_encoded_len(h, v1);
    assert forall |i: int| 0 <= i < m.len() implies hdr_pair_ok(#[trigger] m[i].0, m[i].1, d) by { lemma_encoded_pair(h, v1, d, i); }
    lemma_encoded_labels_distinct(h, v1, d);
    lemma_encoded_presence(h, v1, d, 5); lemma_encoded_presence(h, v1, d, 6);
}
/// ... and decodes to the same header
pub proof fn lemma_header_reencoding_same(h: Header, v1: Value, d: nat, h1: Header)
    requires hdr_mem_ok_flat(h), vv(v1) == hdr_cv(h), hdr_res(v1, d, h1),
    ensures hdr_same(h1, h),
{
    let m = map_of(v1);
    reveal(hdr_flat_ok);
    lemma_rest_of_encoded(h, v1, d, m.len() as int);
    lemma_encoded_len(h, v1);
    assert(m.subrange(0, m.len() as int) =~= m);
    assert(h.rest@.subrange(0, h.rest@.len() as int) =~= h.rest@);
    lemma_encoded_presence(h, v1, d, 1); lemma_encoded_presence(h, v1, d, 2); lemma_encoded_presence(h, v1, d, 3); lemma_encoded_presence(h, v1, d, 4);
    lemma_encoded_presence(h, v1, d, 5); lemma_encoded_presence(h, v1, d, 6); lemma_encoded_presence(h, v1, d, 7);
    reveal_with_fuel(hdr_typed_val, 1);
    if h.alg is Some { let i = lemma_encoded_typed_index(h, v1, d, 1); lemma_regp_of_cv::<iana::Algorithm>(m[i].1, h.alg->0); }
    if h.content_type is Some { let i = lemma_encoded_typed_index(h, v1, d, 3); lemma_reg_of_cv::<iana::CoapContentFormat>(m[i].1, h.content_type->0); }
    if h.key_id@.len() > 0 { let i = lemma_encoded_typed_index(h, v1, d, 4); lemma_vv_bytes(m[i].1, h.key_id@); }
    if h.iv@.len() > 0 { let i = lemma_encoded_typed_index(h, v1, d, 5); lemma_vv_bytes(m[i].1, h.iv@); }
    if h.partial_iv@.len() > 0 { let i = lemma_encoded_typed_index(h, v1, d, 6); lemma_vv_bytes(m[i].1, h.partial_iv@); }
    if h.crit@.len() > 0 {
        let i = lemma_encoded_typed_index(h, v1, d, 2);
        lemma_vv_array_shape(m[i].1, crit_cv(h.crit@)->Array_0);
        assert forall |j: int| 0 <= j < h.crit@.len() implies h1.crit@[j] == h.crit@[j] by { lemma_reg_of_cv::<iana::HeaderParameter>(arr_of(m[i].1)[j], h.crit@[j]); }
    }
    assert(h1.crit@ =~= h.crit@);
    assert(h1.key_id@ =~= h.key_id@); assert(h1.iv@ =~= h.iv@); assert(h1.partial_iv@ =~= h.partial_iv@);
    assert(h1.alg == h.alg);
    assert(h1.content_type == h.content_type);
    assert(h1.counter_signatures@.len() == 0);
    lemma_encoded_len(h, v1);
    assert(h1.rest@ == rest_of(m.subrange(0, m.len() as int)));
    assert(h.rest@.subrange(0, m.len() - tlen(h)) =~= h.rest@);
    assert(h1.rest@ == h.rest@);
}
// ---- putting it together for decoded headers (no counter signatures)
pub open spec fn no_csig(v: Value) -> bool { !has_label(map_of(v), map_of(v).len() as int, Label::Int(7)) }
/// what decoding produced satisfies the in-memory conditions of the round trip
pub proof fn lemma_decoded_header_mem_ok_flat(v: Value, d: nat, h: Header)
    requires hdr_ok(v, d), hdr_res(v, d, h), no_csig(v),
    ensures hdr_mem_ok_flat(h),
{ lemma_decoded_header_mem_ok(v, d, h); }
pub proof fn lemma_decoded_header_mem_ok(v: Value, d: nat, h: Header)
    requires hdr_ok(v, d), hdr_res(v, d, h),
    ensures hdr_mem_ok(h),
{
    reveal(hdr_flat_ok);
    let m = map_of(v);
    lemma_rest_of_props(m);
    assert(m.subrange(0, m.len() as int) =~= m);
    if h.alg is Some { let i = choose |i: int| 0 <= i < m.len() && #[trigger] label_of(m[i].0) == Some(Label::Int(1)); assert(hdr_pair_ok(m[i].0, m[i].1, d)); }
    if h.content_type is Some { let i = choose |i: int| 0 <= i < m.len() && #[trigger] label_of(m[i].0) == Some(Label::Int(3)); assert(hdr_pair_ok(m[i].0, m[i].1, d)); }
    if h.iv@.len() > 0 && h.partial_iv@.len() > 0 { assert(false); }
}
/// the decode result is a function of the wire value (headers without counter signatures)
pub proof fn lemma_hdr_res_deterministic_flat(v: Value, d: nat, h1: Header, h2: Header)
    requires hdr_res(v, d, h1), hdr_res(v, d, h2), no_csig(v),
    ensures hdr_same(h1, h2),
{ lemma_hdr_res_deterministic_level(v, d, h1, h2); }
/// one level of it, whatever the counter signatures
pub proof fn lemma_hdr_res_deterministic_level(v: Value, d: nat, h1: Header, h2: Header)
    requires hdr_res(v, d, h1), hdr_res(v, d, h2),
    ensures hdr_same(h1, h2) || (h1.counter_signatures@.len() != h2.counter_signatures@.len() && has_label(map_of(v), map_of(v).len() as int, Label::Int(7))),
{
    reveal(hdr_flat_ok);
    let m = map_of(v);
    if has_label(m, m.len() as int, Label::Int(2)) {
        let i = choose |i: int| 0 <= i < m.len() && #[trigger] label_of(m[i].0) == Some(Label::Int(2));
        assert(crit_res(h1.crit@, m[i].1) && crit_res(h2.crit@, m[i].1));
        assert forall |j: int| 0 <= j < h1.crit@.len() implies h1.crit@[j] == h2.crit@[j] by { assert(reg_of::<iana::HeaderParameter>(arr_of(m[i].1)[j]) == Some(h1.crit@[j])); }
    }
    assert(h1.crit@ =~= h2.crit@);
    if has_label(m, m.len() as int, Label::Int(4)) { let i = choose |i: int| 0 <= i < m.len() && #[trigger] label_of(m[i].0) == Some(Label::Int(4)); assert(m[i].1 == Value::Bytes(h1.key_id)); }
    if has_label(m, m.len() as int, Label::Int(5)) { let i = choose |i: int| 0 <= i < m.len() && #[trigger] label_of(m[i].0) == Some(Label::Int(5)); assert(m[i].1 == Value::Bytes(h1.iv)); }
    if has_label(m, m.len() as int, Label::Int(6)) { let i = choose |i: int| 0 <= i < m.len() && #[trigger] label_of(m[i].0) == Some(Label::Int(6)); assert(m[i].1 == Value::Bytes(h1.partial_iv)); }
    if has_label(m, m.len() as int, Label::Int(1)) { let i = choose |i: int| 0 <= i < m.len() && #[trigger] label_of(m[i].0) == Some(Label::Int(1)); assert(h1.alg == regp_of::<iana::Algorithm>(m[i].1)); }
    if has_label(m, m.len() as int, Label::Int(3)) { let i = choose |i: int| 0 <= i < m.len() && #[trigger] label_of(m[i].0) == Some(Label::Int(3)); assert(h1.content_type == reg_of::<iana::CoapContentFormat>(m[i].1)); }
    assert(h1.key_id@ =~= h2.key_id@); assert(h1.iv@ =~= h2.iv@); assert(h1.partial_iv@ =~= h2.partial_iv@);
}
/// headers with equal views encode to the same data-model value
proof fn lemma_prefix_same(a: Header, b: Header, k: int)
    requires hdr_same(a, b), a.counter_signatures@.len() == 0 || csigs_cv(a) == csigs_cv(b), 0 <= k <= 7,
    ensures hdr_typed_prefix(a, k) == hdr_typed_prefix(b, k),
    decreases k
{
    reveal_with_fuel(hdr_typed_prefix, 1); reveal_with_fuel(hdr_typed_val, 1);
    if k > 0 {
        lemma_prefix_same(a, b, k - 1);
        assert(typed_present(a, Label::Int(k as i64)) == typed_present(b, Label::Int(k as i64)));
        if typed_present(a, Label::Int(k as i64)) { assert(hdr_typed_val(a, k) == hdr_typed_val(b, k)); }
        assert(hdr_typed_entry(a, k) == hdr_typed_entry(b, k));
    }
}
pub proof fn lemma_hdr_cv_same(a: Header, b: Header)
    requires hdr_same(a, b), a.counter_signatures@.len() == 0 || csigs_cv(a) == csigs_cv(b),
    ensures hdr_cv(a) == hdr_cv(b),
{
    lemma_prefix_same(a, b, 7);
    reveal_with_fuel(hdr_cv, 2); reveal_with_fuel(hdr_typed_entries, 2); reveal_with_fuel(hdr_typed_prefix, 1); reveal(rest_entries);
    assert(rest_entries(a.rest@) =~= rest_entries(b.rest@));
}
/// C07 for header maps without counter signatures: decode -> encode -> decode gives the same header, and encoding it again the same value
pub proof fn lemma_header_fixed_point_flat(v: Value, d: nat, h: Header, v1: Value, h1: Header)
    requires hdr_ok(v, d), hdr_res(v, d, h), no_csig(v), vv(v1) == hdr_cv(h), hdr_res(v1, d, h1),
    ensures hdr_encodable(h), hdr_ok(v1, d), hdr_same(h1, h), hdr_cv(h1) == hdr_cv(h),
{
    lemma_decoded_header_encodable(v, d, h);
    lemma_decoded_header_mem_ok_flat(v, d, h);
    lemma_header_reencoding_accepted(h, v1, d);
    lemma_header_reencoding_same(h, v1, d, h1);
    lemma_hdr_cv_same(h1, h);
}
// ---- the same, at every nesting level (counter signatures, their protected and unprotected headers, and so on)
/// equality of decoded values "up to Vec identity": field views equal at every level, retained protected bytes included
pub open spec fn hdr_eqv(a: Header, b: Header) -> bool
    decreases a, 1nat
{
    hdr_same(a, b) && forall |i: int| 0 <= i < a.counter_signatures@.len() ==> sig_eqv(#[trigger] a.counter_signatures@[i], b.counter_signatures@[i])
}
pub open spec fn sig_eqv(a: CoseSignature, b: CoseSignature) -> bool
    decreases a, 1nat
{ prot_eqv(a.protected, b.protected) && hdr_eqv(a.unprotected, b.unprotected) && a.signature@ == b.signature@ }
pub open spec fn prot_eqv(a: ProtectedHeader, b: ProtectedHeader) -> bool
    decreases a, 2nat
{ a.original_data is Some && b.original_data is Some && a.original_data->0@ == b.original_data->0@ && hdr_eqv(a.header, b.header) }
/// the flat conditions of every entry of the re-encoded map, proved directly for the SAME header
proof fn lemma_encoded_flat_ok(h: Header, v1: Value, d: nat)
    requires hdr_mem_ok(h), vv(v1) == hdr_cv(h),
    ensures hdr_flat_ok(h, map_of(v1), map_of(v1).len() as int),
{
    broadcast use axiom_vv_injective;
    let m = map_of(v1);
    reveal(hdr_flat_ok);
    lemma_rest_of_encoded(h, v1, d, m.len() as int);
    lemma_encoded_len(h, v1);
    assert(h.rest@.subrange(0, h.rest@.len() as int) =~= h.rest@);
    lemma_encoded_presence(h, v1, d, 1); lemma_encoded_presence(h, v1, d, 2); lemma_encoded_presence(h, v1, d, 3); lemma_encoded_presence(h, v1, d, 4);
    lemma_encoded_presence(h, v1, d, 5); lemma_encoded_presence(h, v1, d, 6);
    reveal_with_fuel(hdr_typed_val, 1);
    assert forall |i: int| 0 <= i < m.len() implies
        (#[trigger] label_of(m[i].0) == Some(Label::Int(1)) ==> h.alg is Some && h.alg == regp_of::<iana::Algorithm>(m[i].1))
        && (label_of(m[i].0) == Some(Label::Int(2)) ==> crit_res(h.crit@, m[i].1))
        && (label_of(m[i].0) == Some(Label::Int(3)) ==> h.content_type is Some && h.content_type == reg_of::<iana::CoapContentFormat>(m[i].1))
        && (label_of(m[i].0) == Some(Label::Int(4)) ==> m[i].1 == Value::Bytes(h.key_id))
        && (label_of(m[i].0) == Some(Label::Int(5)) ==> m[i].1 == Value::Bytes(h.iv))
        && (label_of(m[i].0) == Some(Label::Int(6)) ==> m[i].1 == Value::Bytes(h.partial_iv))
    by {
        lemma_encoded_pair(h, v1, d, i);
        let n: int = match label_of(m[i].0) { Some(Label::Int(x)) => x as int, _ => 0 };
        if i >= tlen(h) && 1 <= n <= 6 { assert(!is_typed_hdr_label(h.rest@[i - tlen(h)].0)); }
        if n == 1 { lemma_regp_of_cv::<iana::Algorithm>(m[i].1, h.alg->0); }
        else if n == 2 {
            lemma_vv_array_shape(m[i].1, crit_cv(h.crit@)->Array_0);
            assert forall |j: int| 0 <= j < h.crit@.len() implies reg_of::<iana::HeaderParameter>(#[trigger] arr_of(m[i].1)[j]) == Some(h.crit@[j]) by { lemma_reg_of_cv::<iana::HeaderParameter>(arr_of(m[i].1)[j], h.crit@[j]); }
        }
        else if n == 3 { lemma_reg_of_cv::<iana::CoapContentFormat>(m[i].1, h.content_type->0); }
        else if n == 4 { lemma_vv_bytes(m[i].1, h.key_id@); assert(vv(m[i].1) == vv(Value::Bytes(h.key_id))) by { reveal_with_fuel(vv, 1); } }
        else if n == 5 { lemma_vv_bytes(m[i].1, h.iv@); assert(vv(m[i].1) == vv(Value::Bytes(h.iv))) by { reveal_with_fuel(vv, 1); } }
        else if n == 6 { lemma_vv_bytes(m[i].1, h.partial_iv@); assert(vv(m[i].1) == vv(Value::Bytes(h.partial_iv))) by { reveal_with_fuel(vv, 1); } }
    }
    assert(m.subrange(0, m.len() as int) =~= m);
    assert(h.rest@.subrange(0, m.len() - tlen(h)) =~= h.rest@);
}
/// C07, any nesting: the re-encoding of a decoded header is accepted at the same depth and decodes to the same header
pub proof fn lemma_hdr_reenc(v: Value, d: nat, h: Header, v1: Value)
    requires hdr_ok(v, d), hdr_res(v, d, h), vv(v1) == hdr_cv(h),
    ensures hdr_ok(v1, d), hdr_res(v1, d, h),
    decreases max_nest() - d, v, 2nat
{
    let m = map_of(v); let m1 = map_of(v1);
    lemma_decoded_header_mem_ok(v, d, h);
    lemma_encoded_len(h, v1);
    lemma_encoded_presence(h, v1, d, 7);
    assert forall |i: int| 0 <= i < m1.len() implies hdr_pair_ok(#[trigger] m1[i].0, m1[i].1, d) && (label_of(m1[i].0) == Some(Label::Int(7)) ==> csigs_res(m1[i].1, d, h.counter_signatures@)) by {
        lemma_encoded_pair(h, v1, d, i);
        if label_of(m1[i].0) == Some(Label::Int(7)) {
            if i >= tlen(h) { assert(!is_typed_hdr_label(h.rest@[i - tlen(h)].0)); }
            reveal_with_fuel(hdr_typed_val, 1);
            assert(vv(m1[i].1) == csigs_cv(h));
            assert(h.counter_signatures@.len() > 0);
            assert(has_label(m, m.len() as int, Label::Int(7)));
            let k = choose |k: int| 0 <= k < m.len() && #[trigger] label_of(m[k].0) == Some(Label::Int(7));
            assert(hdr_pair_ok(m[k].0, m[k].1, d));
            lemma_map_elem_decreases(v, k);
            lemma_csigs_reenc(m[k].1, d, h, m1[i].1);
        }
    }
    lemma_encoded_labels_distinct(h, v1, d);
    lemma_encoded_presence(h, v1, d, 5); lemma_encoded_presence(h, v1, d, 6);
    lemma_encoded_flat_ok(h, v1, d);
}
proof fn lemma_csigs_reenc(sv: Value, d: nat, h: Header, w: Value)
    requires csig_ok(sv, d), csigs_res(sv, d, h.counter_signatures@), vv(w) == csigs_cv(h),
    ensures csig_ok(w, d), csigs_res(w, d, h.counter_signatures@),
    decreases max_nest() - d, sv, 1nat
{
    let sigs = h.counter_signatures@;
    let a = arr_of(sv);
    if a[0] is Bytes {
        lemma_sig_reenc(sv, d, sigs[0], w);
    } else if sigs.len() == 1 {
        lemma_arr_elem_decreases(sv, 0);
        lemma_sig_reenc(a[0], d, sigs[0], w);
    } else {
        let cvs = csigs_cv(h)->Array_0;
        lemma_vv_array_shape(w, cvs);
        let aw = arr_of(w);
        assert forall |j: int| 0 <= j < aw.len() implies sig_ok(#[trigger] aw[j], d) && sig_res(aw[j], d, sigs[j]) by {
            lemma_arr_elem_decreases(sv, j);
            assert(vv(aw[j]) == cvs[j]);
            lemma_sig_reenc(a[j], d, sigs[j], aw[j]);
        }
        assert(sig_ok(aw[0], d));
        assert(aw[0] is Array);
    }
}
proof fn lemma_sig_reenc(sv: Value, d: nat, s: CoseSignature, w: Value)
    requires sig_ok(sv, d), sig_res(sv, d, s), vv(w) == sig_cv(s),
    ensures sig_ok(w, d), sig_res(w, d, s), arr_of(w)[0] is Bytes,
    decreases max_nest() - d, sv, 0nat
{
    broadcast use axiom_vv_injective;
    let a = arr_of(sv);
    lemma_vv_array_shape(w, sig_cv(s)->Array_0);
    let aw = arr_of(w);
    let b = s.protected.original_data->0;
    assert(a[0] == Value::Bytes(b));
    lemma_vv_bytes(aw[0], b@);
    assert(vv(aw[0]) == vv(a[0])) by { reveal_with_fuel(vv, 1); }
    assert(aw[0] == a[0]);
    lemma_arr_elem_decreases(sv, 1);
    lemma_hdr_reenc(a[1], d, s.unprotected, aw[1]);
    lemma_vv_bytes(aw[2], s.signature@);
    assert(vv(aw[2]) == vv(a[2])) by { reveal_with_fuel(vv, 1); }
    assert(aw[2] == a[2]);
}
/// the decode result is a function of the wire value, at every level
pub proof fn lemma_hdr_res_deterministic(v: Value, d: nat, h1: Header, h2: Header)
    requires hdr_res(v, d, h1), hdr_res(v, d, h2),
    ensures hdr_eqv(h1, h2),
    decreases max_nest() - d, v, 2nat
{
    let m = map_of(v);
    lemma_hdr_res_deterministic_level(v, d, h1, h2);
    if has_label(m, m.len() as int, Label::Int(7)) {
        let k = choose |k: int| 0 <= k < m.len() && #[trigger] label_of(m[k].0) == Some(Label::Int(7));
        let sv = m[k].1; let a = arr_of(sv);
        lemma_map_elem_decreases(v, k);
        assert(csigs_res(sv, d, h1.counter_signatures@) && csigs_res(sv, d, h2.counter_signatures@));
        assert forall |i: int| 0 <= i < h1.counter_signatures@.len() implies sig_eqv(#[trigger] h1.counter_signatures@[i], h2.counter_signatures@[i]) by {
            if a[0] is Bytes { lemma_sig_res_deterministic(sv, d, h1.counter_signatures@[0], h2.counter_signatures@[0]); }
            else { lemma_arr_elem_decreases(sv, i); lemma_sig_res_deterministic(a[i], d, h1.counter_signatures@[i], h2.counter_signatures@[i]); }
        }
    }
}
proof fn lemma_sig_res_deterministic(sv: Value, d: nat, s1: CoseSignature, s2: CoseSignature)
    requires sig_res(sv, d, s1), sig_res(sv, d, s2),
    ensures sig_eqv(s1, s2),
    decreases max_nest() - d, sv, 1nat
{
    let a = arr_of(sv);
    lemma_arr_elem_decreases(sv, 1);
    lemma_hdr_res_deterministic(a[1], d, s1.unprotected, s2.unprotected);
    lemma_prot_res_deterministic(a[0], d, s1.protected, s2.protected);
}
pub proof fn lemma_prot_res_deterministic(pv: Value, d: nat, p1: ProtectedHeader, p2: ProtectedHeader)
    requires prot_res(pv, d, p1), prot_res(pv, d, p2),
    ensures prot_eqv(p1, p2),
    decreases max_nest() - d, pv, 0nat
{
    let b = bytes_of(pv);
    if b.len() > 0 {
        let v2 = crate::common::parse_all(b)->0;
        lemma_hdr_res_deterministic(v2, d + 1, p1.header, p2.header);
    } else {
        let x = p1.header; let y = p2.header;
        assert(x.crit@ =~= y.crit@); assert(x.key_id@ =~= y.key_id@); assert(x.iv@ =~= y.iv@); assert(x.partial_iv@ =~= y.partial_iv@); assert(x.rest@ =~= y.rest@);
    }
}
/// values equal in that sense encode to the same data-model value (so: to the same bytes)
pub proof fn lemma_hdr_cv_eqv(a: Header, b: Header)
    requires hdr_eqv(a, b),
    ensures hdr_cv(a) == hdr_cv(b),
    decreases a, 1nat
{
    let n = a.counter_signatures@.len();
    assert forall |i: int| 0 <= i < n implies sig_cv(#[trigger] a.counter_signatures@[i]) == sig_cv(b.counter_signatures@[i]) by {
        assert(decreases_to!(a => a.counter_signatures));
        assert(decreases_to!(a.counter_signatures => a.counter_signatures@[i]));
        lemma_sig_cv_eqv(a.counter_signatures@[i], b.counter_signatures@[i]);
    }
    reveal_with_fuel(csigs_cv, 1);
    if n != 1 { assert(csigs_cv(a)->Array_0 =~= csigs_cv(b)->Array_0); }
    lemma_hdr_cv_same(a, b);
}
pub proof fn lemma_sig_cv_eqv(a: CoseSignature, b: CoseSignature)
    requires sig_eqv(a, b),
    ensures sig_cv(a) == sig_cv(b),
    decreases a, 0nat
{
    lemma_hdr_cv_eqv(a.unprotected, b.unprotected);
    reveal_with_fuel(sig_cv, 1); reveal_with_fuel(prot_slot, 1);
    assert(sig_cv(a)->Array_0 =~= sig_cv(b)->Array_0);
}
/// C07 for header maps, any nesting: decode -> encode -> decode gives an equal header, and encoding it again the same value
pub proof fn lemma_header_fixed_point(v: Value, d: nat, h: Header, v1: Value, h1: Header)
    requires hdr_ok(v, d), hdr_res(v, d, h), vv(v1) == hdr_cv(h), hdr_res(v1, d, h1),
    ensures hdr_encodable(h), hdr_ok(v1, d), hdr_eqv(h1, h), hdr_cv(h1) == hdr_cv(h),
{
    lemma_decoded_header_encodable(v, d, h);
    lemma_hdr_reenc(v, d, h, v1);
    lemma_hdr_res_deterministic(v1, d, h1, h);
    lemma_hdr_cv_eqv(h1, h);
}
// ---- COSE_Sign1 end to end (headers without counter signatures)
pub open spec fn prot_no_csig(v: Value) -> bool { bytes_of(v).len() > 0 ==> (crate::common::parse_all(bytes_of(v)) matches Some(v2) && no_csig(v2)) }
pub open spec fn prot_same(a: ProtectedHeader, b: ProtectedHeader) -> bool {
    a.original_data is Some && b.original_data is Some && a.original_data->0@ == b.original_data->0@ && hdr_same(a.header, b.header)
}
pub open spec fn opt_same(a: Option<Vec<u8>>, b: Option<Vec<u8>>) -> bool { (a is Some <==> b is Some) && (a is Some ==> a->0@ == b->0@) }
pub open spec fn sign1_same(a: CoseSign1, b: CoseSign1) -> bool {
    prot_same(a.protected, b.protected) && hdr_same(a.unprotected, b.unprotected) && opt_same(a.payload, b.payload) && a.signature@ == b.signature@
}
/// C07: b decodes to x, x encodes to v1 (vv(v1) == sign1_cv(x)); then v1 is accepted, decodes to a value equal to x
/// (including the retained protected bytes) and that value encodes to the same data-model value again
pub proof fn lemma_sign1_fixed_point(v: Value, x: CoseSign1, v1: Value, x1: CoseSign1)
    requires
        crate::sign::sign1_ok(v), crate::sign::sign1_res(v, x), no_csig(arr_of(v)[1]), prot_no_csig(arr_of(v)[0]),
        vv(v1) == crate::sign::sign1_cv(x), crate::sign::sign1_res(v1, x1),
    ensures
        crate::sign::sign1_encodable(x), crate::sign::sign1_ok(v1), sign1_same(x1, x), crate::sign::sign1_cv(x1) == crate::sign::sign1_cv(x),
{
    broadcast use axiom_vv_injective;
    let a = arr_of(v);
    let cv = crate::sign::sign1_cv(x);
    lemma_vv_array_shape(v1, cv->Array_0);
    let a1 = arr_of(v1);
    assert(a1.len() == 4);
    // slot 0: the same byte string Value as on the wire
    let orig = x.protected.original_data->0;
    assert(a[0] == Value::Bytes(orig));
    assert(prot_slot(x.protected) == orig@);
    lemma_vv_bytes(a1[0], orig@);
    assert(vv(a[0]) == vv(a1[0])) by { reveal_with_fuel(vv, 1); }
    assert(a1[0] == a[0]);
    // slot 1
    lemma_header_fixed_point_flat(a[1], 0, x.unprotected, a1[1], x1.unprotected);
    // slot 2, 3
    assert(vv(a1[2]) == opt_bytes_cv(x.payload));
    match x.payload { Some(pl) => { lemma_vv_bytes(a1[2], pl@); } None => { reveal_with_fuel(vv, 1); assert(a1[2] is Null); } }
    lemma_vv_bytes(a1[3], x.signature@);
    assert(crate::sign::sign1_ok(v1));
    // the re-decoded value
    if orig@.len() > 0 {
        let v2 = crate::common::parse_all(orig@)->0;
        lemma_hdr_res_deterministic_flat(v2, 1, x1.protected.header, x.protected.header);
    } else {
        assert(hdr_same(x1.protected.header, x.protected.header)) by {
            assert(x1.protected.header.crit@ =~= x.protected.header.crit@); assert(x1.protected.header.key_id@ =~= x.protected.header.key_id@);
            assert(x1.protected.header.iv@ =~= x.protected.header.iv@); assert(x1.protected.header.partial_iv@ =~= x.protected.header.partial_iv@);
            assert(x1.protected.header.rest@ =~= x.protected.header.rest@);
        }
    }
    assert(sign1_same(x1, x));
    assert(prot_slot(x1.protected) == prot_slot(x.protected));
    assert(crate::sign::sign1_cv(x1)->Array_0 =~= cv->Array_0);
}
// ---- COSE_Mac0 and COSE_Encrypt0 (same argument as COSE_Sign1)
pub open spec fn mac0_same(a: CoseMac0, b: CoseMac0) -> bool {
    prot_same(a.protected, b.protected) && hdr_same(a.unprotected, b.unprotected) && opt_same(a.payload, b.payload) && a.tag@ == b.tag@
}
proof fn lemma_prot_slot_redecode(v0: Value, p: ProtectedHeader, w0: Value, p1: ProtectedHeader)
    requires prot_ok(v0, 0), prot_res(v0, 0, p), prot_no_csig(v0), vv(w0) == CV::Bytes(prot_slot(p)), prot_res(w0, 0, p1),
    ensures w0 == v0, prot_same(p1, p), prot_slot(p1) == prot_slot(p),
{
    broadcast use axiom_vv_injective;
    let orig = p.original_data->0;
    assert(v0 == Value::Bytes(orig));
    lemma_vv_bytes(w0, orig@);
    assert(vv(v0) == vv(w0)) by { reveal_with_fuel(vv, 1); }
    if orig@.len() > 0 {
        let v2 = crate::common::parse_all(orig@)->0;
        lemma_hdr_res_deterministic_flat(v2, 1, p1.header, p.header);
    } else {
        assert(p1.header.crit@ =~= p.header.crit@); assert(p1.header.key_id@ =~= p.header.key_id@);
        assert(p1.header.iv@ =~= p.header.iv@); assert(p1.header.partial_iv@ =~= p.header.partial_iv@); assert(p1.header.rest@ =~= p.header.rest@);
    }
}
proof fn lemma_opt_bytes_redecode(w: Value, pl: Option<Vec<u8>>, pl1: Option<Vec<u8>>)
    requires vv(w) == opt_bytes_cv(pl), payload_res(w, pl1),
    ensures is_bytes_or_null(w), opt_same(pl1, pl), opt_bytes_cv(pl1) == opt_bytes_cv(pl),
{
    match pl { Some(b) => { lemma_vv_bytes(w, b@); } None => { reveal_with_fuel(vv, 1); assert(w is Null); } }
}
pub proof fn lemma_mac0_fixed_point(v: Value, x: CoseMac0, v1: Value, x1: CoseMac0)
    requires
        crate::mac::mac0_ok(v), crate::mac::mac0_res(v, x), no_csig(arr_of(v)[1]), prot_no_csig(arr_of(v)[0]),
        vv(v1) == crate::mac::mac0_cv(x), crate::mac::mac0_res(v1, x1),
    ensures crate::mac::mac0_encodable(x), crate::mac::mac0_ok(v1), mac0_same(x1, x), crate::mac::mac0_cv(x1) == crate::mac::mac0_cv(x),
{
    let a = arr_of(v);
    let cv = crate::mac::mac0_cv(x);
    lemma_vv_array_shape(v1, cv->Array_0);
    let a1 = arr_of(v1);
    lemma_prot_slot_redecode(a[0], x.protected, a1[0], x1.protected);
    lemma_header_fixed_point_flat(a[1], 0, x.unprotected, a1[1], x1.unprotected);
    lemma_opt_bytes_redecode(a1[2], x.payload, x1.payload);
    lemma_vv_bytes(a1[3], x.tag@);
    assert(crate::mac::mac0_cv(x1)->Array_0 =~= cv->Array_0);
}
pub open spec fn encrypt0_same(a: CoseEncrypt0, b: CoseEncrypt0) -> bool {
    prot_same(a.protected, b.protected) && hdr_same(a.unprotected, b.unprotected) && opt_same(a.ciphertext, b.ciphertext)
}
pub proof fn lemma_encrypt0_fixed_point(v: Value, x: CoseEncrypt0, v1: Value, x1: CoseEncrypt0)
    requires
        crate::encrypt::encrypt0_ok(v), crate::encrypt::encrypt0_res(v, x), no_csig(arr_of(v)[1]), prot_no_csig(arr_of(v)[0]),
        vv(v1) == crate::encrypt::encrypt0_cv(x), crate::encrypt::encrypt0_res(v1, x1),
    ensures crate::encrypt::encrypt0_encodable(x), crate::encrypt::encrypt0_ok(v1), encrypt0_same(x1, x), crate::encrypt::encrypt0_cv(x1) == crate::encrypt::encrypt0_cv(x),
{
    let a = arr_of(v);
    let cv = crate::encrypt::encrypt0_cv(x);
    lemma_vv_array_shape(v1, cv->Array_0);
    let a1 = arr_of(v1);
    lemma_prot_slot_redecode(a[0], x.protected, a1[0], x1.protected);
    lemma_header_fixed_point_flat(a[1], 0, x.unprotected, a1[1], x1.unprotected);
    lemma_opt_bytes_redecode(a1[2], x.ciphertext, x1.ciphertext);
    assert(crate::encrypt::encrypt0_cv(x1)->Array_0 =~= cv->Array_0);
}
// ==== every message type, any nesting: the re-encoding is accepted and decodes to the SAME typed value; decode results
// are unique up to Vec identity (eqv); eqv values encode identically.  Together: the fixed point of C07.
pub proof fn lemma_bytes_slot(bv: Value, b: Vec<u8>, w: Value)
    requires bv == Value::Bytes(b), vv(w) == CV::Bytes(b@),
    ensures w == bv,
{
    broadcast use axiom_vv_injective;
    assert(vv(w) == vv(bv)) by { reveal_with_fuel(vv, 1); }
}
pub proof fn lemma_prot_slot_same(pv: Value, d: nat, p: ProtectedHeader, w: Value)
    requires prot_res(pv, d, p), vv(w) == CV::Bytes(prot_slot(p)),
    ensures w == pv,
{ lemma_bytes_slot(pv, p.original_data->0, w); }
pub proof fn lemma_payload_slot(pv: Value, pl: Option<Vec<u8>>, w: Value)
    requires payload_res(pv, pl), vv(w) == opt_bytes_cv(pl),
    ensures w == pv,
{
    broadcast use axiom_vv_injective;
    assert(vv(w) == vv(pv)) by { reveal_with_fuel(vv, 1); }
}
pub open spec fn sign1_eqv(a: CoseSign1, b: CoseSign1) -> bool {
    prot_eqv(a.protected, b.protected) && hdr_eqv(a.unprotected, b.unprotected) && opt_same(a.payload, b.payload) && a.signature@ == b.signature@
}
pub open spec fn mac0_eqv(a: CoseMac0, b: CoseMac0) -> bool {
    prot_eqv(a.protected, b.protected) && hdr_eqv(a.unprotected, b.unprotected) && opt_same(a.payload, b.payload) && a.tag@ == b.tag@
}
pub open spec fn encrypt0_eqv(a: CoseEncrypt0, b: CoseEncrypt0) -> bool {
    prot_eqv(a.protected, b.protected) && hdr_eqv(a.unprotected, b.unprotected) && opt_same(a.ciphertext, b.ciphertext)
}
pub open spec fn sigs_eqv(a: Seq<CoseSignature>, b: Seq<CoseSignature>) -> bool {
    a.len() == b.len() && forall |j: int| 0 <= j < a.len() ==> sig_eqv(#[trigger] a[j], b[j])
}
pub open spec fn sign_eqv(a: CoseSign, b: CoseSign) -> bool {
    prot_eqv(a.protected, b.protected) && hdr_eqv(a.unprotected, b.unprotected) && opt_same(a.payload, b.payload) && sigs_eqv(a.signatures@, b.signatures@)
}
pub open spec fn recipient_eqv(a: CoseRecipient, b: CoseRecipient) -> bool
    decreases a, 1nat
{
    prot_eqv(a.protected, b.protected) && hdr_eqv(a.unprotected, b.unprotected) && opt_same(a.ciphertext, b.ciphertext)
    && a.recipients@.len() == b.recipients@.len() && forall |j: int| 0 <= j < a.recipients@.len() ==> recipient_eqv(#[trigger] a.recipients@[j], b.recipients@[j])
}
pub open spec fn recipients_eqv(a: Seq<CoseRecipient>, b: Seq<CoseRecipient>) -> bool {
    a.len() == b.len() && forall |j: int| 0 <= j < a.len() ==> recipient_eqv(#[trigger] a[j], b[j])
}
pub open spec fn encrypt_eqv(a: CoseEncrypt, b: CoseEncrypt) -> bool {
    prot_eqv(a.protected, b.protected) && hdr_eqv(a.unprotected, b.unprotected) && opt_same(a.ciphertext, b.ciphertext) && recipients_eqv(a.recipients@, b.recipients@)
}
pub open spec fn mac_eqv(a: CoseMac, b: CoseMac) -> bool {
    prot_eqv(a.protected, b.protected) && hdr_eqv(a.unprotected, b.unprotected) && opt_same(a.payload, b.payload) && a.tag@ == b.tag@ && recipients_eqv(a.recipients@, b.recipients@)
}
pub proof fn lemma_prot_slot_eqv(a: ProtectedHeader, b: ProtectedHeader)
    requires prot_eqv(a, b),
    ensures prot_slot(a) == prot_slot(b),
{ reveal_with_fuel(prot_slot, 1); }
// ---- COSE_Sign1
pub proof fn lemma_sign1_fixed_point_nested(v: Value, x: CoseSign1, v1: Value, x1: CoseSign1)
    requires crate::sign::sign1_ok(v), crate::sign::sign1_res(v, x), vv(v1) == crate::sign::sign1_cv(x), crate::sign::sign1_res(v1, x1),
    ensures crate::sign::sign1_encodable(x), crate::sign::sign1_ok(v1), crate::sign::sign1_res(v1, x), sign1_eqv(x1, x), crate::sign::sign1_cv(x1) == crate::sign::sign1_cv(x),
{
    let a = arr_of(v);
    lemma_vv_array_shape(v1, crate::sign::sign1_cv(x)->Array_0);
    let a1 = arr_of(v1);
    lemma_prot_slot_same(a[0], 0, x.protected, a1[0]);
    lemma_decoded_header_encodable(a[1], 0, x.unprotected);
    lemma_hdr_reenc(a[1], 0, x.unprotected, a1[1]);
    lemma_payload_slot(a[2], x.payload, a1[2]);
    lemma_bytes_slot(a[3], x.signature, a1[3]);
    lemma_prot_res_deterministic(a1[0], 0, x1.protected, x.protected);
    lemma_hdr_res_deterministic(a1[1], 0, x1.unprotected, x.unprotected);
    lemma_prot_slot_eqv(x1.protected, x.protected);
    lemma_hdr_cv_eqv(x1.unprotected, x.unprotected);
    assert(crate::sign::sign1_cv(x1)->Array_0 =~= crate::sign::sign1_cv(x)->Array_0);
}
// ---- COSE_Mac0
pub proof fn lemma_mac0_fixed_point_nested(v: Value, x: CoseMac0, v1: Value, x1: CoseMac0)
    requires crate::mac::mac0_ok(v), crate::mac::mac0_res(v, x), vv(v1) == crate::mac::mac0_cv(x), crate::mac::mac0_res(v1, x1),
    ensures crate::mac::mac0_encodable(x), crate::mac::mac0_ok(v1), crate::mac::mac0_res(v1, x), mac0_eqv(x1, x), crate::mac::mac0_cv(x1) == crate::mac::mac0_cv(x),
{
    let a = arr_of(v);
    lemma_vv_array_shape(v1, crate::mac::mac0_cv(x)->Array_0);
    let a1 = arr_of(v1);
    lemma_prot_slot_same(a[0], 0, x.protected, a1[0]);
    lemma_decoded_header_encodable(a[1], 0, x.unprotected);
    lemma_hdr_reenc(a[1], 0, x.unprotected, a1[1]);
    lemma_payload_slot(a[2], x.payload, a1[2]);
    lemma_bytes_slot(a[3], x.tag, a1[3]);
    lemma_prot_res_deterministic(a1[0], 0, x1.protected, x.protected);
    lemma_hdr_res_deterministic(a1[1], 0, x1.unprotected, x.unprotected);
    lemma_prot_slot_eqv(x1.protected, x.protected);
    lemma_hdr_cv_eqv(x1.unprotected, x.unprotected);
    assert(crate::mac::mac0_cv(x1)->Array_0 =~= crate::mac::mac0_cv(x)->Array_0);
}
// ---- COSE_Encrypt0
pub proof fn lemma_encrypt0_fixed_point_nested(v: Value, x: CoseEncrypt0, v1: Value, x1: CoseEncrypt0)
    requires crate::encrypt::encrypt0_ok(v), crate::encrypt::encrypt0_res(v, x), vv(v1) == crate::encrypt::encrypt0_cv(x), crate::encrypt::encrypt0_res(v1, x1),
    ensures crate::encrypt::encrypt0_encodable(x), crate::encrypt::encrypt0_ok(v1), crate::encrypt::encrypt0_res(v1, x), encrypt0_eqv(x1, x), crate::encrypt::encrypt0_cv(x1) == crate::encrypt::encrypt0_cv(x),
{
    let a = arr_of(v);
    lemma_vv_array_shape(v1, crate::encrypt::encrypt0_cv(x)->Array_0);
    let a1 = arr_of(v1);
    lemma_prot_slot_same(a[0], 0, x.protected, a1[0]);
    lemma_decoded_header_encodable(a[1], 0, x.unprotected);
    lemma_hdr_reenc(a[1], 0, x.unprotected, a1[1]);
    lemma_payload_slot(a[2], x.ciphertext, a1[2]);
    lemma_prot_res_deterministic(a1[0], 0, x1.protected, x.protected);
    lemma_hdr_res_deterministic(a1[1], 0, x1.unprotected, x.unprotected);
    lemma_prot_slot_eqv(x1.protected, x.protected);
    lemma_hdr_cv_eqv(x1.unprotected, x.unprotected);
    assert(crate::encrypt::encrypt0_cv(x1)->Array_0 =~= crate::encrypt::encrypt0_cv(x)->Array_0);
}
// ---- COSE_Signature (stand-alone) and COSE_Sign
pub proof fn lemma_signature_fixed_point(v: Value, x: CoseSignature, v1: Value, x1: CoseSignature)
    requires sig_ok(v, 0), sig_res(v, 0, x), vv(v1) == sig_cv(x), sig_res(v1, 0, x1),
    ensures sig_encodable(x), sig_ok(v1, 0), sig_res(v1, 0, x), sig_eqv(x1, x), sig_cv(x1) == sig_cv(x),
{
    lemma_decoded_sig_encodable(v, 0, x);
    lemma_sig_reenc(v, 0, x, v1);
    lemma_sig_res_deterministic(v1, 0, x1, x);
    lemma_sig_cv_eqv(x1, x);
}
proof fn lemma_sigs_reenc(sv: Value, s: Seq<CoseSignature>, w: Value)
    requires crate::sign::sigs_ok(sv), crate::sign::sigs_res(sv, s), vv(w) == crate::sign::sigs_cv(s),
    ensures crate::sign::sigs_ok(w), crate::sign::sigs_res(w, s),
{
    lemma_vv_array_shape(w, crate::sign::sigs_cv(s)->Array_0);
    assert forall |j: int| 0 <= j < s.len() implies sig_ok(#[trigger] arr_of(w)[j], 0) && sig_res(arr_of(w)[j], 0, s[j]) by {
        lemma_sig_reenc(arr_of(sv)[j], 0, s[j], arr_of(w)[j]);
    }
}
proof fn lemma_sigs_det(sv: Value, s1: Seq<CoseSignature>, s2: Seq<CoseSignature>)
    requires crate::sign::sigs_res(sv, s1), crate::sign::sigs_res(sv, s2),
    ensures sigs_eqv(s1, s2), crate::sign::sigs_cv(s1) == crate::sign::sigs_cv(s2),
{
    assert forall |j: int| 0 <= j < s1.len() implies sig_eqv(#[trigger] s1[j], s2[j]) && sig_cv(s1[j]) == sig_cv(s2[j]) by {
        lemma_sig_res_deterministic(arr_of(sv)[j], 0, s1[j], s2[j]);
        lemma_sig_cv_eqv(s1[j], s2[j]);
    }
    assert(crate::sign::sigs_cv(s1)->Array_0 =~= crate::sign::sigs_cv(s2)->Array_0);
}
pub proof fn lemma_sign_fixed_point(v: Value, x: CoseSign, v1: Value, x1: CoseSign)
    requires crate::sign::sign_ok(v), crate::sign::sign_res(v, x), vv(v1) == crate::sign::sign_cv(x), crate::sign::sign_res(v1, x1),
    ensures crate::sign::sign_encodable(x), crate::sign::sign_ok(v1), crate::sign::sign_res(v1, x), sign_eqv(x1, x), crate::sign::sign_cv(x1) == crate::sign::sign_cv(x),
{
    let a = arr_of(v);
    crate::vlemmas::lemma_decoded_messages_encodable(v);
    lemma_vv_array_shape(v1, crate::sign::sign_cv(x)->Array_0);
    let a1 = arr_of(v1);
    lemma_prot_slot_same(a[0], 0, x.protected, a1[0]);
    lemma_hdr_reenc(a[1], 0, x.unprotected, a1[1]);
    lemma_payload_slot(a[2], x.payload, a1[2]);
    lemma_sigs_reenc(a[3], x.signatures@, a1[3]);
    lemma_prot_res_deterministic(a1[0], 0, x1.protected, x.protected);
    lemma_hdr_res_deterministic(a1[1], 0, x1.unprotected, x.unprotected);
    lemma_sigs_det(a1[3], x1.signatures@, x.signatures@);
    lemma_prot_slot_eqv(x1.protected, x.protected);
    lemma_hdr_cv_eqv(x1.unprotected, x.unprotected);
    assert(crate::sign::sign_cv(x1)->Array_0 =~= crate::sign::sign_cv(x)->Array_0);
}
// ---- COSE_recipient (recursive), COSE_Encrypt, COSE_Mac
use crate::encrypt::{recipient_ok, recipient_res, recipient_cv, recipients_ok, recipients_res, recipients_cv};
proof fn lemma_recipient_reenc(v: Value, x: CoseRecipient, w: Value)
    requires recipient_ok(v), recipient_res(v, x), vv(w) == recipient_cv(x),
    ensures recipient_ok(w), recipient_res(w, x),
    decreases v, 1nat
{
    let a = arr_of(v);
    reveal_with_fuel(recipient_cv, 1);
    lemma_vv_array_shape(w, recipient_cv(x)->Array_0);
    let aw = arr_of(w);
    lemma_prot_slot_same(a[0], 0, x.protected, aw[0]);
    lemma_hdr_reenc(a[1], 0, x.unprotected, aw[1]);
    lemma_payload_slot(a[2], x.ciphertext, aw[2]);
    if x.recipients@.len() > 0 {
        lemma_arr_elem_decreases(v, 3);
        lemma_recipients_reenc(a[3], x.recipients@, aw[3]);
    }
}
proof fn lemma_recipients_reenc(v: Value, s: Seq<CoseRecipient>, w: Value)
    requires recipients_ok(v), recipients_res(v, s), vv(w) == recipients_cv(s),
    ensures recipients_ok(w), recipients_res(w, s),
    decreases v, 0nat
{
    reveal_with_fuel(recipients_cv, 1);
    lemma_vv_array_shape(w, recipients_cv(s)->Array_0);
    assert forall |j: int| 0 <= j < s.len() implies recipient_ok(#[trigger] arr_of(w)[j]) && recipient_res(arr_of(w)[j], s[j]) by {
        lemma_arr_elem_decreases(v, j);
        lemma_recipient_reenc(arr_of(v)[j], s[j], arr_of(w)[j]);
    }
}
proof fn lemma_recipient_det(v: Value, x1: CoseRecipient, x2: CoseRecipient)
    requires recipient_res(v, x1), recipient_res(v, x2),
    ensures recipient_eqv(x1, x2),
    decreases v, 1nat
{
    let a = arr_of(v);
    lemma_prot_res_deterministic(a[0], 0, x1.protected, x2.protected);
    lemma_hdr_res_deterministic(a[1], 0, x1.unprotected, x2.unprotected);
    if a.len() == 4 { lemma_arr_elem_decreases(v, 3); lemma_recipients_det(a[3], x1.recipients@, x2.recipients@); }
}
proof fn lemma_recipients_det(v: Value, s1: Seq<CoseRecipient>, s2: Seq<CoseRecipient>)
    requires recipients_res(v, s1), recipients_res(v, s2),
    ensures recipients_eqv(s1, s2),
    decreases v, 0nat
{
    assert forall |j: int| 0 <= j < s1.len() implies recipient_eqv(#[trigger] s1[j], s2[j]) by {
        lemma_arr_elem_decreases(v, j);
        lemma_recipient_det(arr_of(v)[j], s1[j], s2[j]);
    }
}
proof fn lemma_recipient_cv_eqv(a: CoseRecipient, b: CoseRecipient)
    requires recipient_eqv(a, b),
    ensures recipient_cv(a) == recipient_cv(b),
    decreases a, 1nat
{
    reveal_with_fuel(recipient_cv, 1);
    lemma_prot_slot_eqv(a.protected, b.protected);
    lemma_hdr_cv_eqv(a.unprotected, b.unprotected);
    assert forall |j: int| 0 <= j < a.recipients@.len() implies recipient_cv(#[trigger] a.recipients@[j]) == recipient_cv(b.recipients@[j]) by {
        assert(decreases_to!(a => a.recipients));
        assert(decreases_to!(a.recipients => a.recipients@[j]));
        lemma_recipient_cv_eqv(a.recipients@[j], b.recipients@[j]);
    }
    reveal_with_fuel(recipients_cv, 1);
    assert(recipients_cv(a.recipients@)->Array_0 =~= recipients_cv(b.recipients@)->Array_0);
    assert(recipient_cv(a)->Array_0 =~= recipient_cv(b)->Array_0);
}
proof fn lemma_recipients_cv_eqv(a: Seq<CoseRecipient>, b: Seq<CoseRecipient>)
    requires recipients_eqv(a, b),
    ensures recipients_cv(a) == recipients_cv(b),
{
    reveal_with_fuel(recipients_cv, 1);
    assert forall |j: int| 0 <= j < a.len() implies recipient_cv(#[trigger] a[j]) == recipient_cv(b[j]) by { lemma_recipient_cv_eqv(a[j], b[j]); }
    assert(recipients_cv(a)->Array_0 =~= recipients_cv(b)->Array_0);
}
pub proof fn lemma_recipient_fixed_point(v: Value, x: CoseRecipient, v1: Value, x1: CoseRecipient)
    requires recipient_ok(v), recipient_res(v, x), vv(v1) == recipient_cv(x), recipient_res(v1, x1),
    ensures crate::encrypt::recipient_encodable(x), recipient_ok(v1), recipient_res(v1, x), recipient_eqv(x1, x), recipient_cv(x1) == recipient_cv(x),
{
    crate::vlemmas::lemma_decoded_recipient_encodable(v, x);
    lemma_recipient_reenc(v, x, v1);
    lemma_recipient_det(v1, x1, x);
    lemma_recipient_cv_eqv(x1, x);
}
pub proof fn lemma_encrypt_fixed_point(v: Value, x: CoseEncrypt, v1: Value, x1: CoseEncrypt)
    requires crate::encrypt::encrypt_ok(v), crate::encrypt::encrypt_res(v, x), vv(v1) == crate::encrypt::encrypt_cv(x), crate::encrypt::encrypt_res(v1, x1),
    ensures crate::encrypt::encrypt_encodable(x), crate::encrypt::encrypt_ok(v1), crate::encrypt::encrypt_res(v1, x), encrypt_eqv(x1, x), crate::encrypt::encrypt_cv(x1) == crate::encrypt::encrypt_cv(x),
{
    let a = arr_of(v);
    crate::vlemmas::lemma_decoded_messages_encodable(v);
    lemma_vv_array_shape(v1, crate::encrypt::encrypt_cv(x)->Array_0);
    let a1 = arr_of(v1);
    lemma_prot_slot_same(a[0], 0, x.protected, a1[0]);
    lemma_hdr_reenc(a[1], 0, x.unprotected, a1[1]);
    lemma_payload_slot(a[2], x.ciphertext, a1[2]);
    lemma_recipients_reenc(a[3], x.recipients@, a1[3]);
    lemma_prot_res_deterministic(a1[0], 0, x1.protected, x.protected);
    lemma_hdr_res_deterministic(a1[1], 0, x1.unprotected, x.unprotected);
    lemma_recipients_det(a1[3], x1.recipients@, x.recipients@);
    lemma_prot_slot_eqv(x1.protected, x.protected);
    lemma_hdr_cv_eqv(x1.unprotected, x.unprotected);
    lemma_recipients_cv_eqv(x1.recipients@, x.recipients@);
    assert(crate::encrypt::encrypt_cv(x1)->Array_0 =~= crate::encrypt::encrypt_cv(x)->Array_0);
}
pub proof fn lemma_mac_fixed_point(v: Value, x: CoseMac, v1: Value, x1: CoseMac)
    requires crate::mac::mac_ok(v), crate::mac::mac_res(v, x), vv(v1) == crate::mac::mac_cv(x), crate::mac::mac_res(v1, x1),
    ensures crate::mac::mac_encodable(x), crate::mac::mac_ok(v1), crate::mac::mac_res(v1, x), mac_eqv(x1, x), crate::mac::mac_cv(x1) == crate::mac::mac_cv(x),
{
    let a = arr_of(v);
    crate::vlemmas::lemma_decoded_messages_encodable(v);
    lemma_vv_array_shape(v1, crate::mac::mac_cv(x)->Array_0);
    let a1 = arr_of(v1);
    lemma_prot_slot_same(a[0], 0, x.protected, a1[0]);
    lemma_hdr_reenc(a[1], 0, x.unprotected, a1[1]);
    lemma_payload_slot(a[2], x.payload, a1[2]);
    lemma_bytes_slot(a[3], x.tag, a1[3]);
    lemma_recipients_reenc(a[4], x.recipients@, a1[4]);
    lemma_prot_res_deterministic(a1[0], 0, x1.protected, x.protected);
    lemma_hdr_res_deterministic(a1[1], 0, x1.unprotected, x.unprotected);
    lemma_recipients_det(a1[4], x1.recipients@, x.recipients@);
    lemma_prot_slot_eqv(x1.protected, x.protected);
    lemma_hdr_cv_eqv(x1.unprotected, x.unprotected);
    lemma_recipients_cv_eqv(x1.recipients@, x.recipients@);
    assert(crate::mac::mac_cv(x1)->Array_0 =~= crate::mac::mac_cv(x)->Array_0);
}
}
}
