#!/usr/bin/env python3
"""(Re)write /verif/MANIFEST.json from tools/obligations.py and the texts below."""
import json, os, sys
sys.path.insert(0, os.path.dirname(os.path.abspath(__file__)))
import obligations
VERIF = os.path.dirname(os.path.dirname(os.path.abspath(__file__)))
props = [json.loads(l) for l in open(os.path.join(VERIF, 'properties.jsonl'))]

TRUST = ('Trusted: ciborium (bytes<->Value, assumed contracts A-PARSE/A-SER on the two pass-through shims), vstd and the added std '
         'assume_specifications, derived Clone/Default, the `?`-uses-From axiom, Value extensionality, the syntactic rewrites R1-R9 of the '
         'extractor, Verus/Z3. Every such item is listed by name in the evidence file (trusted_base).')
TEXT = {
 'C03': ('The real sig_structure_data, SignatureContext::text, CoseSign1/CoseSign tbs_data and tbs_detached_data, ProtectedHeader::cbor_bstr, '
         'Header::to_cbor_value and the generic to_vec are verified by Verus against the RFC 8152 4.4 structure written as a spec function: '
         'the returned bytes equal enc([context, slot(body), (slot(sign),) aad, payload]) for all inputs, where slot() is the stored bytes, '
         'the empty string, or enc of the header map. Unbounded in every argument.', '4 C03'),
 'C04': ('mac_structure_data, MacContext::text, CoseMac/CoseMac0 tbm, verify_tag, create_tag, try_create_tag verified against the RFC 8152 6.3 '
         'MAC_structure spec function; the bytes handed to the closure are exactly that encoding (existentially quantified witness tied by call_ensures); '
         'the payload precondition is the documented panic.', '4 C04'),
 'C05': ('enc_structure_data, EncryptionContext::text, the three decrypt methods, recipient aad and all create_ciphertext variants verified against the '
         'RFC 8152 5.3 Enc_structure spec function, with the recipient-context and ciphertext-present preconditions being the documented panics.', '4 C05'),
 'C06': ('Every create/add/try_* helper is verified to hand the closure exactly the structure bytes computed from the builder state at call time and to store '
         'the closure result with all other fields unchanged (whole-struct frame); verify/decrypt helpers are verified to pass the stored signature/tag/ciphertext '
         'first, the recomputed structure second and to return the closure result unchanged. Sequences of calls: composition of these total per-call contracts.', '4 C06'),
}
checks = []
for p in props:
    pid = p['id']
    if pid in obligations.OBLIGATIONS and pid in TEXT:
        txt, ref = TEXT[pid]
        checks.append({
            'property_id': pid,
            'quick_cmd': 'python3 tools/check.py %s --tier quick' % pid,
            'thorough_cmd': 'python3 tools/check.py %s --tier thorough' % pid,
            'evidence_file': '/verif/evidence/%s.json' % pid,
            'replay_cmd_template': 'python3 tools/check.py --replay {path}',
            'engine': 'verus',
            'level_claimed': {'category': 'proof', 'text': txt, 'design_ref': 'DESIGN.md section ' + ref},
            'level_note': TRUST,
            'technique': 'contract-based deductive verification (Verus/Z3) of the real functions, re-extracted from /repo on every run',
        })
claimed = set(c['property_id'] for c in checks)
na = [{'property_id': p['id'], 'reason': 'check not built yet (work in progress; contracts are being written)'} for p in props if p['id'] not in claimed]
m = {
 'version': 1,
 'setup_cmd': 'python3 tools/setup.py',
 'hooks': {'guard': 'google_coset_verif', 'enable': 'none needed: contracts live in /verif/contracts and are merged into a mechanical re-extraction of /repo/src on every run; /repo carries no hook code',
           'baseline_off_cmd': 'cd /repo && cargo test --workspace --no-fail-fast --offline', 'source_commits': [], 'add_only': True},
 'engines': [{'name': 'verus', 'path': '/verif/tools/check.py', 'serves_properties': sorted(claimed),
              'kind_free_text': 'Verus 0.2026.09.13 (Z3) on a file generated from /repo/src/*/mod.rs by tools/extract.py, linked against the real ciborium rlibs'}],
 'checks': checks,
 'not_applicable': na,
 'notes': 'fix: commits in /repo: 0a1b5cb (C12 encode duplicates), 0ec8fc4 (C01 nesting limit); see known_findings.txt and DESIGN.md',
}
json.dump(m, open(os.path.join(VERIF, 'MANIFEST.json'), 'w'), indent=1)
print('checks:', sorted(claimed))
