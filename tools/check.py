#!/usr/bin/env python3
"""Per-property check driver.

  check.py <ID> [--tier quick|thorough]     decide property <ID> on /repo's current working tree
  check.py --replay <path>                  re-run the check a replay file belongs to

exit 0: every obligation of the property is discharged (KNOWN-FINDING lines are printed for listed findings)
exit 1: an obligation that is discharged on the unchanged tree fails with a semantic verdict;
        prints `VIOLATION property=<id> replay=<path>`
exit 2: undecided (extraction anchor lost, unsupported construct, compile error in ghost code,
        resource limit, new unlisted assumption): prints `UNDECIDED property=<id> reason=...`, never an alarm
"""
import os, sys, json, time, re, fnmatch, hashlib, subprocess, argparse
sys.path.insert(0, os.path.dirname(os.path.abspath(__file__)))
import extract
import rewritten_tests, runverus, runkani, obligations

VERIF = extract.VERIF
EVID = os.environ.get('VERIF_EVIDENCE_DIR') or os.path.join(VERIF, 'evidence')
REPLAYS = os.path.join(VERIF, 'replays')

ASSUMPTIONS_COMMON = [
    'A-TOOLCHAIN: Verus 0.2026.09.13 / Z3 are sound; rustc 1.98.1 (Verus) and the repository toolchain give this source the same semantics',
    'A-EXTRACT: rewrites R1-R11 of tools/extract.py (DESIGN.md 2.2) preserve behaviour; they are purely syntactic and re-applied to the current source on every run',
    'A-STD: vstd specifications of Vec/Option/Result/slices/BTreeSet and the added assume_specifications of std functions (listed in trusted_base)',
    'A-DERIVE: derived Clone returns an equal value, derived Default is field-wise default (listed in trusted_base)',
    'A-QMARK: `?` converts errors with From::from (axiom_question_mark_uses_from)',
    'A-VALUE-EXT: ciborium Values are determined by their data-model view (axiom_vv_injective)',
    'machine integers are modelled exactly (Verus checks overflow); nothing is treated as mathematical',
]


def scan_trusted(text):
    """every assumption-like construct in the generated file, by name"""
    out = []
    for m in re.finditer(r'assume_specification[^\[;]*\[\s*(.+?)\s*\]\s*\(', text):
        out.append('assume_specification ' + re.sub(r'\s+', ' ', m.group(1)))
    for m in re.finditer(r'(?:broadcast\s+)?axiom fn (\w+)', text):
        out.append('axiom ' + m.group(1))
    for m in re.finditer(r'#\[verifier::external_body\](?! /\*degraded\*/)', text):
        m2 = re.search(r'\b(?:const|fn|struct)\s+(\w+)', text[m.end():m.end() + 600])
        out.append('external_body ' + (m2.group(1) if m2 else '?'))
    for m in re.finditer(r'#\[verifier::external\]\s*(?:impl [^{]+|(?:pub\s+)?fn \w+)', text):
        out.append('external ' + re.sub(r'\s+', ' ', m.group(0).split(']', 1)[1].strip()))
    for m in re.finditer(r'\b(assume|admit)\s*\(', text):
        out.append(m.group(1) + '()')
    for m in re.finditer(r'external_type_specification\]\s*(?:#\[[^\]]*\]\s*)*pub struct (\w+)', text):
        out.append('external_type_specification ' + m.group(1))
    return sorted(set(out))


def allowlist():
    p = os.path.join(VERIF, 'contracts', 'trusted_allowlist.txt')
    if not os.path.exists(p):
        return None
    return set(l.strip() for l in open(p) if l.strip() and not l.startswith('#'))


def write_evidence(pid, tier, seed, t0, cov, assumptions, violations):
    os.makedirs(EVID, exist_ok=True)
    ev = {'property_id': pid, 'tier': tier, 'seed': seed, 'level': 'proof', 'coverage': cov,
          'assumptions': assumptions, 'wall_s': round(time.time() - t0, 2), 'violations': violations}
    json.dump(ev, open(os.path.join(EVID, pid + '.json'), 'w'), indent=1)


def diag_for(run, text, names):
    """verifier diagnostics that fall inside the named functions (by line ranges in the generated file)"""
    short = set(n.split('::')[-1] for n in names)
    lines = text.split('\n')
    idx = runverus.line_index(text)
    out = []
    for d in run['diagnostics']:
        for s in d['spans']:
            if s['file'].endswith('.rs') and 'std_specs' not in s['file'] and 0 < s['line'] <= len(idx):
                if idx[s['line'] - 1] in short:
                    out.append({'message': d['message'], 'line': s['line'], 'text': s['text'], 'rendered': d['rendered'][:1500]})
                    break
    return out


def locate_functions(run, text):
    """(module, fn name, ordinal) of the real functions that the tool errors of this run point into"""
    starts = [0]
    for i, ch in enumerate(text):
        if ch == '\n':
            starts.append(i + 1)
    mods = [(m.start(), m.group(1)) for m in re.finditer(r'^(?:pub(?:\([a-z]+\))? )?mod (\w+) \{', text, flags=re.M)]
    out = []
    for d in run['diagnostics']:
        if out:
            break       # one error at a time: later errors are often consequences of the first (a module that does not parse)
        for sp in d['spans']:
            if not sp.get('primary') or not sp['file'].endswith('.rs') or 'vstd' in sp['file'] or sp['line'] > len(starts):
                continue
            off = starts[sp['line'] - 1] + max(0, sp.get('col', 1) - 1)
            encl = [x for x in mods if x[0] <= off]
            if not encl:
                continue
            mstart, mname = encl[-1]
            if mname not in extract.MODS:
                continue
            eol = text.find('\n', off)
            mtext = text[mstart:(eol if eol >= 0 else len(text))]
            # a module-level const item: its initialiser can be hidden from the verifier as well
            lstart = text.rfind('\n', 0, off) + 1
            cm = re.match(r'\s*(?:pub(?:\([a-z]+\))? )?const\s+([A-Z_][A-Z0-9_]*)\s*:', text[lstart:eol if eol >= 0 else len(text)])
            if cm and text.rfind(extract.GOPEN, 0, lstart) <= text.rfind(extract.GCLOSE, 0, lstart):
                cand = (mname, 'const:' + cm.group(1), 0)
                if cand not in out:
                    out.append(cand)
                continue
            best = None
            for fm in re.finditer(r'\bfn\s+([A-Za-z0-9_]+)', mtext):
                # real functions only: not inside an inserted region
                if mtext.rfind(extract.GOPEN, 0, fm.start()) > mtext.rfind(extract.GCLOSE, 0, fm.start()):
                    continue
                best = fm
            if best is None:
                continue
            name = best.group(1)
            ordinal = len(extract.fn_occurrences(text[mstart:mstart + best.start()], name))
            if (mname, name, ordinal) not in out:
                out.append((mname, name, ordinal))
    return out


def mentions_closure(text, roots):
    """names reachable from the functions `roots` through 'the body of f mentions the identifier g' (over-approximate call graph)"""
    plain = extract.strip_generated(text)
    bodies = {}
    for m in re.finditer(r'\bfn\s+([A-Za-z0-9_]+)', plain):
        b = plain.find('{', m.end())
        sc = plain.find(';', m.end())
        if b < 0 or (0 <= sc < b):
            continue
        try:
            e = extract.match_brace(plain, b)
        except Exception:
            continue
        bodies.setdefault(m.group(1), set()).update(re.findall(r'[A-Za-z_][A-Za-z0-9_]*', plain[b:e]))
    seen = set()
    todo = [r for r in roots]
    while todo:
        f = todo.pop()
        if f in seen:
            continue
        seen.add(f)
        for g in bodies.get(f, ()):
            if g in bodies and g not in seen:
                todo.append(g)
    return seen


WEAKLY_SPECIFIED_METHODS = {'into', 'try_into', 'to_owned', 'to_string', 'as_ref', 'as_mut', 'borrow', 'eq', 'ne', 'cmp', 'partial_cmp', 'max', 'min', 'lt', 'le', 'gt', 'ge'}
IMPLICIT_CALLS = {'from', 'into', 'try_from', 'try_into', 'clone', 'default', 'fmt', 'eq', 'ne', 'cmp', 'partial_cmp', 'drop', 'deref', 'hash', 'new', 'build'}


def called_by(text, names):
    """short names called (call-shaped mentions: `g(`, `x.g(`, `T::g(`, `T::g` as a function value) from the bodies of the
    functions `names` (verifier table names `module::[Type::]short`; definitions of one short name within a module are merged)"""
    plain = extract.strip_generated(text)
    mods = [(m.start(), m.group(1)) for m in re.finditer(r'^(?:pub(?:\([a-z]+\))? )?mod (\w+) \{', plain, flags=re.M)]
    want = set((n.split('::')[0], re.split(r'__nec_|__ref_', n.split('::')[-1])[0]) for n in names)
    out = set()
    for m in re.finditer(r'\bfn\s+([A-Za-z0-9_]+)', plain):
        encl = [x for x in mods if x[0] <= m.start()]
        if ((encl[-1][1] if encl else ''), m.group(1)) not in want:
            continue
        b = plain.find('{', m.end())
        sc = plain.find(';', m.end())
        if b < 0 or (0 <= sc < b):
            continue
        try:
            e = extract.match_brace(plain, b)
        except Exception:
            continue
        seg = plain[b:e]
        out |= set(re.findall(r'\b([a-z_][A-Za-z0-9_]*)\s*(?:::<[^>]*>)?\s*\(', seg))
        out |= set(re.findall(r'::([a-z_][A-Za-z0-9_]*)\b(?!\s*(?:::|\(|<))', seg))
    return out


def annotation_gaps(text, info, names, degraded, lost=()):
    """For each failing function: reasons why its proof may fail for lack of ANNOTATIONS rather than because the code is
    wrong: (i) it calls a function that is new on this tree and therefore has no contract, (ii) it passes a closure that is
    new on this tree and has no `ensures`, (iii) it calls a function whose contract was dropped for this run.  A failure with
    such a reason is reported undecided unless a failing input is found."""
    def typed_fns(src):
        """{(impl type or '', fn name)} of a module's plain source"""
        res = set()
        spans = []
        for im in re.finditer(r'\bimpl(?:<[^>]*>)?\s+(?:[A-Za-z0-9_:<>, ]+?\s+for\s+)?([A-Za-z0-9_]+)(?:<[^>{]*>)?\s*(?:where[^{]*)?\{', src):
            try:
                e = extract.match_brace(src, im.end() - 1)
            except Exception:
                continue
            spans.append((im.end(), e, im.group(1)))
        for fm in re.finditer(r'\bfn\s+([A-Za-z0-9_]+)', src):
            ty = ''
            for a, b, t in spans:
                if a <= fm.start() <= b:
                    ty = t
            res.add((ty, fm.group(1)))
        return res
    base_pairs = set()
    for mname, bt in info.get('base_text', {}).items():
        base_pairs |= set((mname,) + x for x in typed_fns(bt))
    base_fns = set(n for l in info.get('base_fns', {}).values() for n in l)
    base_all = re.sub(r'\s+', '', '\n'.join(re.sub(r'/\*.*?\*/', '', re.sub(r'//[^\n]*', '', bt), flags=re.S) for bt in info.get('base_text', {}).values()))
    nocontract = set(x.split('::')[-1].split('#')[0] for x in degraded if x.endswith('(no contract)'))
    mods = [(m.start(), m.group(1)) for m in re.finditer(r'^(?:pub(?:\([a-z]+\))? )?mod (\w+) \{', text, flags=re.M)]
    real_fns = set()
    for mname in extract.MODS:
        st = [x for x in mods if x[1] == mname]
        if st:
            nxt = [x[0] for x in mods if x[0] > st[0][0]]
            seg = extract.strip_generated(text[st[0][0]:(nxt[0] if nxt else len(text))])
            real_fns.update(re.findall(r'\bfn\s+([A-Za-z0-9_]+)', seg))
    new_fns = real_fns - base_fns
    cur_pairs = set()
    for mname in extract.MODS:
        st = [x for x in mods if x[1] == mname]
        if st:
            nxt = [x[0] for x in mods if x[0] > st[0][0]]
            cur_pairs |= set((mname,) + x for x in typed_fns(extract.strip_generated(text[st[0][0]:(nxt[0] if nxt else len(text))])))
    new_pairs = cur_pairs - base_pairs
    new_fns |= set(x[2] for x in new_pairs)
    out = {}
    for n in names:
        if n.startswith('kani:'):
            continue
        parts = n.split('::')
        mname, short = parts[0], re.split(r'__nec_|__ref_', parts[-1])[0]
        st = [x for x in mods if x[1] == mname]
        if not st or mname not in extract.MODS:
            continue
        nxt = [x[0] for x in mods if x[0] > st[0][0]]
        mtext = text[st[0][0]:(nxt[0] if nxt else len(text))]
        reasons = []
        # (an override of a trait method is new as an item but carries the trait-level contract: its failure is meaningful)
        trait_methods = ('to_vec', 'from_slice', 'to_tagged_vec', 'from_tagged_slice', 'from_cbor_value', 'to_cbor_value', 'cmp', 'partial_cmp')
        if short not in trait_methods and len(parts) >= 2 and ((mname, parts[-2] if len(parts) >= 3 else '', short) in new_pairs):
            reasons.append('is-itself-new-on-this-tree-and-has-no-contract')
        for off in extract.fn_occurrences(mtext, short):
            b = mtext.find('{', off)
            # the body: from the first real `{` (outside inserted regions) to its match
            i = off
            body = None
            while i < len(mtext):
                if mtext.startswith(extract.GOPEN, i):
                    i = mtext.index(extract.GCLOSE, i) + len(extract.GCLOSE)
                    continue
                if mtext[i] == '{':
                    body = i
                    break
                if mtext[i] == ';':
                    break
                i += 1
            if body is None:
                continue
            try:
                end = extract.match_brace(mtext, body)
            except Exception:
                continue
            gbody = mtext[body:end + 1]
            plain = extract.strip_generated(gbody)
            words = set(re.findall(r'[A-Za-z_][A-Za-z0-9_]*', plain))
            for w in sorted(words & new_fns):
                reasons.append('calls-new-function-without-contract:' + w)
            for w in sorted((words & set(lost)) - {short}):
                reasons.append('calls-function-whose-contract-anchor-was-lost:' + w)
            for w in sorted(words & nocontract):
                reasons.append('calls-function-whose-contract-was-dropped-this-run:' + w)
            # closures in real code: `|params|` or `||` not followed by an inserted `ensures`
            base = re.sub(r'\s+', '', info.get('base_text', {}).get(mname, ''))
            k = 0
            while k < len(gbody):
                if gbody.startswith(extract.GOPEN, k):
                    k = gbody.index(extract.GCLOSE, k) + len(extract.GCLOSE)
                    continue
                mm = re.compile(r'(?<![|&])\|((?:[^|{};]|/\*<<\*/.*?/\*>>\*/)*)\|(?!\|)', re.S).match(gbody, k)
                prevc = gbody[:k].rstrip()[-1:] if k > 0 else ''
                if mm and prevc in '(,=' :
                    after = gbody[mm.end():mm.end() + 400]
                    annotated = bool(re.match(r'\s*' + re.escape(extract.GOPEN) + r'[^\n]*?ensures', after, flags=re.S)) or 'ensures' in after.split(extract.GCLOSE)[0] and after.lstrip().startswith(extract.GOPEN)
                    sig = re.sub(r'\s+', '', extract.strip_generated(gbody[k:mm.end() + 60]))[:40]
                    if not annotated and sig not in base:
                        reasons.append('passes-a-new-closure-without-ensures:' + sig[:30])
                    k = mm.end()
                    continue
                k += 1
            # (iv) operators Verus' default mode leaves uninterpreted (shifts, remainder, xor, division): a failed proof
            # of code that newly uses one - in the body or in a constant the body names - says nothing about the code
            code = plain
            for w in sorted(w for w in words if re.fullmatch(r'[A-Z][A-Z0-9_]{2,}', w)):
                for cm in re.finditer(r'\bconst\s+' + w + r'\s*:[^=;]*=\s*([^;]+);', extract.strip_generated(text)):
                    code += '\n' + cm.group(1)
            # (v) calls of functions from outside the crate that the reviewed tree never makes: the verifier knows such a
            # function only through whatever specification its library happens to carry (often none about the result)
            ext = set(re.sub(r'\s+', '', m_.group(1)) + '(' for m_ in re.finditer(r'((?:\b[A-Z][A-Za-z0-9_]*(?:<[^>()]*>)?::)+[a-z_][A-Za-z0-9_]*)\s*\(', exotic_strip(plain)))
            ext |= set('.' + m_.group(1) + '(' for m_ in re.finditer(r'\.\s*([a-z_][A-Za-z0-9_]*)\s*(?:::<[^>]*>)?\s*\(', exotic_strip(plain)))
            crate_types = set(re.findall(r'\b(?:struct|enum|trait|type|union)\s+([A-Z][A-Za-z0-9_]*)', extract.strip_generated(text))) | {'Self'}
            for tok in sorted(ext):
                ids = re.findall(r'[A-Za-z0-9_]+', tok)
                nm = ids[-1]
                # (a method with a library specification is usually specified precisely - pop, first, split_off - or not
                # accepted at all; the calls Verus accepts WITHOUT knowing the result are the trait-dispatched conversions and
                # comparisons, and associated functions of foreign types reached through such traits: Vec::from, String::from)
                outside = (ids[0] not in crate_types) if not tok.startswith('.') else (nm in WEAKLY_SPECIFIED_METHODS and nm not in real_fns)
                if outside and tok not in base_all:
                    reasons.append('calls-external-function-the-reviewed-tree-never-calls:' + tok[:-1])
                elif not tok.startswith('.') and tok not in base_all and nm in real_fns:
                    # a call the reviewed tree never makes, to a crate function none of whose definitions carries a contract
                    # (e.g. a `Default::default` impl): the verifier knows nothing about the result
                    sigs = [m_.group(0) for m_ in re.finditer(r'\bfn\s+' + re.escape(nm) + r'\b[^{;]*', text)]
                    if sigs and not any('ensures' in sg or 'returns' in sg for sg in sigs):
                        reasons.append('calls-crate-function-that-has-no-contract:' + tok[:-1])
            # (vi) a comparison method called on a tuple or array expression: dispatched through Ord / PartialEq of a foreign
            # type, which Verus accepts without constraining the result
            pl = exotic_strip(plain)
            for m_ in re.finditer(r'([)\]])\s*\.\s*(cmp|partial_cmp|eq|ne|lt|le|gt|ge|max|min)\s*\(', pl):
                close = m_.start(1)
                opn = {')': '(', ']': '['}[m_.group(1)]
                depth, k = 0, close
                while k >= 0:
                    if pl[k] == m_.group(1):
                        depth += 1
                    elif pl[k] == opn:
                        depth -= 1
                        if depth == 0:
                            break
                    k -= 1
                if k < 0:
                    continue
                before = pl[:k].rstrip()[-1:]
                inner = pl[k + 1:close]
                top, d2 = False, 0
                for ch in inner:
                    if ch in '([{':
                        d2 += 1
                    elif ch in ')]}':
                        d2 -= 1
                    elif ch == ',' and d2 == 0:
                        top = True
                if (not re.match(r'[A-Za-z0-9_>]', before or ' ')) and (top or opn == '[') and re.sub(r'\s+', '', pl[k:m_.end()]) not in base_all:
                    reasons.append('compares-tuples-or-arrays-through-a-trait-method:.' + m_.group(2))
            for snip, op in exotic_ops(code):
                if snip not in base_all:
                    reasons.append('uses-operator-outside-the-default-solver-theory:' + op)
        if reasons:
            out[n] = sorted(set(reasons))
    return out


def _header_chain(plain, pos):
    """headers of the blocks that enclose offset `pos` of comment/string-free code, innermost first, up to the enclosing fn"""
    depth, i, out = 0, pos - 1, []
    while i >= 0:
        c = plain[i]
        if c == '}':
            depth += 1
        elif c == '{':
            if depth == 0:
                k = max(plain.rfind(';', 0, i), plain.rfind('{', 0, i), plain.rfind('}', 0, i))
                hdr = re.sub(r'\s+', '', plain[k + 1:i])
                out.append(hdr)
                if re.search(r'\bfn\b', plain[k + 1:i]):
                    break
            else:
                depth -= 1
        i -= 1
    return out


def _ghost_chains(marked, gopen, gclose):
    """{whitespace-free ghost text: [header chain of each occurrence]} for text whose ghost regions sit between the markers"""
    regs = []

    def rep(m):
        regs.append(m.group(1))
        return '\x00%d\x00' % (len(regs) - 1)
    t = re.sub(re.escape(gopen) + r'(.*?)' + re.escape(gclose), rep, marked, flags=re.S)
    t = exotic_strip(t)
    out = {}
    for m in re.finditer(r'\x00(\d+)\x00', t):
        key = re.sub(r'\s+', '', regs[int(m.group(1))])
        out.setdefault(key, []).append(_header_chain(re.sub(r'\x00\d+\x00', '', t[:m.start()]), len(re.sub(r'\x00\d+\x00', '', t[:m.start()]))))
    return out


def ghost_hints_under_changed_conditions(run, text, n):
    """If EVERY diagnostic of function `n` is a failed ghost assertion or a failed precondition of a ghost (lemma) call inside an
    inserted proof region, and at least one of those regions now sits under a different chain of enclosing block headers
    (`if` conditions, match arms, loops) than in the reviewed annotated copy, the proof hints no longer describe the code they
    are attached to: -> list of reasons, else []."""
    parts = n.split('::')
    mname, short = parts[0], re.split(r'__nec_|__ref_', parts[-1])[0]
    side = os.path.join(VERIF, 'contracts', mname + '.rs')
    if mname not in extract.MODS or not os.path.exists(side):
        return []
    starts = [0]
    for i, ch in enumerate(text):
        if ch == '\n':
            starts.append(i + 1)
    idx = runverus.line_index(text)
    regions = [(m.start(), m.end(), m.group(1)) for m in re.finditer(re.escape(extract.GOPEN) + r'(.*?)' + re.escape(extract.GCLOSE), text, flags=re.S)]
    hit = []
    any_diag = False
    for d in run['diagnostics']:
        sps = [sp for sp in d['spans'] if sp['file'].endswith('.rs') and 'std_specs' not in sp['file'] and 0 < sp['line'] <= len(idx) and idx[sp['line'] - 1] == short]
        if not sps:
            continue
        any_diag = True
        if not d['message'].startswith(('assertion failed', 'precondition not satisfied')):
            return []
        prim = [sp for sp in sps if sp.get('primary')] or sps
        sp = prim[0]
        off = starts[sp['line'] - 1] + max(0, sp.get('col', 1) - 1)
        reg = [r for r in regions if r[0] <= off < r[1]]
        if not reg:
            return []
        hit.append(reg[0])
    if not any_diag or not hit:
        return []
    mods = [(m.start(), m.group(1)) for m in re.finditer(r'^(?:pub(?:\([a-z]+\))? )?mod (\w+) \{', text, flags=re.M)]
    st = [x for x in mods if x[1] == mname]
    nxt = [x[0] for x in mods if st and x[0] > st[0][0]]
    if not st:
        return []
    cur = _ghost_chains(text[st[0][0]:(nxt[0] if nxt else len(text))], extract.GOPEN, extract.GCLOSE)
    base = _ghost_chains(open(side).read(), extract.OPEN, extract.CLOSE)
    out = []
    for r in hit:
        key = re.sub(r'\s+', '', r[2])
        # (the outermost header - the fn signature - may legitimately differ by inserted contract text; compare the inner ones)
        c = sorted(tuple(ch[:-1]) for ch in cur.get(key, []))
        b = sorted(tuple(ch[:-1]) for ch in base.get(key, []))
        if b and c != b:
            out.append('proof-hint-now-sits-under-a-different-condition-than-in-the-reviewed-copy')
    return sorted(set(out))


def exotic_strip(code):
    """code without comments, string and char literals"""
    code = re.sub(r'//[^\n]*', '', code)
    code = re.sub(r'/\*.*?\*/', '', code, flags=re.S)
    code = re.sub(r'"(?:[^"\\]|\\.)*"', '""', code)
    return re.sub(r"'(?:[^'\\]|\\.)'", "''", code)


def exotic_ops(code):
    """[(whitespace-free snippet around the operator, operator)] for shifts, `%`, `^`, `/` in real code (comments, string and
    char literals removed; `>>` closing generics is not a shift)"""
    code = re.sub(r'//[^\n]*', '', code)
    code = re.sub(r'/\*.*?\*/', '', code, flags=re.S)
    code = re.sub(r'"(?:[^"\\]|\\.)*"', '""', code)
    code = re.sub(r"'(?:[^'\\]|\\.)'", "''", code)
    res = []
    for m in re.finditer(r'((?:[\w.]+|[)\]])\s*)(<<=?|>>=?|%=?|\^=?|/=?)(\s*(?:[\w.]+|[(-]))', code):
        op = m.group(2)
        if op.startswith('>>') and not re.search(r'[\w)\]]\s*$', m.group(1)):
            continue
        if op.startswith('>>') and re.search(r'<[^;(){}]*$', code[max(0, m.start() - 80):m.start() + 1]) and not re.match(r'\s*[\d(]', m.group(3)):
            continue
        res.append((re.sub(r'\s+', '', m.group(0)), op))
    return res


def callee_closure(text, tab, roots, maxdef=6):
    """verified exec functions reachable from `roots` (table names) through name-resolved calls"""
    plain = extract.strip_generated(text)
    mods = [(m.start(), m.group(1)) for m in re.finditer(r'^(?:pub(?:\([a-z]+\))? )?mod (\w+) \{', plain, flags=re.M)]
    bodies = {}       # (module, short) -> set of identifiers mentioned
    defs = {}         # short -> number of definitions with a body
    for m in re.finditer(r'\bfn\s+([A-Za-z0-9_]+)', plain):
        b = plain.find('{', m.end())
        sc = plain.find(';', m.end())
        if b < 0 or (0 <= sc < b):
            continue
        try:
            e = extract.match_brace(plain, b)
        except Exception:
            continue
        encl = [x for x in mods if x[0] <= m.start()]
        mname = encl[-1][1] if encl else ''
        seg = plain[b:e]
        called = set(re.findall(r'\b([a-z_][A-Za-z0-9_]*)\s*(?:::<[^>]*>)?\s*\(', seg))                 # f(..), x.f(..), T::f(..)
        called |= set(re.findall(r'::([a-z_][A-Za-z0-9_]*)\b(?!\s*(?:::|\(|<))', seg))                    # T::f passed as a function value
        bodies.setdefault((mname, m.group(1)), set()).update(called - {'clone', 'default', 'fmt', 'eq', 'from', 'into', 'is_empty', 'len', 'push', 'insert', 'contains', 'iter', 'into_iter', 'map', 'ok', 'unwrap', 'expect', 'to_vec', 'to_owned', 'cmp', 'partial_cmp', 'new', 'build', 'text', 'get', 'first', 'last', 'remove', 'pop', 'extend', 'sort_by', 'reverse'})
        defs[m.group(1)] = defs.get(m.group(1), 0) + 1
    by_short = {}
    for n, v in tab.items():
        if n.startswith('kani:') or '__nec_' in n or '__ref_' in n or v.get('mode') != 'exec':
            continue
        by_short.setdefault(n.split('::')[-1], []).append(n)
    seen = set(roots)
    todo = list(roots)
    added = []
    while todo:
        n = todo.pop()
        parts = n.split('::')
        for w in bodies.get((parts[0], parts[-1]), ()):
            if w in by_short and defs.get(w, 0) <= maxdef:
                for c in by_short[w]:
                    if c not in seen:
                        seen.add(c)
                        todo.append(c)
                        added.append(c)
    return sorted(added)


def known_findings(pid):
    out = []
    p = os.path.join(VERIF, 'known_findings.txt')
    if os.path.exists(p):
        for l in open(p):
            m = re.match(r'finding:\s+property=(\S+)\s+id=(\S+)\s+(.*)$', l.strip())
            if m and m.group(1) == pid:
                w = re.search(r'what="([^"]*)"', m.group(3))
                out.append({'id': m.group(2), 'what': w.group(1) if w else m.group(3)})
    return out


def replay_bin():
    """build /verif/replay against the current repository (offline); -> path or None.  COSET_REPO (evaluation on a scratch
    worktree) gets its own copy of the replay crate and its own target directory."""
    import shutil
    repo = extract.REPO
    rdir = os.path.join(VERIF, 'replay')
    tdir = os.path.join(VERIF, 'build/replay-target')
    if repo != '/repo':
        tag = hashlib.sha256(repo.encode()).hexdigest()[:8]
        rcopy = os.path.join(VERIF, 'build', 'replay-' + tag)
        shutil.rmtree(rcopy, ignore_errors=True)
        shutil.copytree(rdir, rcopy, ignore=shutil.ignore_patterns('target'))
        t = open(os.path.join(rcopy, 'Cargo.toml')).read().replace('path = "/repo"', 'path = "%s"' % repo)
        open(os.path.join(rcopy, 'Cargo.toml'), 'w').write(t)
        rdir = rcopy
        tdir = os.path.join(VERIF, 'build/replay-target-' + tag)
    shutil.copy(os.path.join(repo, 'Cargo.lock'), os.path.join(rdir, 'Cargo.lock'))
    env = dict(os.environ, CARGO_NET_OFFLINE='true', CARGO_TARGET_DIR=tdir)
    p = subprocess.run(['cargo', 'build', '--offline', '--release'], cwd=rdir, env=env, capture_output=True, text=True)
    b = os.path.join(tdir, 'release/coset-replay')
    return b if p.returncode == 0 and os.path.exists(b) else None


def find_failing_input(pid, scale=1, seeds=None):
    """run the property's probe sets on the real crate; -> {'probe':..., 'output':...} for the first disagreement, else None"""
    probes = getattr(obligations, 'PROBES', {}).get(pid, [])
    if not probes:
        return None
    rb = replay_bin()
    if rb is None:
        return None
    runs = [(pr, sd) for pr in probes for sd in (seeds or [None])]
    for pr, sd in runs:
        env = dict(os.environ, PROBE_PROPERTY=pid, PROBE_SCALE=str(scale))
        if sd is not None:
            env['VERIF_SEED'] = str(sd)
        try:
            r = subprocess.run([rb, 'probe', pr], capture_output=True, text=True, timeout=1200, env=env)
        except subprocess.TimeoutExpired:
            return {'probe': pr, 'output': 'TIMEOUT (hang) in probe ' + pr, 'replay_cmd': 'PROBE_PROPERTY=%s %s probe %s' % (pid, rb, pr)}
        if r.returncode != 0:
            lines = [l for l in (r.stdout + r.stderr).splitlines() if 'FAILING-INPUT' in l or 'panicked' in l]
            return {'probe': pr, 'output': '\n'.join(lines[:5]) or (r.stdout + r.stderr)[-800:], 'replay_cmd': 'PROBE_PROPERTY=%s %s probe %s' % (pid, rb, pr)}
    return None


def main():
    ap = argparse.ArgumentParser()
    ap.add_argument('pid', nargs='?')
    ap.add_argument('--tier', default=os.environ.get('VERIF_TIER', 'quick'))
    ap.add_argument('--replay')
    a = ap.parse_args()
    if a.replay:
        rp = json.load(open(a.replay))
        a.pid = rp['property']
    pid = a.pid
    seed = int(os.environ.get('VERIF_SEED', '0') or 0)
    t0 = time.time()
    if pid not in obligations.OBLIGATIONS:
        print('UNDECIDED property=%s reason=no-check-registered' % pid)
        return 2

    def undecided(reason, cov=None):
        # the verifier cannot decide this tree; a concrete failing input on the real crate still settles it
        fi = None if reason.startswith(('replay-crate', 'no-check')) else (meas_fail or find_failing_input(pid))
        if fi:
            os.makedirs(REPLAYS, exist_ok=True)
            rpath = os.path.join(REPLAYS, '%s-probe-%s.json' % (pid, fi['probe']))
            json.dump({'property': pid, 'failed_obligations': ['(verifier undecided: %s)' % reason], 'backend': 'native execution of the real crate vs reference implementation (replay/src/probes.rs)',
                       'verifier_output': reason, 'input': fi, 'replay_cmd': fi['replay_cmd']}, open(rpath, 'w'), indent=1)
            c2 = dict(cov or {})
            c2.update({'obligations': max(1, c2.get('obligations', 1)), 'discharged': 0, 'checker_cmd': fi['replay_cmd'], 'trusted_base': c2.get('trusted_base', []), 'undecided_by_verifier': reason, 'failing_input': fi})
            write_evidence(pid, a.tier, seed, t0, c2, ASSUMPTIONS_COMMON, 1)
            print('UNDECIDED-BY-VERIFIER property=%s reason=%s' % (pid, reason))
            print('FAILING-INPUT property=%s %s' % (pid, fi['output'].splitlines()[0][:300] if fi['output'] else ''))
            print('VIOLATION property=%s replay=%s' % (pid, rpath))
            return 1
        print('UNDECIDED property=%s reason=%s' % (pid, reason))
        cov = cov or {}
        cov.setdefault('obligations', 0)
        cov.setdefault('discharged', 0)
        cov.setdefault('checker_cmd', 'verus (not completed)')
        cov.setdefault('trusted_base', [])
        cov['undecided'] = reason
        write_evidence(pid, a.tier, seed, t0, cov, ASSUMPTIONS_COMMON, 0)
        return 2

    # 0. bounded measurements on the real crate: a crash / hang on a concrete input is a violation whatever the verifier says
    measurements = []
    meas_fail = None
    meas = getattr(obligations, 'MEASUREMENTS', {}).get(pid, [])
    if meas:
        rb = replay_bin()
        if rb is None:
            return undecided('replay-crate-did-not-build')
        measurements = []
        for sub in meas:
            try:
                r = subprocess.run([rb] + sub.split(), capture_output=True, text=True, timeout=300, env=dict(os.environ, PROBE_PROPERTY=pid))
                rc, out = r.returncode, (r.stdout + r.stderr)
            except subprocess.TimeoutExpired:
                rc, out = -9, 'TIMEOUT (hang)'
            measurements.append({'cmd': 'coset-replay ' + sub, 'rc': rc, 'label': 'bounded stand-in on the real crate, not counted as proved', 'output': out[-1500:]})
            if rc != 0 and sub.startswith('probe '):
                # an always-on probe disagrees: remember the failing input, and still ask the verifier which obligations fail
                fl = [l for l in out.splitlines() if 'FAILING-INPUT' in l or 'panicked' in l]
                meas_fail = {'probe': sub.split()[1], 'output': '\n'.join(fl[:5]) or out[-800:], 'replay_cmd': 'PROBE_PROPERTY=%s %s %s' % (pid, rb, sub)}
                continue
            if rc != 0:
                os.makedirs(REPLAYS, exist_ok=True)
                rpath = os.path.join(REPLAYS, '%s-%s.json' % (pid, sub.replace(' ', '-')))
                json.dump({'property': pid, 'failed_obligations': ['replay:' + sub], 'backend': 'native execution of the real crate', 'verifier_output': out[-3000:],
                           'input': {'kind': 'generated by coset-replay ' + sub}, 'replay_cmd': rb + ' ' + sub}, open(rpath, 'w'), indent=1)
                write_evidence(pid, a.tier, seed, t0, {'obligations': 1, 'discharged': 0, 'checker_cmd': rb + ' ' + sub, 'trusted_base': [], 'bounded_measurements': measurements}, ASSUMPTIONS_COMMON, 1)
                fl = [l for l in out.splitlines() if 'FAILING-INPUT' in l or 'panicked' in l]
                if fl:
                    print('FAILING-INPUT property=%s %s' % (pid, fl[0][:300]))
                print('VIOLATION property=%s replay=%s' % (pid, rpath))
                return 1
    # 1. re-extract from the current working tree and run the verifier (result cached on the generated text)
    # A function whose CURRENT body the verifier cannot even process (ghost text naming a local that no longer exists, a std
    # function without a specification, ...) is set aside for this run: its contract is assumed, everything else is still
    # verified, and every property that can reach that function is reported undecided (bounded probes decide it).
    degrade = []
    degrade_why = {}
    for attempt in range(10):
        try:
            text, info = extract.generate(degrade=degrade)
        except Exception as e:
            return undecided('extraction-failed:' + str(e).replace(' ', '_')[:200])
        run = runverus.run_verus_on_text(text, 'coset_verus', [])
        cls = runverus.classify(run)
        if cls != 'tool-error':
            break
        loc = locate_functions(run, text)
        if not loc:
            break
        x = loc[0]
        cur = [d for d in degrade if d[:3] == x]
        if cur and cur[0][3] >= 2:
            break
        if cur:
            degrade = [d for d in degrade if d[:3] != x] + [x + (2,)]       # the contract does not fit either: drop it as well
        else:
            degrade.append(x + (1,))
        degrade_why['%s::%s#%d' % x] = re.sub(r'\s+', '_', (run['diagnostics'][0]['message'] if run['diagnostics'] else '?'))[:160]
    # Kani harnesses do not depend on the Verus run: a failing complete harness is a violation with a concrete counterexample
    kani = None
    if any(k.startswith('kani') for _, k in obligations.OBLIGATIONS[pid]):
        kani = runkani.run_all()
        if kani['harnesses'] and kani.get('complete_summary'):
            kfail = sorted(n for pat, k in obligations.OBLIGATIONS[pid] if k.startswith('kani') for n in kani['harnesses']
                           if fnmatch.fnmatchcase(n, pat) and not kani['harnesses'][n].get('ok', False))
            if kfail and cls == 'tool-error':
                os.makedirs(REPLAYS, exist_ok=True)
                cex = {'harness': kfail[0], 'kani_concrete_playback': runkani.counterexample(kfail[0])}
                rpath = os.path.join(REPLAYS, '%s-kani-%s.json' % (pid, kfail[0].split('::')[-1]))
                json.dump({'property': pid, 'failed_obligations': ['kani:' + n for n in kfail], 'backend': 'kani/cbmc complete', 'verifier_output': kani['raw_tail'][-1500:], 'input': cex,
                           'replay_cmd': 'python3 tools/check.py --replay ' + rpath}, open(rpath, 'w'), indent=1)
                write_evidence(pid, a.tier, seed, t0, {'obligations': len(kfail), 'discharged': 0, 'checker_cmd': kani['cmd'], 'trusted_base': []}, ASSUMPTIONS_COMMON, len(kfail))
                for n in kfail:
                    print('FAILED-OBLIGATION property=%s obligation=kani:%s' % (pid, n))
                print('VIOLATION property=%s replay=%s' % (pid, rpath))
                return 1
    if cls == 'tool-error':
        msg = (run['diagnostics'][0]['message'] if run['diagnostics'] else run.get('stderr_tail', '')[-300:])
        return undecided('verifier-did-not-run-to-completion:' + re.sub(r'\s+', '_', msg)[:200])
    tab = runverus.function_table(run)
    degraded = info.get('degraded', [])
    # a trusted (external_body) function whose body changed is no longer covered by the review its trust rested on
    for tc in info.get('trusted_changed', []):
        degraded = degraded + [tc + '#0']
        degrade_why[tc + '#0'] = 'the body of this trusted (never verified) function differs from the reviewed one'
    if degraded:
        roots = set()
        for pat, kind in obligations.OBLIGATIONS[pid]:
            if kind in ('body', 'nec', 'ref'):
                roots.add(re.split(r'__nec_|__ref_', pat.split('::')[-1])[0])
        names = set(x.split('::')[-1].split('#')[0] for x in degraded)
        # which degraded functions can this property reach?  Its own functions (pattern match on the short name), whatever the
        # property's obligation set - listed functions plus their callee closure - calls by name, and the names Rust calls
        # without writing them (`?` -> From::from, `==` -> eq, ...)
        star = [r for r in roots if '*' in r]
        own = sorted(set(n for pat, kind in obligations.OBLIGATIONS[pid] if kind in ('body', 'nec', 'ref') for n in tab
                         if fnmatch.fnmatchcase(n, pat) and not n.startswith('kani:')))
        oset = own + ([] if pid in getattr(obligations, 'NO_CLOSURE', ()) else callee_closure(text, tab, own))
        reach = called_by(text, oset) | IMPLICIT_CALLS
        pats = [(pat.split('::')[0], re.split(r'__nec_|__ref_', pat.split('::')[-1])[0]) for pat, kind in obligations.OBLIGATIONS[pid] if kind in ('body', 'nec', 'ref')]
        hit = sorted(set(x.split('::')[-1].split('#')[0] for x in degraded
                         if x.split('::')[-1].split('#')[0] in reach
                         or any(fnmatch.fnmatchcase(x.split('::')[0], pm) and fnmatch.fnmatchcase(x.split('::')[-1].split('#')[0], ps) for pm, ps in pats)))
        if hit:
            why = ';'.join('%s:%s' % (k, v) for k, v in degrade_why.items() if k.split('::')[-1].split('#')[0] in hit)
            return undecided('verifier-cannot-process-the-current-body-of:' + ','.join(hit) + ':' + why[:200], {'trusted_base': [], 'degraded_functions': degraded})

    # 2. assumption scan against the committed allow-list
    trusted = scan_trusted(text)
    allow = allowlist()
    if allow is not None:
        new = [t for t in trusted if t not in allow]
        if new:
            return undecided('new-unlisted-assumption:' + re.sub(r'\s+', '_', new[0])[:150], {'trusted_base': trusted})

    # 3. canaries must fail
    for c in obligations.MUST_FAIL:
        if c not in tab:
            return undecided('canary-missing:' + c)
        if tab[c]['success']:
            return undecided('canary-verified(axioms-contradictory-or-verifier-vacuous):' + c)

    # 4. the property's obligations
    obl = []
    for pat, kind in obligations.OBLIGATIONS[pid]:
        if kind.startswith('kani'):
            if True:
                if not kani['harnesses'] or not kani.get('complete_summary'):
                    return undecided('kani-did-not-run-to-completion:' + re.sub(r'\s+', '_', kani['raw_tail'][-200:]))
            hits = sorted(n for n in kani['harnesses'] if fnmatch.fnmatchcase(n, pat))
            if not hits:
                return undecided('obligation-lost:kani:' + pat)
            for n in hits:
                tab['kani:' + n] = {'success': kani['harnesses'][n].get('ok', False), 'time_us': int(kani['harnesses'][n].get('time_s', 0) * 1e6), 'rlimit': 0, 'mode': kind}
                if ('kani:' + n, kind) not in obl:
                    obl.append(('kani:' + n, kind))
            continue
        # items nested inside a copy (a function-local `const`, a closure) are not the copy: a necessity / refusal copy is
        # the item whose own name carries the marker
        hits = sorted(n for n in tab if fnmatch.fnmatchcase(n, pat) and not n.startswith('kani:')
                      and (('__nec_' in n.split('::')[-1]) if kind == 'nec' else '__nec_' not in n)
                      and (('__ref_' in n.split('::')[-1]) if kind == 'ref' else '__ref_' not in n))
        if not hits:
            return undecided('obligation-lost:' + pat)
        for n in hits:
            if (n, kind) not in obl:
                obl.append((n, kind))
    # overrides: a type that overrides a provided trait method (from_slice, to_vec, from_tagged_slice, to_tagged_vec) is checked by
    # Verus against the trait-level contract; such an override is an obligation of every property that lists the provided method
    listed_shorts = set(n.split('::')[-1] for n, k in obl if k == 'body')
    override_set = set()
    for n, v in sorted(tab.items()):
        sh = n.split('::')[-1]
        if sh in ('from_slice', 'to_vec', 'from_tagged_slice', 'to_tagged_vec') and sh in listed_shorts and v.get('mode') == 'exec' and not n.startswith('kani:') \
                and '__nec_' not in n and '__ref_' not in n and (n, 'body') not in obl:
            obl.append((n, 'body'))
            override_set.add(n)
    # callee closure: a property is only as good as the contracts of everything its functions call, and those callees'
    # bodies are obligations of the property too.  Calls are resolved by name (over-approximation); names with many
    # definitions (from_cbor_value, to_cbor_value, from_i64, new, ...) are not followed automatically - those callees are
    # listed explicitly in obligations.py.
    auto = [] if pid in getattr(obligations, 'NO_CLOSURE', ()) else callee_closure(text, tab, [n for n, k in obl if k == 'body'])
    auto_set = set()
    for n in auto:
        if (n, 'body') not in obl and (n, 'lemma') not in obl:
            obl.append((n, 'body'))
            auto_set.add(n)
    def ok(n, k):
        if k == 'nec':
            return not tab[n]['success']
        if k == 'ref':
            # refusal copy (negated precondition, `ensures false`): must fail, and only at the documented panic - a failed
            # postcondition means that some call outside the precondition returns normally
            if tab[n]['success']:
                return False
            return not any(d['message'].startswith('postcondition not satisfied') for d in diag_for(run, text, [n]))
        return tab[n]['success']
    failed = [(n, k) for n, k in obl if not ok(n, k)]
    # Solver seeds.  A proof found under any Z3 seed is a proof, so an obligation that fails under the default seed is
    # retried under two more before it is reported (protects against proof instability after harmless edits); the
    # thorough tier always runs them and records which obligations change outcome.  A necessity copy must fail under all.
    stability = None
    retry = [n for n, k in failed if not n.startswith('kani:') and k not in ('nec', 'ref')]
    if a.tier == 'thorough':
        # whole file under two more seeds: which obligations change outcome
        stability = {'seeds': [], 'changed_outcome': [], 'mode': 'whole file'}
        for sd in (seed * 2 + 1, seed * 2 + 2):
            r2 = runverus.run_verus_on_text(text, 'coset_verus', ['--smt-option', 'smt.random_seed=%d' % sd])
            if runverus.classify(r2) == 'tool-error':
                continue
            t2 = runverus.function_table(r2)
            stability['seeds'].append({'seed': sd, 'wall_s': r2['wall_s'], 'cached': r2['cached']})
            for n, k in obl:
                if n.startswith('kani:') or n not in t2:
                    continue
                if t2[n]['success'] != tab[n]['success']:
                    if n not in stability['changed_outcome']:
                        stability['changed_outcome'].append(n)
                    if t2[n]['success']:
                        tab[n] = dict(t2[n], proved_under_seed=sd)
    elif retry and len(retry) <= 3:
        # quick tier: only the failing functions, one Verus run each per seed
        stability = {'seeds': [], 'changed_outcome': [], 'mode': 'failing functions only'}
        for n in retry:
            parts = n.split('::')
            for sd in (seed * 2 + 1, seed * 2 + 2):
                r2 = runverus.run_verus_on_text(text, 'coset_verus', ['--verify-only-module', parts[0], '--verify-function', '::'.join(parts[1:]), '--smt-option', 'smt.random_seed=%d' % sd])
                t2 = runverus.function_table(r2)
                stability['seeds'].append({'seed': sd, 'function': n, 'wall_s': r2['wall_s'], 'cached': r2['cached']})
                if n in t2 and t2[n]['success']:
                    tab[n] = dict(t2[n], proved_under_seed=sd)
                    stability['changed_outcome'].append(n)
                    break
    failed = [(n, k) for n, k in obl if not ok(n, k)]
    # Second back end.  A proof by either back end is a proof: where a complete Kani harness states the same postcondition of
    # the same real function for its whole input domain, an obligation Verus could not discharge (e.g. a constant spelled with
    # an operator Z3 leaves uninterpreted) is discharged by that harness - and if the harness fails, its counterexample is
    # the failing input.
    second = {}
    for n, k in failed:
        if k != 'body' or n.startswith('kani:'):
            continue
        for rx, hs in getattr(obligations, 'KANI_EQUIVALENT', []):
            if re.fullmatch(rx, n):
                if kani is None:
                    kani = runkani.run_all()
                if kani['harnesses'] and kani.get('complete_summary') and all(kani['harnesses'].get(h, {}).get('ok', False) for h in hs):
                    second[n] = hs
                    tab[n] = dict(tab[n], success=True, discharged_by=['kani:' + h for h in hs])
    failed = [(n, k) for n, k in obl if not ok(n, k)]
    # C01 is about panics, aborts and non-termination only: a function that fails NOTHING BUT
    # postconditions (its functional contract) still cannot panic - every callee precondition, index, arithmetic and
    # termination obligation in it was discharged - so such a failure belongs to the functional properties, not to C01.
    # (C01's second clause - decoded values can be handed to the helpers - has its own lemma obligations and probes.)
    not_relevant = []
    if pid in getattr(obligations, 'SAFETY_ONLY', {}):
        keep = obligations.SAFETY_ONLY[pid]
        for n, k in list(failed):
            if k != 'body' or n.startswith('kani:') or any(fnmatch.fnmatchcase(n, pat) for pat in keep):
                continue
            ds = diag_for(run, text, [n])
            # functional diagnostics: a failed postcondition, or a failed ghost `assert` (a proof hint); everything else - callee
            # preconditions (expect / unwrap / indexing / panic!), arithmetic, termination, loop invariants - is safety-relevant
            if ds and all(d['message'].startswith(('postcondition not satisfied', 'assertion failed')) for d in ds):
                not_relevant.append(n)
        failed = [(n, k) for n, k in failed if n not in not_relevant]
    rlimit_hit = [d for d in run['diagnostics'] if 'rlimit' in d['message'] or 'Resource limit' in d['message']]
    discharged = len(obl) - len(failed)
    per = [{'obligation': n, 'kind': k, 'backend': ('kani/cbmc complete' if (k == 'kani' or n in second) else 'kani/cbmc ' + k[5:] if k.startswith('kani') else 'verus/z3'), 'discharged': ok(n, k) or n in not_relevant, 'expect': ('fail' if k == 'nec' else 'fail only at the documented panic' if k == 'ref' else 'pass'),
            'time_ms': tab[n]['time_us'] // 1000, 'rlimit': tab[n]['rlimit'], 'source': ('callee closure' if n in auto_set else 'override of a listed provided trait method' if n in override_set else 'listed')} for n, k in obl]
    cov = {
        'obligations': len(obl), 'discharged': discharged,
        'checker_cmd': run['cmd'] + ((' ; ' + kani['cmd']) if kani else ''),
        'trusted_base': trusted,
        'functions_under_contract': sorted(set(n for n, k in obl if k == 'body')),
        'per_obligation': per,
        'canaries_failed_as_required': obligations.MUST_FAIL,
        'whole_crate': {'functions_checked': len(tab), 'verified': sum(1 for v in tab.values() if v['success']),
                        'verus_wall_s': run['wall_s'], 'cached': run['cached']},
        'inputs_sha256': info['inputs'], 'generated_sha256': info['generated_sha256'],
        'rewrites_applied': info['rewrites'], 'merge': info['merge'],
        'solver_stability': stability,
        'discharged_by_second_back_end': second,
        'functional_only_failures_not_counted_for_this_property': not_relevant,
        'degraded_functions': [{'function': k, 'reason': v, 'effect': 'body not processed by the verifier on this tree; contract assumed for this run; no obligation of this property can reach it'} for k, v in degrade_why.items()],
        'samples': [{'obligation': n, 'kind': k} for n, k in obl[:5]],
        'bounded': [n for n, k in obl if k.startswith('kani-bounded')] + ['replay:' + m for m in getattr(obligations, 'MEASUREMENTS', {}).get(pid, [])],
        'bounded_measurements': measurements,
        'kani': ({'wall_s': kani['wall_s'], 'cached': kani['cached'], 'harnesses': len(kani['harnesses'])} if kani else None),
        'explanation': 'each obligation is the Verus verification condition set of one real function of /repo/src (re-extracted on this run) against its inserted contract, or a lemma over those contracts',
    }
    lost_in = {}
    for m_, mi in info['merge'].items():
        for fn in mi.get('lost_in', []):
            lost_in.setdefault(fn, []).append(m_)
    cov['contract_anchors_lost_in'] = sorted(lost_in)
    if failed:
        names = [n for n, k in failed]
        gaps = annotation_gaps(text, info, names, degraded, lost=set(lost_in))
        cov['annotation_gaps'] = gaps
        for n in names:
            if not n.startswith('kani:') and n not in gaps:
                gh = ghost_hints_under_changed_conditions(run, text, n)
                if gh:
                    gaps[n] = gh
        unsure = [n for n in names if not n.startswith('kani:') and (re.split(r'__nec_|__ref_', n.split('::')[-1])[0] in lost_in or n in gaps)]
        if unsure and len(unsure) == len(names):
            why = ';'.join('%s:%s' % (n.split('::')[-1], '+'.join(gaps[n])[:80]) for n in unsure if n in gaps)
            return undecided(('contract-anchor-lost-or-annotation-gap-and-proof-of-changed-code-failed-in:' + ','.join(unsure) + ((':' + why) if why else ''))[:400], cov)
        ds = diag_for(run, text, names)
        if rlimit_hit and all(any(('rlimit' in d['message'] or 'Resource limit' in d['message']) for d in diag_for(run, text, [n])) for n in names):
            return undecided('resource-limit-in:' + ','.join(names)[:150], cov)
        # Only functions that this property reaches through the callee closure failed - none of the functions it lists, none of
        # their overrides, no lemma, no harness.  The proof of the property is broken (a callee no longer keeps its contract),
        # but which clause of that contract failed may be one this property does not use: that is decided by the property's
        # probes - a failing input makes it a violation, none leaves it undecided (the properties that LIST the callee report it).
        if all(n in auto_set for n in names):
            return undecided(('only-callees-reached-through-the-call-closure-failed-their-own-contracts:' + ','.join(names))[:300], cov)
        os.makedirs(REPLAYS, exist_ok=True)
        cex = None
        for n in names:
            if n.startswith('kani:'):
                cex = {'harness': n[5:], 'kani_concrete_playback': runkani.counterexample(n[5:])}
                break
        if cex is None:
            fi = meas_fail or find_failing_input(pid)
            if fi:
                cex = fi
                print('FAILING-INPUT property=%s %s' % (pid, fi['output'].splitlines()[0][:300] if fi['output'] else ''))
        h = hashlib.sha256((pid + info['generated_sha256']).encode()).hexdigest()[:12]
        rpath = os.path.join(REPLAYS, '%s-%s.json' % (pid, h))
        json.dump({'property': pid, 'failed_obligations': names, 'backend': 'verus/z3',
                   'verifier_output': ds, 'input': cex,
                   'replay_cmd': 'python3 tools/check.py --replay ' + rpath,
                   'generated_sha256': info['generated_sha256'], 'inputs_sha256': info['inputs']}, open(rpath, 'w'), indent=1)
        write_evidence(pid, a.tier, seed, t0, cov, ASSUMPTIONS_COMMON, len(failed))
        for n in names:
            print('FAILED-OBLIGATION property=%s obligation=%s' % (pid, n))
        print('VIOLATION property=%s replay=%s%s' % (pid, rpath, '' if cex else ' no-failing-input-found'))
        return 1
    if a.tier == 'thorough':
        # extraction validation: the rewritten source (what Verus is given, minus ghost text) must still pass the repository's tests
        try:
            rt = rewritten_tests.run()
        except Exception as e:
            rt = {'compiled': False, 'failed': -1, 'rc': -1, 'tail': 'exception: %s' % e}
        cov['extraction_validation'] = rt
        cov['bounded'] += ['rewritten-source-test-suite']
        if not (rt.get('compiled') and rt.get('failed') == 0 and rt.get('rc') == 0):
            return undecided('rewritten-source-does-not-pass-the-repository-tests', cov)
        probes = getattr(obligations, 'PROBES', {}).get(pid, [])
        if probes:
            fi = find_failing_input(pid, scale=20, seeds=[seed, seed + 1, seed + 2])
            cov['bounded'] += ['probe:' + x for x in probes]
            cov['probes'] = {'ran': probes, 'generated_case_scale': 20, 'seeds': [seed, seed + 1, seed + 2], 'failing_input': fi, 'label': 'bounded stand-in on the real crate, not counted as proved'}
            if fi:
                os.makedirs(REPLAYS, exist_ok=True)
                rpath = os.path.join(REPLAYS, '%s-probe-%s.json' % (pid, fi['probe']))
                json.dump({'property': pid, 'failed_obligations': ['probe:' + fi['probe']], 'backend': 'native execution of the real crate vs reference implementation', 'verifier_output': '', 'input': fi, 'replay_cmd': fi['replay_cmd']}, open(rpath, 'w'), indent=1)
                write_evidence(pid, a.tier, seed, t0, cov, ASSUMPTIONS_COMMON, 1)
                print('VIOLATION property=%s replay=%s' % (pid, rpath))
                return 1
    if meas_fail:
        # every obligation was discharged, yet the always-on bounded probe found a disagreement on the real crate
        os.makedirs(REPLAYS, exist_ok=True)
        rpath = os.path.join(REPLAYS, '%s-probe-%s.json' % (pid, meas_fail['probe']))
        json.dump({'property': pid, 'failed_obligations': ['probe:' + meas_fail['probe']], 'backend': 'native execution of the real crate vs reference implementation (always-on bounded probe)',
                   'verifier_output': 'all verifier obligations of the property were discharged', 'input': meas_fail, 'replay_cmd': meas_fail['replay_cmd']}, open(rpath, 'w'), indent=1)
        cov['bounded_measurements'] = measurements
        write_evidence(pid, a.tier, seed, t0, cov, ASSUMPTIONS_COMMON, 1)
        print('FAILING-INPUT property=%s %s' % (pid, meas_fail['output'].splitlines()[0][:300] if meas_fail['output'] else ''))
        print('VIOLATION property=%s replay=%s' % (pid, rpath))
        return 1
    kf = known_findings(pid)
    if kf:
        rb = replay_bin()
        cov['known_findings'] = []
        for f in kf:
            if rb is None:
                return undecided('replay-crate-did-not-build', cov)
            r = subprocess.run([rb, 'finding', f['id']], capture_output=True, text=True)
            still = (r.returncode == 1)
            cov['known_findings'].append({'id': f['id'], 'still_manifests': still, 'replay_output': r.stdout.strip()[:300]})
            if still:
                print('KNOWN-FINDING: property=%s %s [%s]' % (pid, f['what'], r.stdout.strip()[:200]))
            else:
                print('NOTE property=%s listed finding %s no longer manifests on this tree' % (pid, f['id']))
    write_evidence(pid, a.tier, seed, t0, cov, ASSUMPTIONS_COMMON, 0)
    print('OK property=%s obligations=%d discharged=%d wall=%.1fs' % (pid, len(obl), discharged, time.time() - t0))
    return 0


if __name__ == '__main__':
    sys.exit(main())
