#!/usr/bin/env python3
"""Confirm a seeded change (tests still pass, demo fails with / passes without) in a scratch worktree, then run the
property's check on /repo with the patch applied (and undo it).  usage: seeded_eval.py <dir with patch.diff, demo.rs, meta.json> [more props]"""
import os, sys, json, subprocess, shutil, re
VERIF = os.path.dirname(os.path.dirname(os.path.abspath(__file__)))
REPO = os.environ.get('COSET_REPO', '/repo')      # a scratch git worktree of /repo when several evaluations run side by side
WID = os.environ.get('EVAL_WORKER', '')
src = sys.argv[1].rstrip('/')
meta = json.load(open(os.path.join(src, 'meta.json')))
pid = meta['property']
name = os.path.basename(src)
wt = '/tmp/wt-eval' + WID
demo = '/tmp/demo-eval' + WID
def sh(cmd, cwd=None, timeout=3000):
    p = subprocess.run(cmd, shell=True, cwd=cwd, capture_output=True, text=True, timeout=timeout)
    return p.returncode, p.stdout + p.stderr
subprocess.run('git -C /repo worktree remove --force %s 2>/dev/null; rm -rf %s %s' % (wt, wt, demo), shell=True)
rc, out = sh('git -C /repo worktree add -q %s HEAD' % wt)
assert rc == 0, out
res = {'name': name, 'property': pid}
try:
    os.makedirs(demo + '/src')
    open(demo + '/Cargo.toml', 'w').write('[package]\nname = "demo"\nversion = "0.0.0"\nedition = "2018"\n[dependencies]\ncoset = { path = "%s" }\nciborium = { version = "^0.2.1", default-features = false }\n[workspace]\n' % wt)
    shutil.copy(wt + '/Cargo.lock', demo + '/Cargo.lock')
    shutil.copy(os.path.join(src, 'demo.rs'), demo + '/src/main.rs')
    rc, out = sh('cargo build --offline --release 2>&1 | tail -3; ./target/release/demo', cwd=demo)
    res['demo_unchanged_rc'] = rc
    rc, out = sh('git apply %s' % os.path.join(src, 'patch.diff'), cwd=wt)
    res['patch_applies'] = (rc == 0)
    rc, out = sh('cargo test --offline 2>&1 | grep "test result"', cwd=wt)
    res['tests'] = re.findall(r'(\d+) passed; (\d+) failed', out)
    rc, out = sh('cargo build --offline --release 2>&1 | tail -3; ./target/release/demo', cwd=demo, timeout=600)
    res['demo_changed_rc'] = rc
    res['demo_changed_tail'] = out[-300:]
finally:
    subprocess.run('git -C /repo worktree remove --force %s; rm -rf %s %s' % (wt, wt, demo), shell=True)
# now the checks, on /repo itself
rc, out = sh('git -C %s diff --quiet' % REPO + '')
assert rc == 0, 'repo dirty'
rc, out = sh('git -C %s apply %s' % (REPO, os.path.join(src, 'patch.diff')))
assert rc == 0, out
try:
    res['checks'] = {}
    extra = sys.argv[2:]
    if extra == ['--all']:
        extra = [c['property_id'] for c in json.load(open(os.path.join(VERIF, 'MANIFEST.json')))['checks'] if c['property_id'] != pid]
    for p in [pid] + extra:
        env = dict(os.environ, VERIF_EVIDENCE_DIR='/tmp/mut-evidence' + WID)
        pr = subprocess.run(['python3', 'tools/check.py', p], cwd=VERIF, capture_output=True, text=True, env=env)
        lines = [l[:300] for l in pr.stdout.splitlines() if re.match(r'VIOLATION|UNDECIDED|OK |FAILED-OBL|FAILING-INPUT', l)]
        res['checks'][p] = {'rc': pr.returncode, 'lines': lines[:8]}
finally:
    subprocess.run('git -C %s checkout -- .' % REPO, shell=True)
print(json.dumps(res, indent=1))
json.dump(res, open(os.path.join(src, 'eval.json'), 'w'), indent=1)
