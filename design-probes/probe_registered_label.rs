#![allow(unused_imports, dead_code)]
extern crate alloc;
use vstd::prelude::*;
use ciborium as cbor;
use ciborium::value::{Value, Integer};
use alloc::{borrow::ToOwned, boxed::Box, string::String, vec, vec::Vec};
use core::convert::TryInto;
verus! {
#[verifier::external_type_specification]
pub struct ExValue(Value);
#[verifier::external_type_specification]
#[verifier::external_body]
pub struct ExInteger(Integer);
pub enum CoseError { OutOfRangeIntegerValue, UnexpectedItem(&'static str, &'static str), UnregisteredIanaNonPrivateValue }
pub type Result<T, E = CoseError> = core::result::Result<T, E>;
pub uninterp spec fn int_val(i: Integer) -> int;
pub assume_specification [ <i64 as TryFrom<Integer>>::try_from ] (i: Integer) -> (r: core::result::Result<i64, <i64 as TryFrom<Integer>>::Error>)
    ensures
        (i64::MIN <= int_val(i) <= i64::MAX) ==> r == Ok::<i64, <i64 as TryFrom<Integer>>::Error>(int_val(i) as i64),
        !(i64::MIN <= int_val(i) <= i64::MAX) ==> r is Err;
pub assume_specification [ <Value as From<i64>>::from ] (i: i64) -> (r: Value)
    ensures r matches Value::Integer(x) && int_val(x) == i;
impl core::convert::From<core::num::TryFromIntError> for CoseError {
    fn from(_p0: core::num::TryFromIntError) -> Self {
        CoseError::OutOfRangeIntegerValue
    }
}
impl vstd::std_specs::convert::FromSpecImpl<core::num::TryFromIntError> for CoseError {
    open spec fn obeys_from_spec() -> bool { true }
    open spec fn from_spec(v: core::num::TryFromIntError) -> Self { CoseError::OutOfRangeIntegerValue }
}
pub broadcast axiom fn axiom_question_mark_uses_from<F: From<E>, E>(e: E, e2: F)
    ensures #[trigger] vstd::std_specs::control_flow::spec_from::<F, E>(e, e2) ==> call_ensures(<F as From<E>>::from, (e,), e2);

pub(crate) fn cbor_type_error<T>(value: &Value, want: &'static str) -> (r: Result<T>)
  ensures r matches Err(e) && e is UnexpectedItem
{
    let got = match value {
        Value::Integer(_) => "int",
        _ => "other",
    };
    Err(CoseError::UnexpectedItem(got, want))
}

pub trait EnumI64: Sized + Eq {
    spec fn spec_from_i64(i: i64) -> Option<Self>;
    spec fn spec_to_i64(&self) -> i64;
    proof fn lemma_enum_laws()
        ensures forall |i: i64| (#[trigger] Self::spec_from_i64(i)) matches Some(x) ==> x.spec_to_i64() == i,
                forall |x: Self| Self::spec_from_i64(#[trigger] x.spec_to_i64()) == Some(x);
    fn from_i64(i: i64) -> (r: Option<Self>) ensures r == Self::spec_from_i64(i);
    fn to_i64(&self) -> (r: i64) ensures r == self.spec_to_i64();
}
pub trait WithPrivateRange {
    spec fn spec_is_private(i: i64) -> bool;
    fn is_private(i: i64) -> (r: bool) ensures r == Self::spec_is_private(i);
}
pub trait AsCborValue: Sized {
    spec fn spec_from(value: Value) -> Result<Self>;
    fn from_cbor_value(value: Value) -> (r: Result<Self>)
        ensures r == Self::spec_from(value);
    fn to_cbor_value(self) -> Result<Value>;
}

#[derive(Clone, Debug, Eq, PartialEq)]
pub enum RegisteredLabelWithPrivate<T: EnumI64 + WithPrivateRange> {
    PrivateUse(i64),
    Assigned(T),
    Text(String),
}

impl<T: EnumI64 + WithPrivateRange> AsCborValue for RegisteredLabelWithPrivate<T> {
    open spec fn spec_from(value: Value) -> Result<Self> {
        match value {
            Value::Integer(i) => if !(i64::MIN <= int_val(i) <= i64::MAX) { Err(CoseError::OutOfRangeIntegerValue) }
               else if let Some(a) = T::spec_from_i64(int_val(i) as i64) { Ok(RegisteredLabelWithPrivate::Assigned(a)) }
               else if T::spec_is_private(int_val(i) as i64) { Ok(RegisteredLabelWithPrivate::PrivateUse(int_val(i) as i64)) }
               else { Err(CoseError::UnregisteredIanaNonPrivateValue) },
            Value::Text(t) => Ok(RegisteredLabelWithPrivate::Text(t)),
            v => Err(CoseError::UnexpectedItem(arbitrary(), arbitrary())),
        }
    }
    fn from_cbor_value(value: Value) -> (r: Result<Self>)
    {
        broadcast use axiom_question_mark_uses_from;
        match value {
            Value::Integer(i) => {
                let i = i.try_into()?;
                if let Some(a) = T::from_i64(i) {
                    Ok(RegisteredLabelWithPrivate::Assigned(a))
                } else if T::is_private(i) {
                    Ok(RegisteredLabelWithPrivate::PrivateUse(i))
                } else {
                    Err(CoseError::UnregisteredIanaNonPrivateValue)
                }
            }
            Value::Text(t) => Ok(RegisteredLabelWithPrivate::Text(t)),
            v => cbor_type_error(&v, "int/tstr"),
        }
    }
    fn to_cbor_value(self) -> Result<Value> {
        Ok(match self {
            RegisteredLabelWithPrivate::PrivateUse(i) => Value::from(i),
            RegisteredLabelWithPrivate::Assigned(i) => Value::from(i.to_i64()),
            RegisteredLabelWithPrivate::Text(t) => Value::Text(t),
        })
    }
}
}
fn main(){}
