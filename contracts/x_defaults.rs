// A-DERIVE: `#[derive(Default)]` output is not in the source text; each derived `default()` is
// assumed to return the field-wise default value (Option: None, Vec/BTreeSet: empty, u64: 0,
// nested structs: their default, Algorithm/KeyType: their hand-written Default impls, which ARE verified).
mod vdefaults {
use vstd::prelude::*;
use crate::*;
use crate::vprelude::*;
verus!{
impl Header { pub open spec fn is_default(self) -> bool { crate::header::hdr_is_empty(self) } }
impl ProtectedHeader { pub open spec fn is_default(self) -> bool { self.original_data is None && self.header.is_default() } }
impl CoseSignature { pub open spec fn is_default(self) -> bool { self.protected.is_default() && self.unprotected.is_default() && self.signature@.len() == 0 } }
impl CoseSign { pub open spec fn is_default(self) -> bool { self.protected.is_default() && self.unprotected.is_default() && self.payload is None && self.signatures@.len() == 0 } }
impl CoseSign1 { pub open spec fn is_default(self) -> bool { self.protected.is_default() && self.unprotected.is_default() && self.payload is None && self.signature@.len() == 0 } }
impl CoseMac { pub open spec fn is_default(self) -> bool { self.protected.is_default() && self.unprotected.is_default() && self.payload is None && self.tag@.len() == 0 && self.recipients@.len() == 0 } }
impl CoseMac0 { pub open spec fn is_default(self) -> bool { self.protected.is_default() && self.unprotected.is_default() && self.payload is None && self.tag@.len() == 0 } }
impl CoseRecipient { pub open spec fn is_default(self) -> bool { self.protected.is_default() && self.unprotected.is_default() && self.ciphertext is None && self.recipients@.len() == 0 } }
impl CoseEncrypt { pub open spec fn is_default(self) -> bool { self.protected.is_default() && self.unprotected.is_default() && self.ciphertext is None && self.recipients@.len() == 0 } }
impl CoseEncrypt0 { pub open spec fn is_default(self) -> bool { self.protected.is_default() && self.unprotected.is_default() && self.ciphertext is None } }
impl CoseKey { pub open spec fn is_default(self) -> bool {
    self.kty == KeyType::Assigned(iana::KeyType::Reserved) && self.key_id@.len() == 0 && self.alg is None
    && self.key_ops@ == Set::<KeyOperation>::empty() && self.base_iv@.len() == 0 && self.params@.len() == 0 } }
impl PartyInfo { pub open spec fn is_default(self) -> bool { self.identity is None && self.nonce is None && self.other is None } }
impl SuppPubInfo { pub open spec fn is_default(self) -> bool { self.key_data_length == 0 && self.protected.is_default() && self.other is None } }
impl crate::cwt::ClaimsSet { pub open spec fn is_default(self) -> bool {
    self.issuer is None && self.subject is None && self.audience is None && self.expiration_time is None && self.not_before is None
    && self.issued_at is None && self.cwt_id is None && self.rest@.len() == 0 } }

pub assume_specification [ <Header as Default>::default ] () -> (r: Header) ensures r.is_default();
pub assume_specification [ <ProtectedHeader as Default>::default ] () -> (r: ProtectedHeader) ensures r.is_default();
pub assume_specification [ <CoseSignature as Default>::default ] () -> (r: CoseSignature) ensures r.is_default();
pub assume_specification [ <CoseSign as Default>::default ] () -> (r: CoseSign) ensures r.is_default();
pub assume_specification [ <CoseSign1 as Default>::default ] () -> (r: CoseSign1) ensures r.is_default();
pub assume_specification [ <CoseMac as Default>::default ] () -> (r: CoseMac) ensures r.is_default();
pub assume_specification [ <CoseMac0 as Default>::default ] () -> (r: CoseMac0) ensures r.is_default();
pub assume_specification [ <CoseRecipient as Default>::default ] () -> (r: CoseRecipient) ensures r.is_default();
pub assume_specification [ <CoseEncrypt as Default>::default ] () -> (r: CoseEncrypt) ensures r.is_default();
pub assume_specification [ <CoseEncrypt0 as Default>::default ] () -> (r: CoseEncrypt0) ensures r.is_default();
pub assume_specification [ <CoseKey as Default>::default ] () -> (r: CoseKey) ensures r.is_default();
pub assume_specification [ <PartyInfo as Default>::default ] () -> (r: PartyInfo) ensures r.is_default();
pub assume_specification [ <SuppPubInfo as Default>::default ] () -> (r: SuppPubInfo) ensures r.is_default();
pub assume_specification [ <CoseKdfContext as Default>::default ] () -> (r: CoseKdfContext) ensures r.is_default();
pub assume_specification [ <crate::cwt::ClaimsSet as Default>::default ] () -> (r: crate::cwt::ClaimsSet) ensures r.is_default();
}
}
