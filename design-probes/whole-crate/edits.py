EDITS=[]
def E(m,old,new): EDITS.append((m,old,new))

# ---------------- iana traits
E('iana',"""pub trait EnumI64: Sized + Eq {
    fn from_i64(i: i64) -> Option<Self>;
    fn to_i64(&self) -> i64;
}""","""pub trait EnumI64: Sized + Eq {
    spec fn spec_from_i64(i: i64) -> Option<Self>;
    spec fn spec_to_i64(&self) -> i64;
    proof fn lemma_enum_laws()
        ensures forall |i: i64| (#[trigger] Self::spec_from_i64(i)) matches Some(x) ==> x.spec_to_i64() == i,
                forall |x: Self| Self::spec_from_i64(#[trigger] x.spec_to_i64()) == Some(x);
    fn from_i64(i: i64) -> (r: Option<Self>) ensures r == Self::spec_from_i64(i);
    fn to_i64(&self) -> (r: i64) ensures r == self.spec_to_i64();
}""")
E('iana',"""pub trait WithPrivateRange {
    fn is_private(i: i64) -> bool;
}""","""pub trait WithPrivateRange {
    spec fn spec_is_private(i: i64) -> bool;
    fn is_private(i: i64) -> (r: bool) ensures r == Self::spec_is_private(i);
}""")
for t in ['HeaderParameter','Algorithm','EllipticCurve','CwtClaimName']:
    E('iana',f"""impl WithPrivateRange for {t} {{
    fn is_private(i: i64) -> bool {{""",f"""impl WithPrivateRange for {t} {{
    open spec fn spec_is_private(i: i64) -> bool {{ i < -65536 }}
    fn is_private(i: i64) -> bool {{""")

# ---------------- util
E('util',"""pub(crate) fn cbor_type_error<T>(value: &Value, want: &'static str) -> Result<T> {""",
"""pub(crate) fn cbor_type_error<T>(value: &Value, want: &'static str) -> (r: Result<T>)
    ensures r matches Err(e) && e is UnexpectedItem
{""")
E('util',"""    fn try_as_bytes(self) -> Result<Vec<u8>> {
        if let""","""    fn try_as_bytes(self) -> (r: Result<Vec<u8>>)
        ensures self matches Value::Bytes(b) ==> r == Ok::<Vec<u8>, CoseError>(b),
                !(self is Bytes) ==> (r matches Err(e) && e is UnexpectedItem),
    {
        if let""")
E('util',"""    fn try_as_nonempty_bytes(self) -> Result<Vec<u8>> {
        let v""","""    fn try_as_nonempty_bytes(self) -> (r: Result<Vec<u8>>)
        ensures self matches Value::Bytes(b) ==> (if b@.len() > 0 { r == Ok::<Vec<u8>, CoseError>(b) } else { r matches Err(e) && e is UnexpectedItem }),
                !(self is Bytes) ==> (r matches Err(e) && e is UnexpectedItem),
    {
        let v""")
E('util',"""    fn try_as_array(self) -> Result<Vec<Self>> {
        if let""","""    fn try_as_array(self) -> (r: Result<Vec<Self>>)
        ensures self matches Value::Array(a) ==> r == Ok::<Vec<Value>, CoseError>(a),
                !(self is Array) ==> (r matches Err(e) && e is UnexpectedItem),
    {
        if let""")
E('util',"""    fn try_as_map(self) -> Result<Vec<(Self, Self)>> {
        if let""","""    fn try_as_map(self) -> (r: Result<Vec<(Self, Self)>>)
        ensures self matches Value::Map(a) ==> r == Ok::<Vec<(Value, Value)>, CoseError>(a),
                !(self is Map) ==> (r matches Err(e) && e is UnexpectedItem),
    {
        if let""")

# ---------------- common: error conversions
E('common',"""impl core::convert::From<core::num::TryFromIntError> for CoseError {""",
"""impl vstd::std_specs::convert::FromSpecImpl<core::num::TryFromIntError> for CoseError {
    open spec fn obeys_from_spec() -> bool { true }
    open spec fn from_spec(v: core::num::TryFromIntError) -> Self { CoseError::OutOfRangeIntegerValue }
}
impl<T> vstd::std_specs::convert::FromSpecImpl<cbor::ser::Error<T>> for CoseError {
    open spec fn obeys_from_spec() -> bool { true }
    open spec fn from_spec(e: cbor::ser::Error<T>) -> Self { CoseError::EncodeFailed }
}
pub uninterp spec fn de_err_conv<T>(e: cbor::de::Error<T>) -> cbor::de::Error<EndOfFile>;
impl<T> vstd::std_specs::convert::FromSpecImpl<cbor::de::Error<T>> for CoseError {
    open spec fn obeys_from_spec() -> bool { true }
    open spec fn from_spec(e: cbor::de::Error<T>) -> Self { CoseError::DecodeFailed(de_err_conv(e)) }
}
impl core::convert::From<core::num::TryFromIntError> for CoseError {""")
E('common',"""    #[verifier::external_body]
    fn from(e: cbor::de::Error<T>) -> Self {""","""    #[verifier::external_body]
    fn from(e: cbor::de::Error<T>) -> (r: Self) ensures r == CoseError::DecodeFailed(de_err_conv(e)) {""")

# ---------------- common: Label specs
LABEL_SPECS = """
pub open spec fn label_cmp(a: Label, b: Label) -> Ordering {
    match (a, b) {
        (Label::Int(x), Label::Int(y)) => int_cmp(rank(x), rank(y)),
        (Label::Int(_), Label::Text(_)) => Ordering::Less,
        (Label::Text(_), Label::Int(_)) => Ordering::Greater,
        (Label::Text(x), Label::Text(y)) => text_cmp(x@, y@),
    }
}
impl vstd::std_specs::cmp::PartialEqSpecImpl for Label {
    open spec fn obeys_eq_spec() -> bool { true }
    open spec fn eq_spec(&self, other: &Self) -> bool { *self == *other }
}
impl vstd::std_specs::cmp::OrdSpecImpl for Label {
    open spec fn obeys_cmp_spec() -> bool { true }
    open spec fn cmp_spec(&self, other: &Self) -> Ordering { label_cmp(*self, *other) }
}
impl vstd::std_specs::cmp::PartialOrdSpecImpl for Label {
    open spec fn obeys_partial_cmp_spec() -> bool { true }
    open spec fn partial_cmp_spec(&self, other: &Self) -> Option<Ordering> { Some(label_cmp(*self, *other)) }
}
pub proof fn lemma_label_eq_cmp()
    ensures forall |x: Label, y: Label| (x == y) == (#[trigger] label_cmp(x, y) is Equal)
{
    lemma_lex_laws();
    broadcast use axiom_utf8_injective;
    broadcast use axiom_string_ext;
    assert forall |x: Label, y: Label| (x == y) == (#[trigger] label_cmp(x, y) is Equal) by {
        match (x, y) {
            (Label::Text(s), Label::Text(t)) => {
                if lex_cmp(utf8(s@), utf8(t@)) is Equal { lemma_lex_eq(utf8(s@), utf8(t@)); }
            }
            _ => {}
        }
    }
}
pub proof fn lemma_label_cmp_laws()
    ensures
        forall |x: Label, y: Label| (x == y) == (#[trigger] label_cmp(x, y) is Equal),
        forall |x: Label, y: Label| (#[trigger] label_cmp(x, y) is Less) == (label_cmp(y, x) is Greater),
        forall |x: Label, y: Label, z: Label| (#[trigger] label_cmp(x, y) is Less && #[trigger] label_cmp(y, z) is Less) ==> label_cmp(x, z) is Less,
        forall |x: Label, y: Label, z: Label| (#[trigger] label_cmp(x, y) is Greater && #[trigger] label_cmp(y, z) is Greater) ==> label_cmp(x, z) is Greater,
{
    lemma_lex_laws();
    lemma_label_eq_cmp();
}
pub proof fn lemma_label_obeys_cmp()
    ensures vstd::laws_cmp::obeys_cmp::<Label>()
{
    reveal(vstd::laws_eq::obeys_eq_spec_properties);
    reveal(vstd::laws_cmp::obeys_cmp_partial_ord);
    reveal(vstd::laws_cmp::obeys_cmp_ord);
    reveal(vstd::laws_cmp::obeys_partial_cmp_spec_properties);
    lemma_lex_laws();
    lemma_label_eq_cmp();
}
pub broadcast axiom fn axiom_derived_clone_label(a: &Label, b: Label)
    ensures #[trigger] call_ensures(<Label as Clone>::clone, (a,), b) ==> b == *a;
"""
E('common',"""impl CborSerializable for Label {}""","""impl CborSerializable for Label {}
use crate::vprelude::*;
"""+LABEL_SPECS)
E('common',"""impl AsCborValue for Label {
    fn from_cbor_value(value: Value) -> Result<Self> {""","""impl AsCborValue for Label {
    fn from_cbor_value(value: Value) -> (r: Result<Self>)
        ensures match value {
            Value::Integer(i) => if in_i64(int_val(i)) { r == Ok::<Label, CoseError>(Label::Int(int_val(i) as i64)) } else { r matches Err(e) && e is OutOfRangeIntegerValue },
            Value::Text(t) => r == Ok::<Label, CoseError>(Label::Text(t)),
            _ => r matches Err(e) && e is UnexpectedItem,
        }
    { broadcast use axiom_question_mark_uses_from;""")

# ---------------- common: RegisteredLabel<T>
E('common',"""impl<T: EnumI64> CborSerializable for RegisteredLabel<T> {}""","""impl<T: EnumI64> CborSerializable for RegisteredLabel<T> {}
pub open spec fn rl_as_label<T: EnumI64>(l: RegisteredLabel<T>) -> Label {
    match l { RegisteredLabel::Assigned(a) => Label::Int(a.spec_to_i64()), RegisteredLabel::Text(t) => Label::Text(t) }
}
impl<T: EnumI64> vstd::std_specs::cmp::PartialEqSpecImpl for RegisteredLabel<T> {
    open spec fn obeys_eq_spec() -> bool { true }
    open spec fn eq_spec(&self, other: &Self) -> bool { *self == *other }
}
impl<T: EnumI64> vstd::std_specs::cmp::OrdSpecImpl for RegisteredLabel<T> {
    open spec fn obeys_cmp_spec() -> bool { true }
    open spec fn cmp_spec(&self, other: &Self) -> Ordering { label_cmp(rl_as_label(*self), rl_as_label(*other)) }
}
impl<T: EnumI64> vstd::std_specs::cmp::PartialOrdSpecImpl for RegisteredLabel<T> {
    open spec fn obeys_partial_cmp_spec() -> bool { true }
    open spec fn partial_cmp_spec(&self, other: &Self) -> Option<Ordering> { Some(label_cmp(rl_as_label(*self), rl_as_label(*other))) }
}
pub proof fn lemma_reglabel_obeys_cmp<T: EnumI64>()
    ensures vstd::laws_cmp::obeys_cmp::<RegisteredLabel<T>>()
{
    reveal(vstd::laws_eq::obeys_eq_spec_properties);
    reveal(vstd::laws_cmp::obeys_cmp_partial_ord);
    reveal(vstd::laws_cmp::obeys_cmp_ord);
    reveal(vstd::laws_cmp::obeys_partial_cmp_spec_properties);
    lemma_label_cmp_laws();
    lemma_rl_as_label_injective::<T>();
}
pub proof fn lemma_rl_as_label_injective<T: EnumI64>()
    ensures forall |x: RegisteredLabel<T>, y: RegisteredLabel<T>| (#[trigger] rl_as_label(x) == #[trigger] rl_as_label(y)) ==> x == y
{
    T::lemma_enum_laws();
    assert forall |x: RegisteredLabel<T>, y: RegisteredLabel<T>| (#[trigger] rl_as_label(x) == #[trigger] rl_as_label(y)) implies x == y by {
        match (x, y) {
            (RegisteredLabel::Assigned(a), RegisteredLabel::Assigned(b)) => {
                assert(T::spec_from_i64(a.spec_to_i64()) == Some(a));
                assert(T::spec_from_i64(b.spec_to_i64()) == Some(b));
            }
            _ => {}
        }
    }
}
""")
E('common',"""impl<T: EnumI64> AsCborValue for RegisteredLabel<T> {
    fn from_cbor_value(value: Value) -> Result<Self> {""","""impl<T: EnumI64> AsCborValue for RegisteredLabel<T> {
    fn from_cbor_value(value: Value) -> (r: Result<Self>)
        ensures match value {
            Value::Integer(i) => if !in_i64(int_val(i)) { r matches Err(e) && e is OutOfRangeIntegerValue }
                else { match T::spec_from_i64(int_val(i) as i64) {
                    Some(a) => r == Ok::<Self, CoseError>(RegisteredLabel::Assigned(a)),
                    None => r matches Err(e) && e is UnregisteredIanaValue } },
            Value::Text(t) => r == Ok::<Self, CoseError>(RegisteredLabel::Text(t)),
            _ => r matches Err(e) && e is UnexpectedItem,
        }
    { broadcast use axiom_question_mark_uses_from;""")
E('common',"""impl<T: EnumI64 + WithPrivateRange> AsCborValue for RegisteredLabelWithPrivate<T> {
    fn from_cbor_value(value: Value) -> Result<Self> {""","""impl<T: EnumI64 + WithPrivateRange> AsCborValue for RegisteredLabelWithPrivate<T> {
    fn from_cbor_value(value: Value) -> (r: Result<Self>)
        ensures match value {
            Value::Integer(i) => if !in_i64(int_val(i)) { r matches Err(e) && e is OutOfRangeIntegerValue }
                else { match T::spec_from_i64(int_val(i) as i64) {
                    Some(a) => r == Ok::<Self, CoseError>(RegisteredLabelWithPrivate::Assigned(a)),
                    None => if T::spec_is_private(int_val(i) as i64) { r == Ok::<Self, CoseError>(RegisteredLabelWithPrivate::PrivateUse(int_val(i) as i64)) }
                            else { r matches Err(e) && e is UnregisteredIanaNonPrivateValue } } },
            Value::Text(t) => r == Ok::<Self, CoseError>(RegisteredLabelWithPrivate::Text(t)),
            _ => r matches Err(e) && e is UnexpectedItem,
        }
    { broadcast use axiom_question_mark_uses_from;""")

# ---------------- common: value-level decode specs (generic)
E('common',"""impl<T: EnumI64 + WithPrivateRange> CborSerializable for RegisteredLabelWithPrivate<T> {}""","""impl<T: EnumI64 + WithPrivateRange> CborSerializable for RegisteredLabelWithPrivate<T> {}
pub open spec fn label_of(v: Value) -> Option<Label> {
    match v {
        Value::Integer(i) => if in_i64(int_val(i)) { Some(Label::Int(int_val(i) as i64)) } else { None },
        Value::Text(t) => Some(Label::Text(t)),
        _ => None,
    }
}
pub open spec fn reg_of<T: EnumI64>(v: Value) -> Option<RegisteredLabel<T>> {
    match v {
        Value::Integer(i) => if in_i64(int_val(i)) { match T::spec_from_i64(int_val(i) as i64) { Some(a) => Some(RegisteredLabel::Assigned(a)), None => None } } else { None },
        Value::Text(t) => Some(RegisteredLabel::Text(t)),
        _ => None,
    }
}
pub open spec fn regp_of<T: EnumI64 + WithPrivateRange>(v: Value) -> Option<RegisteredLabelWithPrivate<T>> {
    match v {
        Value::Integer(i) => if in_i64(int_val(i)) { match T::spec_from_i64(int_val(i) as i64) {
            Some(a) => Some(RegisteredLabelWithPrivate::Assigned(a)),
            None => if T::spec_is_private(int_val(i) as i64) { Some(RegisteredLabelWithPrivate::PrivateUse(int_val(i) as i64)) } else { None } } } else { None },
        Value::Text(t) => Some(RegisteredLabelWithPrivate::Text(t)),
        _ => None,
    }
}
pub open spec fn nonempty_bytes(v: Value) -> bool { v matches Value::Bytes(b) && b@.len() > 0 }
""")

# ---------------- key
E('key','impl AsCborValue for CoseKey {\n    fn from_cbor_value(value: Value) -> Result<Self> {\n        let m = value.try_as_map()?;\n        let mut key = Self::default();\n        let mut seen = BTreeSet::new();\n        for (l, value) in m.into_iter() {\n            // The `ciborium` CBOR library does not police duplicate map keys.\n            // RFC 8152 section 14 requires that COSE does police duplicates, so do it here.\n            let label = Label::from_cbor_value(l)?;\n            if seen.contains(&label) {\n                return Err(CoseError::DuplicateMapKey);\n            }\n            seen.insert(label.clone());\n            match label {\n                KTY => key.kty = KeyType::from_cbor_value(value)?,\n\n                KID => {\n                    key.key_id = value.try_as_nonempty_bytes()?;\n                }\n\n                ALG => key.alg = Some(Algorithm::from_cbor_value(value)?),\n\n                KEY_OPS => {\n                    let key_ops = value.try_as_array()?;\n                    for key_op in key_ops.into_iter() {\n                        if !key.key_ops.insert(KeyOperation::from_cbor_value(key_op)?) {\n                            return Err(CoseError::UnexpectedItem(\n                                "repeated array entry",\n                                "unique array label",\n                            ));\n                        }\n                    }\n                    if key.key_ops.is_empty() {\n                        return Err(CoseError::UnexpectedItem("empty array", "non-empty array"));\n                    }\n                }\n\n                BASE_IV => {\n                    key.base_iv = value.try_as_nonempty_bytes()?;\n                }\n\n                label => key.params.push((label, value)),\n            }\n        }\n        // Check that key type has been set.\n        if key.kty == KeyType::Assigned(iana::KeyType::Reserved) {\n            return Err(CoseError::UnexpectedItem(\n                "no kty label",\n                "mandatory kty label",\n            ));\n        }\n\n        Ok(key)\n    }\n','use crate::vprelude::*;\nuse crate::common::{label_of, reg_of, regp_of, nonempty_bytes, lemma_label_obeys_cmp, lemma_reglabel_obeys_cmp, axiom_derived_clone_label};\n\npub open spec fn keyops_ok(v: Value) -> bool {\n    v matches Value::Array(a) && a@.len() > 0\n    && (forall |j: int| 0 <= j < a@.len() ==> (#[trigger] reg_of::<iana::KeyOperation>(a@[j])) is Some)\n    && (forall |j: int, k: int| 0 <= j < k < a@.len() ==> #[trigger] reg_of::<iana::KeyOperation>(a@[j]) != #[trigger] reg_of::<iana::KeyOperation>(a@[k]))\n}\npub open spec fn key_pair_ok(k: Value, v: Value) -> bool {\n    label_of(k) matches Some(l) && (\n        if l == Label::Int(1) { reg_of::<iana::KeyType>(v) is Some }\n        else if l == Label::Int(2) { nonempty_bytes(v) }\n        else if l == Label::Int(3) { regp_of::<iana::Algorithm>(v) is Some }\n        else if l == Label::Int(4) { keyops_ok(v) }\n        else if l == Label::Int(5) { nonempty_bytes(v) }\n        else { true })\n}\npub open spec fn labels_distinct(m: Seq<(Value, Value)>) -> bool {\n    forall |i: int, j: int| 0 <= i < j < m.len() ==> #[trigger] label_of(m[i].0) != #[trigger] label_of(m[j].0)\n}\npub open spec fn has_real_kty(m: Seq<(Value, Value)>) -> bool {\n    exists |i: int| 0 <= i < m.len() && #[trigger] label_of(m[i].0) == Some(Label::Int(1))\n        && reg_of::<iana::KeyType>(m[i].1) != Some(KeyType::Assigned(iana::KeyType::Reserved))\n}\npub open spec fn key_wf(m: Seq<(Value, Value)>) -> bool {\n    (forall |i: int| 0 <= i < m.len() ==> #[trigger] key_pair_ok(m[i].0, m[i].1))\n    && labels_distinct(m)\n    && has_real_kty(m)\n}\npub open spec fn is_typed_key_label(l: Label) -> bool {\n    l == Label::Int(1) || l == Label::Int(2) || l == Label::Int(3) || l == Label::Int(4) || l == Label::Int(5)\n}\npub open spec fn params_of(m: Seq<(Value, Value)>) -> Seq<(Label, Value)>\n    decreases m.len()\n{\n    if m.len() == 0 { Seq::empty() } else {\n        let p = params_of(m.drop_last());\n        match label_of(m.last().0) {\n            Some(l) => if is_typed_key_label(l) { p } else { p.push((l, m.last().1)) },\n            None => p,\n        }\n    }\n}\npub assume_specification [ <CoseKey as Default>::default ] () -> (k: CoseKey)\n    ensures\n        k.kty == KeyType::Assigned(iana::KeyType::Reserved) && k.key_id@.len() == 0 && k.alg is None\n        && k.key_ops@ == Set::<KeyOperation>::empty() && k.base_iv@.len() == 0 && k.params@.len() == 0;\n\nimpl AsCborValue for CoseKey {\n    #[verifier::loop_isolation(false)]\n    fn from_cbor_value(value: Value) -> (r: Result<Self>)\n        ensures\n            !(value is Map) ==> r is Err,\n            value matches Value::Map(mv) ==> (r is Ok <==> key_wf(mv@)),\n            value matches Value::Map(mv) ==> (r matches Ok(key) ==> key.params@ == params_of(mv@)),\n    {\n        broadcast use axiom_question_mark_uses_from;\n        broadcast use vstd::std_specs::btree::group_btree_axioms;\n        broadcast use axiom_derived_clone_label;\n        proof { lemma_label_obeys_cmp(); lemma_reglabel_obeys_cmp::<iana::KeyOperation>(); }\n        let m = value.try_as_map()?;\n        let ghost ms = m@;\n        let mut key = Self::default();\n        let mut seen = BTreeSet::new();\n        for (l, value) in it: m.into_iter()\n            invariant\n                0 <= it.index@ <= ms.len(),\n                forall |i: int| 0 <= i < it.index@ ==> #[trigger] key_pair_ok(ms[i].0, ms[i].1),\n                labels_distinct(ms.subrange(0, it.index@)),\n                forall |x: Label| seen@.contains(x) <==> exists |i: int| 0 <= i < it.index@ && #[trigger] label_of(ms[i].0) == Some(x),\n                key.params@ == params_of(ms.subrange(0, it.index@)),\n                (forall |i: int| 0 <= i < it.index@ ==> #[trigger] label_of(ms[i].0) != Some(Label::Int(4))) ==> key.key_ops@ == Set::<KeyOperation>::empty(),\n                (forall |i: int| 0 <= i < it.index@ ==> #[trigger] label_of(ms[i].0) != Some(Label::Int(1))) ==> key.kty == KeyType::Assigned(iana::KeyType::Reserved),\n                forall |i: int| 0 <= i < it.index@ && #[trigger] label_of(ms[i].0) == Some(Label::Int(1)) ==> Some(key.kty) == reg_of::<iana::KeyType>(ms[i].1),\n        {\n            let ghost n = it.index@;\n            let ghost v0 = value;\n            let ghost key_pre = key;\n            proof {\n                assert(l == ms[n].0 && value == ms[n].1);\n                assert(key_wf(ms) ==> key_pair_ok(ms[n].0, ms[n].1));\n            }\n            // The `ciborium` CBOR library does not police duplicate map keys.\n            // RFC 8152 section 14 requires that COSE does police duplicates, so do it here.\n            let label = Label::from_cbor_value(l)?;\n            proof { assert(label_of(ms[n].0) == Some(label)); }\n            if seen.contains(&label) {\n                proof {\n                    let i0 = choose |i: int| 0 <= i < n && #[trigger] label_of(ms[i].0) == Some(label);\n                    assert(label_of(ms[i0].0) == label_of(ms[n].0));\n                    assert(!labels_distinct(ms));\n                }\n                return Err(CoseError::DuplicateMapKey);\n            }\n            seen.insert(label.clone());\n            match label {\n                KTY => key.kty = KeyType::from_cbor_value(value)?,\n\n                KID => {\n                    key.key_id = value.try_as_nonempty_bytes()?;\n                }\n\n                ALG => key.alg = Some(Algorithm::from_cbor_value(value)?),\n\n                KEY_OPS => {\n                    let key_ops = value.try_as_array()?;\n                    let ghost ka = key_ops@;\n                    proof { assert(key.key_ops@ == Set::<KeyOperation>::empty()); }\n                    for key_op in it2: key_ops.into_iter()\n                        invariant\n                            0 <= it2.index@ <= ka.len(),\n                            forall |j: int| 0 <= j < it2.index@ ==> (#[trigger] reg_of::<iana::KeyOperation>(ka[j])) is Some,\n                            forall |j: int, k: int| 0 <= j < k < it2.index@ ==> #[trigger] reg_of::<iana::KeyOperation>(ka[j]) != #[trigger] reg_of::<iana::KeyOperation>(ka[k]),\n                            forall |x: KeyOperation| key.key_ops@.contains(x) <==> exists |j: int| 0 <= j < it2.index@ && #[trigger] reg_of::<iana::KeyOperation>(ka[j]) == Some(x),\n                            key.kty == key_pre.kty, key.key_id == key_pre.key_id, key.alg == key_pre.alg, key.base_iv == key_pre.base_iv, key.params == key_pre.params,\n                    {\n                        let ghost j0 = it2.index@;\n                        proof {\n                            assert(key_op == ka[j0]);\n                            assert(keyops_ok(v0) ==> reg_of::<iana::KeyOperation>(ka[j0]) is Some);\n                        }\n                        if !key.key_ops.insert(KeyOperation::from_cbor_value(key_op)?) {\n                            proof {\n                                let x = reg_of::<iana::KeyOperation>(ka[j0])->0;\n                                let j1 = choose |j: int| 0 <= j < j0 && #[trigger] reg_of::<iana::KeyOperation>(ka[j]) == Some(x);\n                                assert(reg_of::<iana::KeyOperation>(ka[j1]) == reg_of::<iana::KeyOperation>(ka[j0]));\n                                assert(!keyops_ok(v0));\n                            }\n                            return Err(CoseError::UnexpectedItem(\n                                "repeated array entry",\n                                "unique array label",\n                            ));\n                        }\n                    }\n                    if key.key_ops.is_empty() {\n                        proof {\n                            if ka.len() > 0 { assert(key.key_ops@.contains(reg_of::<iana::KeyOperation>(ka[0])->0)); }\n                            assert(!keyops_ok(v0));\n                        }\n                        return Err(CoseError::UnexpectedItem("empty array", "non-empty array"));\n                    }\n                    proof { assert(keyops_ok(v0)); }\n                }\n\n                BASE_IV => {\n                    key.base_iv = value.try_as_nonempty_bytes()?;\n                }\n\n                label => key.params.push((label, value)),\n            }\n            proof {\n                assert(key_pair_ok(ms[n].0, ms[n].1));\n                let s1 = ms.subrange(0, n + 1);\n                assert(s1.drop_last() =~= ms.subrange(0, n));\n                assert(s1.last() == ms[n]);\n                assert forall |i: int, j: int| 0 <= i < j < s1.len() implies #[trigger] label_of(s1[i].0) != #[trigger] label_of(s1[j].0) by {\n                    if j < n { assert(label_of(ms.subrange(0, n)[i].0) != label_of(ms.subrange(0, n)[j].0)); }\n                    else { if label_of(ms[i].0) == Some(label) { assert(false); } }\n                }\n            }\n        }\n        proof { assert(ms.subrange(0, ms.len() as int) =~= ms); }\n        // Check that key type has been set.\n        if key.kty == KeyType::Assigned(iana::KeyType::Reserved) {\n            proof {\n                assert forall |i: int| 0 <= i < ms.len() && #[trigger] label_of(ms[i].0) == Some(Label::Int(1)) implies reg_of::<iana::KeyType>(ms[i].1) == Some(KeyType::Assigned(iana::KeyType::Reserved)) by {}\n                assert(!has_real_kty(ms));\n            }\n            return Err(CoseError::UnexpectedItem(\n                "no kty label",\n                "mandatory kty label",\n            ));\n        }\n        proof {\n            if forall |i: int| 0 <= i < ms.len() ==> #[trigger] label_of(ms[i].0) != Some(Label::Int(1)) { assert(false); }\n            let i1 = choose |i: int| 0 <= i < ms.len() && #[trigger] label_of(ms[i].0) == Some(Label::Int(1));\n            assert(reg_of::<iana::KeyType>(ms[i1].1) == Some(key.kty));\n            assert(has_real_kty(ms));\n        }\n\n        Ok(key)\n    }\n')
