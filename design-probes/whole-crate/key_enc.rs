    #[verifier::loop_isolation(false)]
    fn to_cbor_value(self) -> Result<Value> {
        broadcast use axiom_question_mark_uses_from;
        broadcast use vstd::std_specs::btree::group_btree_axioms;
        broadcast use axiom_derived_clone_label;
        proof { lemma_label_obeys_cmp(); lemma_reglabel_obeys_cmp::<iana::KeyOperation>(); }
        let ghost k0 = self;
        let mut map: Vec<(Value, Value)> = vec![(KTY.to_cbor_value()?, self.kty.to_cbor_value()?)];
        if !self.key_id.is_empty() {
            map.push((KID.to_cbor_value()?, Value::Bytes(self.key_id)));
        }
        if let Some(alg) = self.alg {
            map.push((ALG.to_cbor_value()?, alg.to_cbor_value()?));
        }
        if !self.key_ops.is_empty() {
            map.push((KEY_OPS.to_cbor_value()?, to_cbor_array(self.key_ops)?));
            proof {
                broadcast use crate::util::axiom_iter_enc_ok_btreeset;
                let v = map@[map@.len() - 1].1;
                match v { Value::Array(a) => {
                    assert(crate::util::iter_enc_ok::<BTreeSet<KeyOperation>>(k0.key_ops, a@));
                    let is = choose |is: Seq<KeyOperation>| #![auto] is.len() == a@.len() && is.no_duplicates()
                        && (forall |x: KeyOperation| is.contains(x) <==> k0.key_ops@.contains(x))
                        && (forall |i: int| 0 <= i < a@.len() ==> (#[trigger] is[i]).enc_rel(Ok::<Value, CoseError>(a@[i])));
                    assert forall |i: int| 0 <= i < a@.len() implies (#[trigger] reg_of::<iana::KeyOperation>(a@[i])) == Some(is[i]) by {
                        assert(is[i].enc_rel(Ok::<Value, CoseError>(a@[i])));
                    }
                    assert forall |x: KeyOperation| k0.key_ops@.contains(x) implies exists |i: int| 0 <= i < a@.len() && #[trigger] reg_of::<iana::KeyOperation>(a@[i]) == Some(x) by {
                        assert(is.contains(x));
                        let i = choose |i: int| 0 <= i < is.len() && is[i] == x;
                        assert(reg_of::<iana::KeyOperation>(a@[i]) == Some(x));
                    }
                    assert forall |i: int| 0 <= i < a@.len() implies ((#[trigger] reg_of::<iana::KeyOperation>(a@[i])) matches Some(x) && k0.key_ops@.contains(x)) by {
                        assert(is.contains(is[i]));
                    }
                    assert(ops_enc_ok(k0.key_ops@, v));
                }, _ => {} }
            }
        }
        if !self.base_iv.is_empty() {
            map.push((BASE_IV.to_cbor_value()?, Value::Bytes(self.base_iv)));
        }
        let ghost head0 = map@;
        let ghost o_p = key_enc_off_p(k0);
        proof { assert(head0.len() == o_p); }
        let mut seen = BTreeSet::new();
        for (label, value) in it: self.params
            invariant
                0 <= it.index@ <= k0.params@.len(),
                map@.len() == o_p + it.index@,
                map@.subrange(0, o_p) == head0,
                forall |i: int| o_p <= i < map@.len() ==> label_of(#[trigger] map@[i].0) == Some(k0.params@[i - o_p].0) && map@[i].1 == k0.params@[i - o_p].1,
        {
            proof { assert(label == k0.params@[it.index@].0 && value == k0.params@[it.index@].1); }
            if seen.contains(&label) {
                return Err(CoseError::DuplicateMapKey);
            }
            seen.insert(label.clone());
            let ghost pre = map@;
            map.push((label.to_cbor_value()?, value));
            proof {
                assert(map@.subrange(0, o_p) =~= pre.subrange(0, o_p));
            }
        }
        proof {
            assert(forall |i: int| 0 <= i < o_p ==> map@[i] == map@.subrange(0, o_p)[i]);
        }
        Ok(Value::Map(map))
    }
}
pub open spec fn key_mem_wf(k: CoseKey) -> bool {
    k.kty != KeyType::Assigned(iana::KeyType::Reserved)
    && (k.alg matches Some(a) ==> wf_regp(a))
    && (forall |i: int, j: int| 0 <= i < j < k.params@.len() ==> #[trigger] k.params@[i].0 != #[trigger] k.params@[j].0)
    && (forall |j: int| 0 <= j < k.params@.len() ==> !is_typed_key_label(#[trigger] k.params@[j].0))
}
pub open spec fn key_view_eq(a: CoseKey, b: CoseKey) -> bool {
    a.kty == b.kty && a.key_id@ == b.key_id@ && a.alg == b.alg && a.key_ops@ == b.key_ops@ && a.base_iv@ == b.base_iv@ && a.params@ == b.params@
}
// which label sits at each position of an encoded key map
pub proof fn lemma_enc_labels(k: CoseKey, m: Seq<(Value, Value)>)
    requires key_mem_wf(k), key_enc_ok(k, m)
    ensures
        forall |i: int| 0 <= i < m.len() ==> (#[trigger] label_of(m[i].0)) is Some,
        forall |i: int| 0 <= i < key_enc_off_p(k) ==> is_typed_key_label((#[trigger] label_of(m[i].0))->0),
        forall |i: int| key_enc_off_p(k) <= i < m.len() ==> !is_typed_key_label((#[trigger] label_of(m[i].0))->0),
        forall |i: int| 0 <= i < m.len() ==> (#[trigger] label_of(m[i].0) == Some(Label::Int(1)) <==> i == 0),
        forall |i: int| 0 <= i < m.len() ==> (#[trigger] label_of(m[i].0) == Some(Label::Int(2)) <==> (k.key_id@.len() > 0 && i == 1)),
        forall |i: int| 0 <= i < m.len() ==> (#[trigger] label_of(m[i].0) == Some(Label::Int(3)) <==> (k.alg is Some && i == key_enc_off_alg(k))),
        forall |i: int| 0 <= i < m.len() ==> (#[trigger] label_of(m[i].0) == Some(Label::Int(4)) <==> (k.key_ops@.len() != 0 && i == key_enc_off_ops(k))),
        forall |i: int| 0 <= i < m.len() ==> (#[trigger] label_of(m[i].0) == Some(Label::Int(5)) <==> (k.base_iv@.len() > 0 && i == key_enc_off_biv(k))),
        labels_distinct(m),
{
    let o_p = key_enc_off_p(k);
    assert forall |i: int| 0 <= i < m.len() implies (#[trigger] label_of(m[i].0)) is Some by {
        if i >= o_p { assert(label_of(m[i].0) == Some(k.params@[i - o_p].0)); }
    }
    assert forall |i: int| o_p <= i < m.len() implies !is_typed_key_label((#[trigger] label_of(m[i].0))->0) by {
        assert(label_of(m[i].0) == Some(k.params@[i - o_p].0));
    }
    assert forall |i: int, j: int| 0 <= i < j < m.len() implies #[trigger] label_of(m[i].0) != #[trigger] label_of(m[j].0) by {
        if i >= o_p {
            assert(label_of(m[i].0) == Some(k.params@[i - o_p].0));
            assert(label_of(m[j].0) == Some(k.params@[j - o_p].0));
        } else if j >= o_p {
            assert(label_of(m[j].0) == Some(k.params@[j - o_p].0));
        }
    }
}
pub proof fn lemma_params_of_enc(k: CoseKey, m: Seq<(Value, Value)>, n: int)
    requires key_mem_wf(k), key_enc_ok(k, m), 0 <= n <= m.len()
    ensures params_of(m.subrange(0, n)) == (if n <= key_enc_off_p(k) { Seq::<(Label, Value)>::empty() } else { k.params@.subrange(0, n - key_enc_off_p(k)) })
    decreases n
{
    lemma_enc_labels(k, m);
    let o_p = key_enc_off_p(k);
    if n == 0 {
        assert(m.subrange(0, 0).len() == 0);
    } else {
        lemma_params_of_enc(k, m, n - 1);
        let s1 = m.subrange(0, n);
        assert(s1.drop_last() =~= m.subrange(0, n - 1));
        assert(s1.last() == m[n - 1]);
        if n - 1 >= o_p {
            assert(label_of(m[n - 1].0) == Some(k.params@[n - 1 - o_p].0));
            assert(k.params@.subrange(0, n - o_p) =~= k.params@.subrange(0, n - 1 - o_p).push(k.params@[n - 1 - o_p]));
        } else {
            assert(is_typed_key_label(label_of(m[n - 1].0)->0));
        }
    }
}
/// decode(encode(k)) == k for every well-formed in-memory key
pub proof fn lemma_key_roundtrip(k: CoseKey, v: Value, r2: Result<CoseKey>)
    requires key_mem_wf(k), k.enc_rel(Ok::<Value, CoseError>(v)), CoseKey::dec_rel(v, r2)
    ensures r2 matches Ok(k2) && key_view_eq(k2, k)
{
    match v { Value::Map(mv) => {
        let m = mv@;
        lemma_enc_labels(k, m);
        lemma_params_of_enc(k, m, m.len() as int);
        assert(m.subrange(0, m.len() as int) =~= m);
        // every pair is acceptable
        assert forall |i: int| 0 <= i < m.len() implies #[trigger] key_pair_ok(m[i].0, m[i].1) by {
            if i == key_enc_off_ops(k) && k.key_ops@.len() != 0 {
                let ov = m[i].1;
                match ov { Value::Array(a) => {
                    // non-empty because the set is non-empty and covered
                    let x = choose |x: KeyOperation| k.key_ops@.contains(x);
                    assert(k.key_ops@.contains(x)) by { if forall |y: KeyOperation| !k.key_ops@.contains(y) { assert(k.key_ops@ =~= Set::<KeyOperation>::empty()); } }
                }, _ => {} }
            }
        }
        assert(has_real_kty(m)) by { assert(label_of(m[0].0) == Some(Label::Int(1))); }
        assert(key_wf(m));
        let k2 = r2->Ok_0;
        assert(k2.params@ == k.params@) by { assert(k.params@.subrange(0, k.params@.len() as int) =~= k.params@); }
        assert(Some(k2.kty) == reg_of::<iana::KeyType>(m[0].1));
        if k.key_id@.len() > 0 { assert(label_of(m[1].0) == Some(Label::Int(2))); }
        if k.alg is Some { assert(label_of(m[key_enc_off_alg(k)].0) == Some(Label::Int(3))); }
        if k.base_iv@.len() > 0 { assert(label_of(m[key_enc_off_biv(k)].0) == Some(Label::Int(5))); }
        if k.key_ops@.len() != 0 {
            assert(label_of(m[key_enc_off_ops(k)].0) == Some(Label::Int(4)));
            assert(k2.key_ops@ =~= k.key_ops@);
        } else {
            assert(k.key_ops@ =~= Set::<KeyOperation>::empty());
        }
        assert(r2 is Ok);
        assert(k2.kty == k.kty);
        assert(k2.key_id@ == k.key_id@);
        assert(k2.alg == k.alg);
        assert(k2.key_ops@ == k.key_ops@);
        assert(k2.base_iv@ == k.base_iv@);
    }, _ => {} }
}
impl CoseKey {
