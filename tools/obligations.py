"""Which verified items carry which property (DESIGN.md section 4 / appendix A).

Names are Verus function paths without the crate prefix, as they appear in the verifier's
per-function report; fnmatch patterns are allowed.  `min` is the number of items the pattern
list matched on the unchanged tree: fewer than that at run time means an obligation was lost
(renamed / removed function) and the check answers UNDECIDED (exit 2), never "holds".

kinds:  body    = contracted exec function: all ensures, callee preconditions, panic-freedom, loop
                  invariants, termination measures, arithmetic overflow of the real body
        lemma   = spec-level lemma (proof fn)
        nec     = necessity copy: the body with one documented precondition removed MUST FAIL
        kani    = Kani/CBMC harness on the real crate (complete unless the name says bounded)
"""

# property -> list of (pattern, kind)
OBLIGATIONS = {
    'C03': [
        ('sign::sig_structure_data', 'body'), ('sign::SignatureContext::text', 'body'),
        ('sign::CoseSign1::tbs_data', 'body'), ('sign::CoseSign1::tbs_detached_data', 'body'),
        ('sign::CoseSign::tbs_data', 'body'), ('sign::CoseSign::tbs_detached_data', 'body'),
        ('header::ProtectedHeader::cbor_bstr', 'body'), ('header::ProtectedHeader::is_empty', 'body'), ('header::Header::is_empty', 'body'),
        ('header::Header::to_cbor_value', 'body'), ('common::CborSerializable::to_vec', 'body'),
    ],
    'C04': [
        ('mac::mac_structure_data', 'body'), ('mac::MacContext::text', 'body'),
        ('mac::CoseMac::tbm', 'body'), ('mac::CoseMac0::tbm', 'body'),
        ('mac::CoseMac::verify_tag', 'body'), ('mac::CoseMac0::verify_tag', 'body'),
        ('mac::CoseMacBuilder::create_tag', 'body'), ('mac::CoseMacBuilder::try_create_tag', 'body'),
        ('mac::CoseMac0Builder::create_tag', 'body'), ('mac::CoseMac0Builder::try_create_tag', 'body'),
        ('header::ProtectedHeader::cbor_bstr', 'body'),
    ],
    'C05': [
        ('encrypt::enc_structure_data', 'body'), ('encrypt::EncryptionContext::text', 'body'),
        ('encrypt::CoseRecipient::decrypt', 'body'), ('encrypt::CoseEncrypt::decrypt', 'body'), ('encrypt::CoseEncrypt0::decrypt', 'body'),
        ('encrypt::CoseRecipientBuilder::aad', 'body'),
        ('encrypt::*Builder::create_ciphertext', 'body'), ('encrypt::*Builder::try_create_ciphertext', 'body'),
        ('header::ProtectedHeader::cbor_bstr', 'body'),
    ],
    'C06': [
        ('sign::CoseSign1Builder::create_signature', 'body'), ('sign::CoseSign1Builder::create_detached_signature', 'body'),
        ('sign::CoseSign1Builder::try_create_signature', 'body'), ('sign::CoseSign1Builder::try_create_detached_signature', 'body'),
        ('sign::CoseSignBuilder::add_created_signature', 'body'), ('sign::CoseSignBuilder::add_detached_signature', 'body'),
        ('sign::CoseSignBuilder::try_add_created_signature', 'body'), ('sign::CoseSignBuilder::try_add_detached_signature', 'body'),
        ('sign::CoseSignBuilder::add_signature', 'body'),
        ('sign::CoseSign1::verify_signature', 'body'), ('sign::CoseSign1::verify_detached_signature', 'body'),
        ('sign::CoseSign::verify_signature', 'body'), ('sign::CoseSign::verify_detached_signature', 'body'),
        ('mac::CoseMac::verify_tag', 'body'), ('mac::CoseMac0::verify_tag', 'body'),
        ('mac::*Builder::create_tag', 'body'), ('mac::*Builder::try_create_tag', 'body'),
        ('encrypt::*::decrypt', 'body'), ('encrypt::*Builder::create_ciphertext', 'body'), ('encrypt::*Builder::try_create_ciphertext', 'body'),
    ],
}

OBLIGATIONS.update({
    'C02': [
        ('header::ProtectedHeader::from_cbor_bstr', 'body'), ('header::ProtectedHeader::from_cbor_bstr_nested', 'body'),
        ('header::ProtectedHeader::cbor_bstr', 'body'), ('header::ProtectedHeader::from_cbor_value', 'body'), ('header::ProtectedHeader::to_cbor_value', 'body'),
        ('header::Header::from_cbor_value_nested', 'body'), ('sign::CoseSignature::from_cbor_value_nested', 'body'),
        ('sign::*::from_cbor_value', 'body'), ('mac::*::from_cbor_value', 'body'), ('encrypt::*::from_cbor_value', 'body'),
        ('sign::*::to_cbor_value', 'body'), ('mac::*::to_cbor_value', 'body'), ('encrypt::*::to_cbor_value', 'body'),
        ('sign::sig_structure_data', 'body'), ('mac::mac_structure_data', 'body'), ('encrypt::enc_structure_data', 'body'),
        ('*Builder::protected', 'body'),
        ('vstubs::check_*', 'body'),
    ],
    'C09': [
        ('sign::CoseSign1::from_cbor_value', 'body'), ('sign::CoseSign::from_cbor_value', 'body'), ('sign::CoseSignature::from_cbor_value', 'body'),
        ('sign::CoseSignature::from_cbor_value_nested', 'body'),
        ('mac::CoseMac::from_cbor_value', 'body'), ('mac::CoseMac0::from_cbor_value', 'body'),
        ('encrypt::CoseEncrypt::from_cbor_value', 'body'), ('encrypt::CoseEncrypt0::from_cbor_value', 'body'), ('encrypt::CoseRecipient::from_cbor_value', 'body'),
        ('header::ProtectedHeader::from_cbor_bstr', 'body'), ('header::ProtectedHeader::from_cbor_bstr_nested', 'body'),
        ('header::Header::from_cbor_value', 'body'), ('header::Header::from_cbor_value_nested', 'body'),
        ('value::Value::try_as_*', 'body'), ('vstubs::check_recipient_from_cbor_value_stub', 'body'),
        ('common::read_to_value', 'body'),
    ],
    'C13': [
        ('common::read_to_value', 'body'),
        # the trait default methods AND any override of them in an impl (checked against the trait-level postconditions)
        ('*::from_slice', 'body'), ('*::to_vec', 'body'), ('*::from_tagged_slice', 'body'), ('*::to_tagged_vec', 'body'),
        ('header::ProtectedHeader::from_cbor_bstr_nested', 'body'),
        ('vlemmas::lemma_suffix_is_extraneous', 'lemma'), ('vlemmas::lemma_proper_prefix_rejected', 'lemma'),
    ],
    'C14': [
        ('common::TaggedCborSerializable::from_tagged_slice', 'body'), ('common::TaggedCborSerializable::to_tagged_vec', 'body'),
        ('value::Value::try_as_tag', 'body'), ('value::Value::try_as_array', 'body'),
        ('vlemmas::lemma_untagged_rejects_tag', 'lemma'), ('vlemmas::lemma_double_tag_rejected', 'lemma'),
        ('sign::CoseSign::from_cbor_value', 'body'), ('sign::CoseSign1::from_cbor_value', 'body'), ('mac::CoseMac::from_cbor_value', 'body'),
        ('mac::CoseMac0::from_cbor_value', 'body'), ('encrypt::CoseEncrypt::from_cbor_value', 'body'), ('encrypt::CoseEncrypt0::from_cbor_value', 'body'),
        ('voracle::oracle_CborTag', 'lemma'),
        ('proofs::tag_consts', 'kani'), ('registry_proofs::registry_CborTag', 'kani'),
    ],
    'C17': [
        ('iana::*::from_i64', 'body'), ('iana::*::to_i64', 'body'), ('iana::*::is_private', 'body'), ('iana::*::lemma_enum_laws', 'lemma'),
        ('voracle::oracle_*', 'lemma'),
        ('common::Label::from_cbor_value', 'body'), ('common::RegisteredLabel::from_cbor_value', 'body'), ('common::RegisteredLabelWithPrivate::from_cbor_value', 'body'),
        ('common::Label::to_cbor_value', 'body'), ('common::RegisteredLabel::to_cbor_value', 'body'), ('common::RegisteredLabelWithPrivate::to_cbor_value', 'body'),
        ('registry_proofs::registry_*', 'kani'), ('proofs::private_ranges', 'kani'),
    ],
})

OBLIGATIONS['C03'] += [('sign::CoseSign1::tbs_detached_data__nec_payload', 'nec'), ('sign::CoseSign::tbs_detached_data__nec_payload', 'nec'),
                       ('sign::CoseSign::verify_signature__nec_index', 'nec'), ('sign::CoseSign::verify_detached_signature__nec_index', 'nec')]
OBLIGATIONS['C04'] += [('mac::CoseMac::tbm__nec_payload', 'nec'), ('mac::CoseMac0::tbm__nec_payload', 'nec')]
OBLIGATIONS['C05'] += [('encrypt::CoseRecipient::decrypt__nec_ciphertext', 'nec'), ('encrypt::CoseRecipient::decrypt__nec_context', 'nec'),
                       ('encrypt::CoseEncrypt::decrypt__nec_ciphertext', 'nec'), ('encrypt::CoseEncrypt0::decrypt__nec_ciphertext', 'nec'),
                       ('encrypt::CoseRecipientBuilder::aad__nec_context', 'nec')]
OBLIGATIONS['C19'] = [
    ('*Builder::*', 'body'), ('header::lemma_builder_iv_exclusive', 'lemma'),
    ('header::HeaderBuilder::value__nec_reserved', 'nec'), ('key::CoseKeyBuilder::param__nec_reserved', 'nec'),
    ('cwt::ClaimsSetBuilder::claim__nec_reserved', 'nec'), ('cwt::ClaimsSetBuilder::private_claim__nec_private', 'nec'),
    ('key::KeyType::default', 'body'), ('common::Algorithm::default', 'body'),
]

OBLIGATIONS['C03'] += [('vstructs::lemma_structure_bytes', 'lemma'), ('vstructs::lemma_structure_inj', 'lemma'), ('vstructs::lemma_sig_structure_shape', 'lemma'),
                       ('vstructs::lemma_sig_domain_separation', 'lemma'), ('vstructs::lemma_ctx_texts_distinct', 'lemma'), ('vstructs::lemma_ctx_bstrs_inj', 'lemma'),
                       ('vcbor::lemma_head_pfree', 'lemma'), ('vcbor::lemma_str_pfree', 'lemma')]
OBLIGATIONS['C04'] += [('vstructs::lemma_structure_bytes', 'lemma'), ('vstructs::lemma_mac_domain_separation', 'lemma'), ('vstructs::lemma_ctx_texts_distinct', 'lemma')]
OBLIGATIONS['C05'] += [('vstructs::lemma_structure_bytes', 'lemma'), ('vstructs::lemma_enc_domain_separation', 'lemma'), ('vstructs::lemma_ctx_texts_distinct', 'lemma')]
OBLIGATIONS['C16'] = [
    ('common::Label::cmp', 'body'), ('common::Label::partial_cmp', 'body'), ('common::Label::cmp_canonical', 'body'),
    ('common::RegisteredLabel::cmp', 'body'), ('common::RegisteredLabel::partial_cmp', 'body'),
    ('common::RegisteredLabelWithPrivate::cmp', 'body'), ('common::RegisteredLabelWithPrivate::partial_cmp', 'body'),
    ('common::lemma_label_eq_cmp', 'lemma'), ('common::lemma_label_cmp_laws', 'lemma'), ('common::lemma_label_obeys_cmp', 'lemma'),
    ('common::lemma_reglabel_obeys_cmp', 'lemma'), ('common::lemma_rl_as_label_injective', 'lemma'),
    ('common::lemma_regp_as_label_injective', 'lemma'), ('common::lemma_regp_order_laws', 'lemma'),
    ('vprelude::lemma_lex_*', 'lemma'),
    ('vcbor::lemma_label_order_is_encoding_order', 'lemma'), ('vcbor::lemma_cmp_canonical_is_len_first', 'lemma'),
    ('vcbor::lemma_head_mono_concat', 'lemma'), ('vcbor::lemma_head_major_order', 'lemma'), ('vcbor::lemma_lex_concat', 'lemma'),
    ('proofs::label_int_order', 'kani'),
]
OBLIGATIONS['C18'] = [
    ('context::lemma_kdf_fixed_point', 'lemma'), ('context::lemma_supp_pub_fixed_point', 'lemma'), ('context::lemma_party_reenc', 'lemma'),
    ('iana::CwtClaimName::*', 'body'), ('registry_proofs::registry_CwtClaimName', 'kani'),
    ('cwt::ClaimsSet::from_cbor_value', 'body'), ('cwt::ClaimsSet::to_cbor_value', 'body'), ('cwt::Timestamp::from_cbor_value', 'body'), ('cwt::Timestamp::to_cbor_value', 'body'),
    ('cwt::lemma_claims_*', 'lemma'), ('vroundtrip_cwt::lemma_claims_fixed_point', 'lemma'), ('vroundtrip_cwt::lemma_claims_res_deterministic', 'lemma'),
    ('context::PartyInfo::from_cbor_value', 'body'), ('context::PartyInfo::to_cbor_value', 'body'),
    ('context::SuppPubInfo::from_cbor_value', 'body'), ('context::SuppPubInfo::to_cbor_value', 'body'),
    ('context::CoseKdfContext::from_cbor_value', 'body'), ('context::CoseKdfContext::to_cbor_value', 'body'),
    ('common::RegisteredLabelWithPrivate::from_cbor_value', 'body'), ('header::ProtectedHeader::from_cbor_bstr', 'body'),
]
OBLIGATIONS['C10'] = [
    ('vroundtrip_key::*', 'lemma'),
    ('iana::KeyType::*', 'body'), ('iana::KeyOperation::*', 'body'), ('iana::Algorithm::*', 'body'), ('registry_proofs::registry_KeyType', 'kani'), ('registry_proofs::registry_KeyOperation', 'kani'), ('registry_proofs::registry_Algorithm', 'kani'),
    ('key::CoseKey::from_cbor_value', 'body'), ('key::CoseKeySet::from_cbor_value', 'body'), ('key::CoseKey::to_cbor_value', 'body'), ('key::CoseKeySet::to_cbor_value', 'body'),
    ('common::Label::from_cbor_value', 'body'), ('common::RegisteredLabel::from_cbor_value', 'body'), ('common::RegisteredLabelWithPrivate::from_cbor_value', 'body'),
    ('common::lemma_label_obeys_cmp', 'lemma'), ('common::lemma_reglabel_obeys_cmp', 'lemma'),
    ('value::Value::try_as_map', 'body'), ('value::Value::try_as_array', 'body'), ('value::Value::try_as_nonempty_bytes', 'body'),
]
OBLIGATIONS['C15'] = [
    ('common::Label::from_cbor_value', 'body'), ('common::RegisteredLabel::from_cbor_value', 'body'), ('common::RegisteredLabelWithPrivate::from_cbor_value', 'body'),
    ('common::Label::to_cbor_value', 'body'), ('common::RegisteredLabel::to_cbor_value', 'body'), ('common::RegisteredLabelWithPrivate::to_cbor_value', 'body'),
    ('cwt::Timestamp::from_cbor_value', 'body'), ('cwt::Timestamp::to_cbor_value', 'body'),
    ('context::PartyInfo::from_cbor_value', 'body'), ('context::PartyInfo::to_cbor_value', 'body'),
    ('context::SuppPubInfo::from_cbor_value', 'body'), ('context::SuppPubInfo::to_cbor_value', 'body'),
    ('header::Header::from_cbor_value_nested', 'body'), ('key::CoseKey::from_cbor_value', 'body'), ('cwt::ClaimsSet::from_cbor_value', 'body'),
    ('value::Value::try_as_integer', 'body'),
    ('proofs::int_narrowing', 'kani'), ('proofs::int_widening', 'kani'),
]

OBLIGATIONS['C12'] = [
    # decode: acceptance predicates contain pairwise-distinct labels (iff), at every nesting level through the recursive relations
    ('header::Header::from_cbor_value_nested', 'body'), ('header::Header::from_cbor_value', 'body'), ('header::lemma_hdr_final', 'lemma'), ('header::lemma_hdr_inv_step', 'lemma'),
    ('key::CoseKey::from_cbor_value', 'body'), ('cwt::ClaimsSet::from_cbor_value', 'body'),
    ('header::ProtectedHeader::from_cbor_bstr_nested', 'body'), ('sign::CoseSignature::from_cbor_value_nested', 'body'),
    # error kind: when the first defect in wire order is a repeated label the error is DuplicateMapKey
    ('header::lemma_bad_pair_no_dup', 'lemma'), ('header::lemma_iv_both_no_dup', 'lemma'), ('header::lemma_all_distinct_no_dup', 'lemma'), ('header::lemma_not_map_no_dup', 'lemma'),
    ('key::lemma_key_bad_pair_no_dup', 'lemma'), ('key::lemma_key_all_distinct_no_dup', 'lemma'), ('cwt::lemma_claims_bad_pair_no_dup', 'lemma'), ('cwt::lemma_claims_all_distinct_no_dup', 'lemma'),
    # the sets behave as sets because the order is lawful
    ('common::lemma_label_obeys_cmp', 'lemma'), ('common::Label::cmp', 'body'), ('common::Label::from_cbor_value', 'body'),
    # encode: success iff no repeated / typed-clashing extra label; then keys pairwise distinct
    ('header::Header::to_cbor_value', 'body'), ('header::lemma_hdr_cv_keys_distinct', 'lemma'), ('header::lemma_typed_prefix_keys', 'lemma'), ('header::lemma_typed_labels', 'lemma'),
    ('key::CoseKey::to_cbor_value', 'body'), ('key::lemma_key_enc_labels_distinct', 'lemma'), ('key::lemma_key_head_labels', 'lemma'),
    ('cwt::ClaimsSet::to_cbor_value', 'body'),
    # builders refuse reserved labels
    ('header::HeaderBuilder::value', 'body'), ('key::CoseKeyBuilder::param', 'body'), ('cwt::ClaimsSetBuilder::claim', 'body'), ('cwt::ClaimsSetBuilder::private_claim', 'body'),
    ('header::HeaderBuilder::value__nec_reserved', 'nec'), ('key::CoseKeyBuilder::param__nec_reserved', 'nec'),
    ('cwt::ClaimsSetBuilder::claim__nec_reserved', 'nec'), ('cwt::ClaimsSetBuilder::private_claim__nec_private', 'nec'),
]

OBLIGATIONS['C20'] = [
    ('key::CoseKey::canonicalize', 'body'), ('key::lemma_canonical_lex_ascending', 'lemma'), ('key::lemma_canonical_len_first_ascending', 'lemma'),
    ('vcbor::lemma_len_first_typed_before_extra', 'lemma'), ('vcbor::lemma_enc_label_above_typed', 'lemma'), ('vcbor::lemma_len_first_equal_is_same', 'lemma'), ('key::lemma_typed_before_extra', 'lemma'), ('key::lemma_enc_labels', 'lemma'),
    ('key::CoseKey::to_cbor_value', 'body'), ('key::CoseKey::from_cbor_value', 'body'), ('key::lemma_key_roundtrip', 'lemma'),
    ('common::Label::cmp', 'body'), ('common::Label::cmp_canonical', 'body'), ('common::lemma_label_cmp_laws', 'lemma'),
    ('vcbor::lemma_label_order_is_encoding_order', 'lemma'), ('vcbor::lemma_cmp_canonical_is_len_first', 'lemma'),
    # canonicalising again is a no-op (uniqueness of the sorted arrangement of distinct labels), stated on the real function
    ('videm::lemma_*', 'lemma'), ('videm::check_canonicalize_twice_*', 'body'),
]
# C01: every exec function on the decode path and every follow-up helper is verified panic-free and terminating for ALL inputs,
# with no precondition (decoders, encoders, Clone-free helpers) or only the documented ones (index, payload/ciphertext, context)
OBLIGATIONS['C01'] = [
    ('common::read_to_value', 'body'), ('common::CborSerializable::*', 'body'), ('common::TaggedCborSerializable::*', 'body'),
    ('value::Value::*', 'body'), ('util::cbor_type_error', 'body'),
    ('common::*::from_cbor_value', 'body'), ('common::*::to_cbor_value', 'body'), ('common::*::cmp', 'body'),
    ('header::Header::*', 'body'), ('header::ProtectedHeader::*', 'body'),
    ('sign::CoseSign*::from_cbor_value*', 'body'), ('sign::CoseSign*::to_cbor_value', 'body'), ('sign::CoseSign*::tbs_*', 'body'), ('sign::CoseSign*::verify_*', 'body'), ('sign::sig_structure_data', 'body'),
    ('mac::CoseMac*::from_cbor_value', 'body'), ('mac::CoseMac*::to_cbor_value', 'body'), ('mac::CoseMac*::tbm', 'body'), ('mac::CoseMac*::verify_tag', 'body'), ('mac::mac_structure_data', 'body'),
    ('encrypt::Cose*::from_cbor_value', 'body'), ('encrypt::Cose*::to_cbor_value', 'body'), ('encrypt::Cose*::decrypt', 'body'), ('encrypt::enc_structure_data', 'body'),
    ('key::CoseKey*::from_cbor_value', 'body'), ('key::CoseKey*::to_cbor_value', 'body'), ('key::CoseKey::canonicalize', 'body'),
    ('context::*::from_cbor_value', 'body'), ('context::*::to_cbor_value', 'body'),
    ('cwt::*::from_cbor_value', 'body'), ('cwt::*::to_cbor_value', 'body'),
    ('vstubs::check_*', 'body'),
    ('vlemmas::lemma_decoded_protected_is_encodable', 'lemma'), ('vlemmas::lemma_decoded_messages_meet_helper_preconditions', 'lemma'), ('vlemmas::lemma_nesting_limit', 'lemma'),
]
# C11: every encoder is verified against a functional data-model spec X_cv(self) (success iff X_encodable(self));
# byte level through to_vec/to_tagged_vec (enc(vv(v))) and S1 (definite lengths, shortest heads)
OBLIGATIONS['C11'] = [
    ('*::to_cbor_value', 'body'), ('header::Header::is_empty', 'body'), ('header::ProtectedHeader::is_empty', 'body'), ('header::ProtectedHeader::cbor_bstr', 'body'),
    ('common::CborSerializable::to_vec', 'body'), ('common::TaggedCborSerializable::to_tagged_vec', 'body'),
    ('header::lemma_hdr_step', 'lemma'), ('header::lemma_hdr_skip', 'lemma'), ('header::lemma_hdr_start', 'lemma'), ('header::lemma_crit_cv', 'lemma'), ('header::lemma_csigs_cv', 'lemma'),
    ('header::lemma_rest_entries_push', 'lemma'), ('header::lemma_hdr_cv_keys_distinct', 'lemma'),
    ('cwt::lemma_claims_step', 'lemma'), ('cwt::lemma_claims_skip', 'lemma'), ('cwt::lemma_claims_rest_push', 'lemma'),
    ('encrypt::lemma_recipients_array', 'lemma'), ('vstubs::check_*to_cbor*', 'body'),
    ('key::lemma_key_roundtrip', 'lemma'), ('key::lemma_enc_labels', 'lemma'), ('key::lemma_params_of_enc', 'lemma'),
    ('vstructs::lemma_structure_bytes', 'lemma'),
    ('vroundtrip::lemma_header_reencoding_accepted', 'lemma'), ('vroundtrip::lemma_header_reencoding_same', 'lemma'), ('vroundtrip::lemma_encoded_pair', 'lemma'),
    ('vroundtrip::lemma_encoded_labels_distinct', 'lemma'), ('vroundtrip::lemma_rest_of_encoded', 'lemma'), ('vroundtrip::lemma_hdr_cv_same', 'lemma'),
    ('vroundtrip_cwt::lemma_claims_reenc', 'lemma'), ('vroundtrip_cwt::lemma_claims_roundtrip_from_memory', 'lemma'), ('vroundtrip_cwt::lemma_claims_encoded_pair', 'lemma'),
]
# C07: decode contracts (iff + result relations) and encode contracts (functional) of every type, the lemmas that every decoded
# value encodes successfully, the CoseKey decode-encode-decode lemma, and protected bytes kept (C02)
OBLIGATIONS['C07'] = [
    ('*::from_cbor_value', 'body'), ('*::from_cbor_value_nested', 'body'), ('*::to_cbor_value', 'body'),
    ('header::ProtectedHeader::from_cbor_bstr_nested', 'body'), ('header::ProtectedHeader::cbor_bstr', 'body'),
    ('common::CborSerializable::*', 'body'), ('common::TaggedCborSerializable::*', 'body'),
    ('header::lemma_decoded_header_encodable', 'lemma'), ('header::lemma_decoded_sig_encodable', 'lemma'), ('header::lemma_rest_of_props', 'lemma'),
    ('vlemmas::lemma_decoded_messages_encodable', 'lemma'), ('vlemmas::lemma_decoded_recipient_encodable', 'lemma'), ('vlemmas::lemma_decoded_recipients_encodable', 'lemma'),
    ('vlemmas::lemma_decoded_protected_is_encodable', 'lemma'),
    ('key::lemma_key_roundtrip', 'lemma'), ('key::lemma_enc_labels', 'lemma'), ('key::lemma_params_of_enc', 'lemma'),
    ('vstubs::check_*', 'body'),
    # fixed point (decode -> encode -> decode -> encode) for header maps, COSE_Signature, every message type and recipients
    # at any nesting, and for CWT claims sets
    ('vroundtrip::*', 'lemma'), ('vroundtrip_cwt::*', 'lemma'), ('vroundtrip_key::*', 'lemma'),
    ('context::lemma_party_*', 'lemma'), ('context::lemma_supp_pub_*', 'lemma'), ('context::lemma_kdf_*', 'lemma'),
]
OBLIGATIONS['C08'] = [
    ('iana::Algorithm::*', 'body'), ('iana::HeaderParameter::*', 'body'), ('iana::CoapContentFormat::*', 'body'), ('registry_proofs::registry_Algorithm', 'kani'), ('registry_proofs::registry_HeaderParameter', 'kani'), ('registry_proofs::registry_CoapContentFormat', 'kani'),
    ('header::Header::from_cbor_value_nested', 'body'), ('header::Header::from_cbor_value', 'body'),
    ('header::lemma_hdr_inv_init', 'lemma'), ('header::lemma_hdr_inv_step', 'lemma'), ('header::lemma_hdr_final', 'lemma'), ('header::lemma_iv_both', 'lemma'), ('header::lemma_absent_fields', 'lemma'),
    ('sign::CoseSignature::from_cbor_value_nested', 'body'), ('header::ProtectedHeader::from_cbor_bstr_nested', 'body'), ('header::ProtectedHeader::from_cbor_bstr', 'body'),
    ('header::ProtectedHeader::from_cbor_value', 'body'),
    ('common::Label::from_cbor_value', 'body'), ('common::RegisteredLabel::from_cbor_value', 'body'), ('common::RegisteredLabelWithPrivate::from_cbor_value', 'body'),
    ('common::lemma_label_obeys_cmp', 'lemma'),
    ('value::Value::try_as_map', 'body'), ('value::Value::try_as_array', 'body'), ('value::Value::try_as_nonempty_bytes', 'body'), ('value::Value::try_as_bytes', 'body'),
    ('vprelude::lemma_map_elem_decreases', 'lemma'), ('vprelude::lemma_arr_elem_decreases', 'lemma'),
]
# bounded stand-ins run on the real crate (never counted as discharged): property -> replay subcommands
# bounded checks on the real crate that run with EVERY check of the property (never counted as proved): the C01 stack/time
# measurement, and the "refused with the documented panic" clauses - a necessity copy shows that SOME call without the
# precondition panics, not that EVERY such call does; the probes call each refused case
MEASUREMENTS = {'C01': ['c01-measure'], 'C02': ['probe structures', 'probe roundtrip', 'probe messages'], 'C06': ['probe structures'], 'C19': ['probe builders'], 'C03': ['probe structures'], 'C04': ['probe structures'], 'C05': ['probe structures']}

# probe sets of the replay crate (concrete inputs on the real crate vs reference implementations written from the RFCs).
# Used ONLY to look for a failing input after the verifier flagged the property (failed obligation, or undecidable on a
# changed tree), and as a labelled bounded extra in the thorough tier.  They do not decide anything on the unchanged tree.
PROBES = {
    'C02': ['structures', 'headers', 'roundtrip', 'messages'], 'C03': ['structures'], 'C04': ['structures'], 'C05': ['structures'], 'C06': ['structures'],
    'C08': ['headers'], 'C12': ['headers', 'keys', 'claims'], 'C09': ['framing', 'headers', 'roundtrip', 'messages'], 'C13': ['framing'], 'C14': ['framing'],
    'C15': ['integers'], 'C16': ['order'], 'C17': ['claims', 'keys', 'headers'], 'C20': ['order'],
    'C10': ['keys'], 'C18': ['claims', 'integers'], 'C19': ['builders'], 'C07': ['roundtrip', 'messages'], 'C11': ['roundtrip', 'messages'], 'C01': ['roundtrip', 'framing', 'headers', 'keys', 'claims', 'integers', 'structures', 'builders', 'order', 'messages'],
}

# users of the core functions that the property statements cover as well
# C02: the KDF-context types carry a protected header too.  The typed wrappers and signing / MAC / encryption helpers that put the
# protected bytes into a structure have contracts about the WHOLE structure (they are obligations of C03-C06); what C02 says
# about them - the protected slot is the retained byte string - is checked slot by slot by an always-on bounded probe instead
# (MEASUREMENTS), so that a change to, say, the payload handling of `tbm` is not reported for C02.
OBLIGATIONS['C02'] += [
    ('context::SuppPubInfo::from_cbor_value', 'body'), ('context::SuppPubInfo::to_cbor_value', 'body'),
    ('context::CoseKdfContext::from_cbor_value', 'body'), ('context::CoseKdfContext::to_cbor_value', 'body'),
]
OBLIGATIONS['C03'] += [
    ('sign::*::verify_*', 'body'), ('sign::*Builder::*create*signature', 'body'), ('sign::*Builder::*add_*signature', 'body'),
]
# refusal copies (negated precondition, `ensures false`) of the guards written as `if .. { panic!(..) }` / `assert!`: they must fail
# ONLY at the panic; a postcondition failure means some call outside the precondition returns normally
OBLIGATIONS['C19'] += [('header::HeaderBuilder::value__ref_reserved', 'ref'), ('key::CoseKeyBuilder::param__ref_reserved', 'ref'),
                       ('cwt::ClaimsSetBuilder::claim__ref_reserved', 'ref'), ('cwt::ClaimsSetBuilder::private_claim__ref_private', 'ref')]
OBLIGATIONS['C12'] += [('header::HeaderBuilder::value__ref_reserved', 'ref'), ('key::CoseKeyBuilder::param__ref_reserved', 'ref'), ('cwt::ClaimsSetBuilder::claim__ref_reserved', 'ref')]
OBLIGATIONS['C05'] += [('encrypt::CoseRecipient::decrypt__ref_context', 'ref'), ('encrypt::CoseRecipientBuilder::aad__ref_context', 'ref')]
OBLIGATIONS['C03'] += [('sign::CoseSign1::tbs_detached_data__ref_payload', 'ref'), ('sign::CoseSign::tbs_detached_data__ref_payload', 'ref')]
# every function that documents a panic has its necessity copy (the documented precondition removed -> must fail)
OBLIGATIONS['C04'] += [('mac::*::*__nec_payload', 'nec')]
OBLIGATIONS['C05'] += [('encrypt::*::*__nec_*', 'nec')]
OBLIGATIONS['C03'] += [('sign::*::*__nec_*', 'nec')]
OBLIGATIONS['C06'] += [('mac::*::*__nec_payload', 'nec'), ('encrypt::*::*__nec_*', 'nec'), ('sign::*::*__nec_*', 'nec')]
OBLIGATIONS['C17'] += [     # the decoders that classify labels through the registries
    ('cwt::ClaimsSet::from_cbor_value', 'body'), ('header::Header::from_cbor_value_nested', 'body'), ('key::CoseKey::from_cbor_value', 'body'),
]
OBLIGATIONS['C06'] += [('vwirehop::*', 'lemma')]
# C06's wire hop (serialise the created message, parse it back, verify) is exercised end to end by an always-on bounded probe
# (create -> to_vec -> from_slice -> verify, what both closures saw is compared); the encoders / decoders themselves are
# obligations of C07, C09 and C11, so that a change to, say, what a decoder accepts is not reported for C06.
for _p in ('C02', 'C07', 'C04', 'C05', 'C06', 'C11'):
    OBLIGATIONS[_p] += [('header::Header::is_empty', 'body'), ('header::ProtectedHeader::is_empty', 'body')]

# properties about panics / termination only: a function that fails nothing but postconditions does not count (patterns listed
# here would be exceptions; there are none: C01's own lemmas about decoded values are separate obligations)
SAFETY_ONLY = {'C01': ()}

# C19 is about what each builder call does to the value being built (whole-struct frame); what the signing / MAC / encryption
# helpers hand to the caller's function is C06's and C03-C05's business, so the callees of the builders are not pulled in
NO_CLOSURE = ('C19',)

# items that must FAIL verification (vacuity / soundness canaries), checked on every run
MUST_FAIL = ['vcanary::canary_false', 'vcanary::canary_axioms']


def properties():
    return sorted(OBLIGATIONS)

# Verus obligations that a COMPLETE Kani harness restates for the same real function over its whole input domain
# (regex on the Verus item name -> harness names): check.py counts such an obligation as discharged when Verus fails it and
# every listed harness succeeds.
KANI_EQUIVALENT = [
    (r'iana::[A-Za-z0-9_&%]+::is_private',['proofs::private_ranges']),
]
