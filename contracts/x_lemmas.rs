// Spec-level lemmas over the contracts (DESIGN.md section 4): C13 suffix/prefix, C14 tags.
mod vlemmas {
use vstd::prelude::*;
use crate::*;
use crate::vprelude::*;
use crate::common::parse_all;
use ciborium::value::Value;
verus!{
// ---- A-PARSE, properties of the uninterpreted `parse` (ciborium::de::from_reader on a slice), ASSUMED:
/// P1: the outcome of parsing depends only on the bytes of the item that was consumed
pub broadcast axiom fn axiom_parse_prefix_determined(b: Seq<u8>, s: Seq<u8>)
    ensures (#[trigger] parse(b + s)) == (match parse(b) { Some((v, n)) => Some((v, n)), None => parse(b + s) }),
            parse(b) matches Some((v, n)) ==> 0 < n <= b.len();
/// P2: no proper prefix of the bytes of one item is itself an item
pub broadcast axiom fn axiom_parse_no_proper_prefix(b: Seq<u8>, k: int)
    ensures (parse(b) matches Some((v, n)) && 0 <= k < n) ==> (#[trigger] parse(b.subrange(0, k))) is None;

/// C13: appending any non-empty suffix to an accepted input makes read_to_value answer ExtraneousData
/// (read_to_value's contract: parse(x) == Some((v, n)) with n < |x|  ==>  Err(ExtraneousData))
pub proof fn lemma_suffix_is_extraneous(b: Seq<u8>, s: Seq<u8>)
    requires parse_all(b) is Some, s.len() > 0,
    ensures parse(b + s) matches Some((v, n)) && n == b.len() && n < (b + s).len() && Some(v) == parse_all(b),
{
    broadcast use axiom_parse_prefix_determined;
    assert(parse(b + s) == parse(b));
}
/// C13: every proper prefix of an accepted input is rejected by the parser (read_to_value: parse == None ==> Err(DecodeFailed))
pub proof fn lemma_proper_prefix_rejected(b: Seq<u8>, k: int)
    requires parse_all(b) is Some, 0 <= k < b.len(),
    ensures parse(b.subrange(0, k)) is None, parse_all(b.subrange(0, k)) is None,
{
    broadcast use axiom_parse_no_proper_prefix;
}

// ---- C14: the numeric values of the six TAG constants (`iana::CborTag::X as u64`) are outside this file's reach
// (Verus rejects the enum cast in a const initialiser, R8); they are checked against the IANA numbers, and for pairwise
// distinctness, by the complete Kani harness `tag_consts` on the real crate.  The generic tagged methods are verified
// against `Self::TAG` in common::TaggedCborSerializable.
/// untagged decoding of the six message types rejects every tagged item (they all demand an array)
pub proof fn lemma_untagged_rejects_tag(v: Value)
    requires v is Tag,
    ensures !crate::sign::sign_ok(v), !crate::sign::sign1_ok(v), !crate::mac::mac_ok(v), !crate::mac::mac0_ok(v),
            !crate::encrypt::encrypt_ok(v), !crate::encrypt::encrypt0_ok(v),
{}
/// hence a doubly tagged item is rejected by tagged decoding of e.g. COSE_Sign1, whatever the tags
pub proof fn lemma_double_tag_rejected(t: u64, inner: Value, r: Result<CoseSign1>)
    requires inner is Tag, <CoseSign1 as AsCborValue>::dec_rel(inner, r),
    ensures r is Err,
{ lemma_untagged_rejects_tag(inner); }
}
}
