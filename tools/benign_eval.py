#!/usr/bin/env python3
"""Apply a behaviour-preserving patch to /repo, run the named checks, revert.  usage: benign_eval.py <patch dir> <prop> [<prop>...]
A non-zero exit 1 (VIOLATION) on such a patch is a false alarm of the machinery."""
import os, sys, json, subprocess, re
VERIF = os.path.dirname(os.path.dirname(os.path.abspath(__file__)))
REPO = os.environ.get('COSET_REPO', '/repo')      # a scratch git worktree of /repo when several evaluations run side by side
WID = os.environ.get('EVAL_WORKER', '')
src = sys.argv[1].rstrip('/')
props = sys.argv[2:]
assert subprocess.run('git -C %s diff --quiet' % REPO + '', shell=True).returncode == 0, 'repo dirty'
assert subprocess.run(['git', '-C', REPO, 'apply', os.path.join(src, 'patch.diff')]).returncode == 0
res = {'name': os.path.basename(src), 'checks': {}}
try:
    for p in props:
        env = dict(os.environ, VERIF_EVIDENCE_DIR='/tmp/mut-evidence' + WID)
        pr = subprocess.run(['python3', 'tools/check.py', p], cwd=VERIF, capture_output=True, text=True, env=env)
        lines = [l[:300] for l in pr.stdout.splitlines() if re.match(r'VIOLATION|UNDECIDED|OK |FAILED-OBL|FAILING-INPUT', l)]
        res['checks'][p] = {'rc': pr.returncode, 'lines': lines[:6]}
finally:
    subprocess.run('git -C %s checkout -- .' % REPO, shell=True)
json.dump(res, open(os.path.join(src, 'benign_eval.json'), 'w'), indent=1)
print(res['name'], ' '.join('%s=%d' % (p, c['rc']) for p, c in res['checks'].items()))
for p, c in res['checks'].items():
    if c['rc'] == 1:
        print('   FALSE-ALARM?', p, c['lines'][:3])
