#!/usr/bin/env python3
"""Generate the Verus file from /repo's working tree, run Verus on it (cached), parse results."""
import os, sys, json, subprocess, hashlib, time, glob, re
sys.path.insert(0, os.path.dirname(os.path.abspath(__file__)))
import extract

VERIF = extract.VERIF
BUILD = os.path.join(VERIF, 'build')
DEPS = os.path.join(BUILD, 'deps/debug/deps')


def verus_version():
    try:
        out = subprocess.run(['verus', '--version'], capture_output=True, text=True).stdout
        m = re.search(r'Version:\s*(\S+)', out)
        return m.group(1) if m else 'unknown'
    except Exception:
        return 'unknown'


def rlib(name):
    g = glob.glob(os.path.join(DEPS, 'lib%s-*.rlib' % name))
    if not g:
        raise RuntimeError('missing %s rlib under %s: run `python3 tools/setup.py` first' % (name, DEPS))
    return sorted(g)[0]


def verus_cmd(path, extra=()):
    return ['verus', path, '--extern', 'ciborium=' + rlib('ciborium'), '--extern', 'ciborium_io=' + rlib('ciborium_io'),
            '-L', 'dependency=' + DEPS] + list(extra)


def run_verus_on_text(text, tag, extra=(), timeout=3000, rlimit=40):
    """-> dict(result json, diagnostics list, wall_s, cmd, rc, stderr_tail); cached on sha(text+args)"""
    key = hashlib.sha256((text + '\0' + ' '.join(extra) + '\0' + verus_version() + str(rlimit)).encode()).hexdigest()[:24]
    cdir = os.path.join(BUILD, 'cache')
    os.makedirs(cdir, exist_ok=True)
    cfile = os.path.join(cdir, '%s-%s.json' % (tag, key))
    if os.path.exists(cfile) and not os.environ.get('VERIF_NOCACHE'):
        try:
            d = json.load(open(cfile))
            d['cached'] = True
            return d
        except Exception:
            pass
    gdir = os.path.join(BUILD, 'gen')
    os.makedirs(gdir, exist_ok=True)
    path = os.path.join(gdir, '%s.rs' % tag)
    open(path, 'w').write(text)
    args = ['--output-json', '--time', '--error-format=json', '--multiple-errors', '4'] + list(extra)
    if rlimit:
        args += ['--rlimit', str(rlimit)]
    cmd = verus_cmd(path, args)
    t0 = time.time()
    try:
        p = subprocess.run(cmd, capture_output=True, text=True, timeout=timeout, cwd=gdir)
        rc, out, err = p.returncode, p.stdout, p.stderr
    except subprocess.TimeoutExpired as e:
        rc, out, err = -9, (e.stdout or b'').decode() if isinstance(e.stdout, bytes) else (e.stdout or ''), 'TIMEOUT'
    wall = time.time() - t0
    try:
        res = json.loads(out)
    except Exception:
        res = None
    diags = []
    for line in err.splitlines():
        line = line.strip()
        if line.startswith('{'):
            try:
                d = json.loads(line)
            except Exception:
                continue
            if d.get('level') in ('error', 'warning') or d.get('$message_type') == 'diagnostic':
                spans = [{'file': s['file_name'], 'line': s['line_start'], 'col': s['column_start'], 'primary': s['is_primary'],
                          'label': s.get('label'), 'text': (s['text'][0]['text'].strip() if s.get('text') else '')} for s in d.get('spans', [])]
                diags.append({'level': d.get('level'), 'message': d.get('message'), 'spans': spans,
                              'rendered': (d.get('rendered') or '')[:3000]})
    d = {'result': res, 'diagnostics': [x for x in diags if x['level'] == 'error'],
         'warnings': len([x for x in diags if x['level'] == 'warning']),
         'wall_s': round(wall, 2), 'cmd': ' '.join(cmd).replace(BUILD, '/verif/build'), 'rc': rc,
         'stderr_tail': '' if res else err[-3000:], 'path': path, 'cached': False}
    json.dump(d, open(cfile, 'w'))
    # keep the cache small
    files = sorted(glob.glob(os.path.join(cdir, '*.json')), key=os.path.getmtime)
    for f in files[:-40]:
        try:
            os.remove(f)
        except OSError:
            pass
    return d


def function_table(run):
    """-> {function path: {success, time_ms, rlimit, mode}}"""
    tab = {}
    res = run.get('result')
    if not res:
        return tab
    for mod in res.get('times-ms', {}).get('smt', {}).get('smt-run-module-times', []):
        for f in mod['function-breakdown']:
            name = f['function']
            name = name.split('::', 1)[1] if '::' in name else name
            e = tab.setdefault(name, {'success': True, 'time_us': 0, 'rlimit': 0, 'mode': f.get('mode:')})
            e['success'] = e['success'] and f['success']
            e['time_us'] += f['time-micros']
            e['rlimit'] += f['rlimit']
    return tab


def line_index(text):
    """generated-file line -> enclosing fn name (best effort), for diagnostics"""
    idx = []
    cur = None
    fn_re = re.compile(r'\b(?:fn)\s+([A-Za-z0-9_]+)')
    for ln in text.split('\n'):
        m = fn_re.search(ln)
        if m and not ln.strip().startswith('//'):
            cur = m.group(1)
        idx.append(cur)
    return idx


def classify(run):
    """'ok' | 'verification-failed' | 'tool-error' (compile error, unsupported, crash, timeout)"""
    res = run.get('result')
    if res is None:
        return 'tool-error'
    vr = res.get('verification-results', {})
    if vr.get('encountered-vir-error'):
        return 'tool-error'
    if vr.get('success'):
        return 'ok'
    if vr.get('errors', 0) > 0 or vr.get('verified', 0) > 0:
        # rustc/type errors give verified == 0 and errors == 0
        return 'verification-failed'
    return 'tool-error'


def generate_and_run(tag='coset_verus', extra=(), with_contracts=True):
    text, info = extract.generate(with_contracts=with_contracts)
    run = run_verus_on_text(text, tag, extra)
    return text, info, run


if __name__ == '__main__':
    import argparse
    ap = argparse.ArgumentParser()
    ap.add_argument('--only', help='substring filter on failing function names')
    ap.add_argument('-v', action='store_true')
    a, rest = ap.parse_known_args()
    a.extra = rest
    os.environ.setdefault('VERIF_NOCACHE', '')
    text, info, run = generate_and_run(extra=a.extra)
    print('class:', classify(run), 'wall', run['wall_s'], 'cached', run['cached'])
    if run['result']:
        print(json.dumps(run['result']['verification-results']))
    tab = function_table(run)
    bad = sorted(k for k, v in tab.items() if not v['success'] and '__nec_' not in k and '__ref_' not in k and 'canary' not in k)
    print('functions:', len(tab), 'failing:', len(bad))
    for b in bad:
        print('  FAIL', b)
    slow = sorted(tab.items(), key=lambda kv: -kv[1]['time_us'])[:8]
    print('slowest:', [(k, v['time_us'] // 1000) for k, v in slow])
    lines = text.split('\n')
    for d in run['diagnostics']:
        sp = [s for s in d['spans'] if s['file'].endswith('.rs') and 'std_specs' not in s['file']]
        loc = ', '.join('%d:%s' % (s['line'], s['text'][:90]) for s in sp[:3])
        if a.only and a.only not in loc and a.only not in d['message']:
            continue
        if any(x in d['rendered'] for x in ('canary_', 'safe: documented', 'safe: invalid input', 'is_private(id)', 'self.signatures[which]', 'payload.is_none()')):
            continue
        print('ERR', d['message'][:200], '@', loc)
        if a.v:
            print(d['rendered'])
    if not run['result']:
        print(run['stderr_tail'])
