"""Which verified items carry which property (DESIGN.md section 4 / appendix A).

Names are Verus function paths without the crate prefix, as they appear in the verifier's
per-function report; fnmatch patterns are allowed.  `min` is the number of items the pattern
list matched on the unchanged tree: fewer than that at run time means an obligation was lost
(renamed / removed function) and the check answers UNDECIDED (exit 2), never "holds".

kinds:  body    = contracted exec function: all ensures, callee preconditions, panic-freedom, loop
                  invariants, termination measures, arithmetic overflow of the real body
        lemma   = spec-level lemma (proof fn)
        nec     = necessity copy: the body with one documented precondition removed MUST FAIL
        kani    = Kani/CBMC harness on the real crate (complete unless the name says bounded)
"""

# property -> list of (pattern, kind)
OBLIGATIONS = {
    'C03': [
        ('sign::sig_structure_data', 'body'), ('sign::SignatureContext::text', 'body'),
        ('sign::CoseSign1::tbs_data', 'body'), ('sign::CoseSign1::tbs_detached_data', 'body'),
        ('sign::CoseSign::tbs_data', 'body'), ('sign::CoseSign::tbs_detached_data', 'body'),
        ('header::ProtectedHeader::cbor_bstr', 'body'), ('header::ProtectedHeader::is_empty', 'body'), ('header::Header::is_empty', 'body'),
        ('header::Header::to_cbor_value', 'body'), ('common::CborSerializable::to_vec', 'body'),
    ],
    'C04': [
        ('mac::mac_structure_data', 'body'), ('mac::MacContext::text', 'body'),
        ('mac::CoseMac::tbm', 'body'), ('mac::CoseMac0::tbm', 'body'),
        ('mac::CoseMac::verify_tag', 'body'), ('mac::CoseMac0::verify_tag', 'body'),
        ('mac::CoseMacBuilder::create_tag', 'body'), ('mac::CoseMacBuilder::try_create_tag', 'body'),
        ('mac::CoseMac0Builder::create_tag', 'body'), ('mac::CoseMac0Builder::try_create_tag', 'body'),
        ('header::ProtectedHeader::cbor_bstr', 'body'),
    ],
    'C05': [
        ('encrypt::enc_structure_data', 'body'), ('encrypt::EncryptionContext::text', 'body'),
        ('encrypt::CoseRecipient::decrypt', 'body'), ('encrypt::CoseEncrypt::decrypt', 'body'), ('encrypt::CoseEncrypt0::decrypt', 'body'),
        ('encrypt::CoseRecipientBuilder::aad', 'body'),
        ('encrypt::*Builder::create_ciphertext', 'body'), ('encrypt::*Builder::try_create_ciphertext', 'body'),
        ('header::ProtectedHeader::cbor_bstr', 'body'),
    ],
    'C06': [
        ('sign::CoseSign1Builder::create_signature', 'body'), ('sign::CoseSign1Builder::create_detached_signature', 'body'),
        ('sign::CoseSign1Builder::try_create_signature', 'body'), ('sign::CoseSign1Builder::try_create_detached_signature', 'body'),
        ('sign::CoseSignBuilder::add_created_signature', 'body'), ('sign::CoseSignBuilder::add_detached_signature', 'body'),
        ('sign::CoseSignBuilder::try_add_created_signature', 'body'), ('sign::CoseSignBuilder::try_add_detached_signature', 'body'),
        ('sign::CoseSignBuilder::add_signature', 'body'),
        ('sign::CoseSign1::verify_signature', 'body'), ('sign::CoseSign1::verify_detached_signature', 'body'),
        ('sign::CoseSign::verify_signature', 'body'), ('sign::CoseSign::verify_detached_signature', 'body'),
        ('mac::CoseMac::verify_tag', 'body'), ('mac::CoseMac0::verify_tag', 'body'),
        ('mac::*Builder::create_tag', 'body'), ('mac::*Builder::try_create_tag', 'body'),
        ('encrypt::*::decrypt', 'body'), ('encrypt::*Builder::create_ciphertext', 'body'), ('encrypt::*Builder::try_create_ciphertext', 'body'),
    ],
}

OBLIGATIONS.update({
    'C02': [
        ('header::ProtectedHeader::from_cbor_bstr', 'body'), ('header::ProtectedHeader::from_cbor_bstr_nested', 'body'),
        ('header::ProtectedHeader::cbor_bstr', 'body'), ('header::ProtectedHeader::from_cbor_value', 'body'), ('header::ProtectedHeader::to_cbor_value', 'body'),
        ('header::Header::from_cbor_value_nested', 'body'), ('sign::CoseSignature::from_cbor_value_nested', 'body'),
        ('sign::*::from_cbor_value', 'body'), ('mac::*::from_cbor_value', 'body'), ('encrypt::*::from_cbor_value', 'body'),
        ('sign::*::to_cbor_value', 'body'), ('mac::*::to_cbor_value', 'body'), ('encrypt::*::to_cbor_value', 'body'),
        ('sign::sig_structure_data', 'body'), ('mac::mac_structure_data', 'body'), ('encrypt::enc_structure_data', 'body'),
        ('*Builder::protected', 'body'),
        ('vstubs::check_*', 'body'),
    ],
    'C09': [
        ('sign::CoseSign1::from_cbor_value', 'body'), ('sign::CoseSign::from_cbor_value', 'body'), ('sign::CoseSignature::from_cbor_value', 'body'),
        ('sign::CoseSignature::from_cbor_value_nested', 'body'),
        ('mac::CoseMac::from_cbor_value', 'body'), ('mac::CoseMac0::from_cbor_value', 'body'),
        ('encrypt::CoseEncrypt::from_cbor_value', 'body'), ('encrypt::CoseEncrypt0::from_cbor_value', 'body'), ('encrypt::CoseRecipient::from_cbor_value', 'body'),
        ('header::ProtectedHeader::from_cbor_bstr', 'body'), ('header::ProtectedHeader::from_cbor_bstr_nested', 'body'),
        ('header::Header::from_cbor_value', 'body'), ('header::Header::from_cbor_value_nested', 'body'),
        ('value::Value::try_as_*', 'body'), ('vstubs::check_recipient_from_cbor_value_stub', 'body'),
        ('common::read_to_value', 'body'),
    ],
    'C13': [
        ('common::read_to_value', 'body'), ('common::CborSerializable::from_slice', 'body'), ('common::CborSerializable::to_vec', 'body'),
        ('common::TaggedCborSerializable::from_tagged_slice', 'body'), ('common::TaggedCborSerializable::to_tagged_vec', 'body'),
        ('header::ProtectedHeader::from_cbor_bstr_nested', 'body'),
        ('vlemmas::lemma_suffix_is_extraneous', 'lemma'), ('vlemmas::lemma_proper_prefix_rejected', 'lemma'),
    ],
    'C14': [
        ('common::TaggedCborSerializable::from_tagged_slice', 'body'), ('common::TaggedCborSerializable::to_tagged_vec', 'body'),
        ('value::Value::try_as_tag', 'body'), ('value::Value::try_as_array', 'body'),
        ('vlemmas::lemma_untagged_rejects_tag', 'lemma'), ('vlemmas::lemma_double_tag_rejected', 'lemma'),
        ('sign::CoseSign::from_cbor_value', 'body'), ('sign::CoseSign1::from_cbor_value', 'body'), ('mac::CoseMac::from_cbor_value', 'body'),
        ('mac::CoseMac0::from_cbor_value', 'body'), ('encrypt::CoseEncrypt::from_cbor_value', 'body'), ('encrypt::CoseEncrypt0::from_cbor_value', 'body'),
        ('voracle::oracle_CborTag', 'lemma'),
        ('proofs::tag_consts', 'kani'), ('registry_proofs::registry_CborTag', 'kani'),
    ],
    'C17': [
        ('iana::*::from_i64', 'body'), ('iana::*::to_i64', 'body'), ('iana::*::is_private', 'body'), ('iana::*::lemma_enum_laws', 'lemma'),
        ('voracle::oracle_*', 'lemma'),
        ('common::Label::from_cbor_value', 'body'), ('common::RegisteredLabel::from_cbor_value', 'body'), ('common::RegisteredLabelWithPrivate::from_cbor_value', 'body'),
        ('common::Label::to_cbor_value', 'body'), ('common::RegisteredLabel::to_cbor_value', 'body'), ('common::RegisteredLabelWithPrivate::to_cbor_value', 'body'),
        ('registry_proofs::registry_*', 'kani'), ('proofs::private_ranges', 'kani'),
    ],
})

OBLIGATIONS['C03'] += [('sign::CoseSign1::tbs_detached_data__nec_payload', 'nec'), ('sign::CoseSign::tbs_detached_data__nec_payload', 'nec'),
                       ('sign::CoseSign::verify_signature__nec_index', 'nec'), ('sign::CoseSign::verify_detached_signature__nec_index', 'nec')]
OBLIGATIONS['C04'] += [('mac::CoseMac::tbm__nec_payload', 'nec'), ('mac::CoseMac0::tbm__nec_payload', 'nec')]
OBLIGATIONS['C05'] += [('encrypt::CoseRecipient::decrypt__nec_ciphertext', 'nec'), ('encrypt::CoseRecipient::decrypt__nec_context', 'nec'),
                       ('encrypt::CoseEncrypt::decrypt__nec_ciphertext', 'nec'), ('encrypt::CoseEncrypt0::decrypt__nec_ciphertext', 'nec'),
                       ('encrypt::CoseRecipientBuilder::aad__nec_context', 'nec')]
OBLIGATIONS['C19'] = [
    ('*Builder::*', 'body'),
    ('header::HeaderBuilder::value__nec_reserved', 'nec'), ('key::CoseKeyBuilder::param__nec_reserved', 'nec'),
    ('cwt::ClaimsSetBuilder::claim__nec_reserved', 'nec'), ('cwt::ClaimsSetBuilder::private_claim__nec_private', 'nec'),
    ('key::KeyType::default', 'body'), ('common::Algorithm::default', 'body'),
]

OBLIGATIONS['C03'] += [('vstructs::lemma_structure_bytes', 'lemma'), ('vstructs::lemma_structure_inj', 'lemma'), ('vstructs::lemma_sig_structure_shape', 'lemma'),
                       ('vstructs::lemma_sig_domain_separation', 'lemma'), ('vstructs::lemma_ctx_texts_distinct', 'lemma'), ('vstructs::lemma_ctx_bstrs_inj', 'lemma'),
                       ('vcbor::lemma_head_pfree', 'lemma'), ('vcbor::lemma_str_pfree', 'lemma')]
OBLIGATIONS['C04'] += [('vstructs::lemma_structure_bytes', 'lemma'), ('vstructs::lemma_mac_domain_separation', 'lemma'), ('vstructs::lemma_ctx_texts_distinct', 'lemma')]
OBLIGATIONS['C05'] += [('vstructs::lemma_structure_bytes', 'lemma'), ('vstructs::lemma_enc_domain_separation', 'lemma'), ('vstructs::lemma_ctx_texts_distinct', 'lemma')]
OBLIGATIONS['C16'] = [
    ('common::Label::cmp', 'body'), ('common::Label::partial_cmp', 'body'), ('common::Label::cmp_canonical', 'body'),
    ('common::RegisteredLabel::cmp', 'body'), ('common::RegisteredLabel::partial_cmp', 'body'),
    ('common::RegisteredLabelWithPrivate::cmp', 'body'), ('common::RegisteredLabelWithPrivate::partial_cmp', 'body'),
    ('common::lemma_label_eq_cmp', 'lemma'), ('common::lemma_label_cmp_laws', 'lemma'), ('common::lemma_label_obeys_cmp', 'lemma'),
    ('common::lemma_reglabel_obeys_cmp', 'lemma'), ('common::lemma_rl_as_label_injective', 'lemma'),
    ('vprelude::lemma_lex_*', 'lemma'),
    ('vcbor::lemma_label_order_is_encoding_order', 'lemma'), ('vcbor::lemma_cmp_canonical_is_len_first', 'lemma'),
    ('vcbor::lemma_head_mono_concat', 'lemma'), ('vcbor::lemma_head_major_order', 'lemma'), ('vcbor::lemma_lex_concat', 'lemma'),
    ('proofs::label_int_order', 'kani'),
]
OBLIGATIONS['C18'] = [
    ('cwt::ClaimsSet::from_cbor_value', 'body'), ('cwt::ClaimsSet::to_cbor_value', 'body'), ('cwt::Timestamp::from_cbor_value', 'body'), ('cwt::Timestamp::to_cbor_value', 'body'),
    ('cwt::lemma_claims_*', 'lemma'),
    ('context::PartyInfo::from_cbor_value', 'body'), ('context::PartyInfo::to_cbor_value', 'body'),
    ('context::SuppPubInfo::from_cbor_value', 'body'), ('context::SuppPubInfo::to_cbor_value', 'body'),
    ('context::CoseKdfContext::from_cbor_value', 'body'), ('context::CoseKdfContext::to_cbor_value', 'body'),
    ('common::RegisteredLabelWithPrivate::from_cbor_value', 'body'), ('header::ProtectedHeader::from_cbor_bstr', 'body'),
]
OBLIGATIONS['C10'] = [
    ('key::CoseKey::from_cbor_value', 'body'), ('key::CoseKeySet::from_cbor_value', 'body'), ('key::CoseKey::to_cbor_value', 'body'), ('key::CoseKeySet::to_cbor_value', 'body'),
    ('common::Label::from_cbor_value', 'body'), ('common::RegisteredLabel::from_cbor_value', 'body'), ('common::RegisteredLabelWithPrivate::from_cbor_value', 'body'),
    ('common::lemma_label_obeys_cmp', 'lemma'), ('common::lemma_reglabel_obeys_cmp', 'lemma'),
    ('value::Value::try_as_map', 'body'), ('value::Value::try_as_array', 'body'), ('value::Value::try_as_nonempty_bytes', 'body'),
]
OBLIGATIONS['C15'] = [
    ('common::Label::from_cbor_value', 'body'), ('common::RegisteredLabel::from_cbor_value', 'body'), ('common::RegisteredLabelWithPrivate::from_cbor_value', 'body'),
    ('common::Label::to_cbor_value', 'body'), ('common::RegisteredLabel::to_cbor_value', 'body'), ('common::RegisteredLabelWithPrivate::to_cbor_value', 'body'),
    ('cwt::Timestamp::from_cbor_value', 'body'), ('cwt::Timestamp::to_cbor_value', 'body'),
    ('context::PartyInfo::from_cbor_value', 'body'), ('context::PartyInfo::to_cbor_value', 'body'),
    ('context::SuppPubInfo::from_cbor_value', 'body'), ('context::SuppPubInfo::to_cbor_value', 'body'),
    ('header::Header::from_cbor_value_nested', 'body'), ('key::CoseKey::from_cbor_value', 'body'), ('cwt::ClaimsSet::from_cbor_value', 'body'),
    ('value::Value::try_as_integer', 'body'),
    ('proofs::int_narrowing', 'kani'), ('proofs::int_widening', 'kani'),
]

# items that must FAIL verification (vacuity / soundness canaries), checked on every run
MUST_FAIL = ['vcanary::canary_false', 'vcanary::canary_axioms']


def properties():
    return sorted(OBLIGATIONS)
