#!/bin/bash
# usage: try_mut.sh <file under /repo/src> <old> <new> <prop>...   -- apply a textual mutation to /repo, run the checks, restore /repo
set -u
cd /repo || exit 3
git diff --quiet || { echo "repo dirty"; exit 3; }
python3 - "$1" "$2" "$3" <<'PY'
import sys
f,old,new=sys.argv[1:4]
p='/repo/src/'+f
s=open(p).read()
assert s.count(old)>=1,'pattern not found'
open(p,'w').write(s.replace(old,new,1))
PY
[ $? -eq 0 ] || { git checkout -- .; exit 3; }
cargo build --offline 2>&1 | grep -E "^error" | head -3
for p in "${@:4}"; do (cd /verif && VERIF_EVIDENCE_DIR=/tmp/mut-evidence python3 tools/check.py $p | grep -E "VIOLATION|UNDECIDED|^OK|FAILED-OBL" ); done
git checkout -- .
