#!/usr/bin/env python3
"""One-time offline setup: build the real ciborium crates as rlibs with Verus' toolchain."""
import os, subprocess, shutil, sys
VERIF = os.path.dirname(os.path.dirname(os.path.abspath(__file__)))
dep = os.path.join(VERIF, 'depcrate')
shutil.copy('/repo/Cargo.lock', os.path.join(dep, 'Cargo.lock'))
env = dict(os.environ, CARGO_NET_OFFLINE='true', CARGO_TARGET_DIR=os.path.join(VERIF, 'build/deps'))
r = subprocess.run(['cargo', '+1.98.1-x86_64-unknown-linux-gnu', 'build', '--offline'], cwd=dep, env=env)
if r.returncode != 0:
    sys.exit(r.returncode)
for sub in ('replay', 'kani'):
    d = os.path.join(VERIF, sub)
    if os.path.exists(os.path.join(d, 'Cargo.toml')):
        shutil.copy('/repo/Cargo.lock', os.path.join(d, 'Cargo.lock'))
print('setup ok')
